// Supplementary to the C06 findings (NOT a finding): exploration harness. Wraps the wallet backend and
// injects a simulated process death / a failing write at every persistent effect of a number of scenarios,
// reopens the wallet, checks the invariants of the property and prints "CP ..." lines (it asserts nothing).
#[macro_use]
extern crate log;
extern crate grin_wallet_controller as wallet;
extern crate grin_wallet_impls as impls;

use grin_core as core;
use grin_keychain as keychain;
use grin_util as util;
use grin_wallet_libwallet as libwallet;

use self::core::core::Transaction;
use self::keychain::{ExtKeychain, Identifier};
use impls::test_framework::{self, LocalWalletClient};
use impls::DefaultLCProvider;
use libwallet::{
	AcctPathMapping, Context, Error, InitTxArgs, IssueInvoiceTxArgs, NodeClient, OutputData,
	OutputStatus, ScannedBlockInfo, Slate, TxLogEntry, TxLogEntryType, WalletBackend,
	WalletInitStatus, WalletInst, WalletOutputBatch,
};
use std::panic::{self, AssertUnwindSafe};
use std::sync::atomic::{AtomicIsize, AtomicUsize, Ordering};
use std::sync::Arc;
use std::thread;
use std::time::Duration;
use util::secp::key::SecretKey;
use util::{Mutex, ZeroingString};
use uuid::Uuid;

#[macro_use]
mod common;
use common::{clean_output_dir, create_wallet_proxy, setup};

type C = LocalWalletClient;
type K = ExtKeychain;
type WalletT =
	Arc<Mutex<Box<dyn WalletInst<'static, DefaultLCProvider<'static, C, K>, C, K>>>>;

const MODE_CRASH: usize = 0;
const MODE_ERROR: usize = 1;

struct Faults {
	/// effect number at which to fail (1-based), <= 0: disarmed
	target: AtomicIsize,
	mode: AtomicUsize,
	count: AtomicUsize,
	last: Mutex<String>,
}

enum Hit {
	Miss,
	Crash,
	Error,
}

impl Faults {
	fn new() -> Arc<Faults> {
		Arc::new(Faults {
			target: AtomicIsize::new(0),
			mode: AtomicUsize::new(0),
			count: AtomicUsize::new(0),
			last: Mutex::new(String::new()),
		})
	}
	fn arm(&self, target: isize, mode: usize) {
		self.count.store(0, Ordering::SeqCst);
		self.mode.store(mode, Ordering::SeqCst);
		self.target.store(target, Ordering::SeqCst);
	}
	fn disarm(&self) -> usize {
		self.target.store(0, Ordering::SeqCst);
		self.count.load(Ordering::SeqCst)
	}
	fn check(&self, what: &str) -> Hit {
		let t = self.target.load(Ordering::SeqCst);
		if t <= 0 {
			return Hit::Miss;
		}
		let n = self.count.fetch_add(1, Ordering::SeqCst) + 1;
		if n as isize == t {
			*self.last.lock() = format!("effect {} ({})", n, what);
			if self.mode.load(Ordering::SeqCst) == MODE_CRASH {
				Hit::Crash
			} else {
				Hit::Error
			}
		} else {
			Hit::Miss
		}
	}
	fn effect(&self, what: &str) -> Result<(), Error> {
		match self.check(what) {
			Hit::Miss => Ok(()),
			Hit::Crash => panic!("SIMULATED DEATH"),
			Hit::Error => Err(Error::GenericError("injected write failure".to_owned())),
		}
	}
}

struct CrashBackend {
	inner: Box<dyn WalletBackend<'static, C, K> + 'static>,
	faults: Arc<Faults>,
	saved_txs: String,
}

struct CrashBatch<'a> {
	inner: Box<dyn WalletOutputBatch<K> + 'a>,
	faults: Arc<Faults>,
}

impl<'a> WalletOutputBatch<K> for CrashBatch<'a> {
	fn keychain(&mut self) -> &mut K {
		self.inner.keychain()
	}
	fn save(&mut self, out: OutputData) -> Result<(), Error> {
		self.inner.save(out)
	}
	fn get(&self, id: &Identifier, mmr_index: &Option<u64>) -> Result<OutputData, Error> {
		self.inner.get(id, mmr_index)
	}
	fn iter(&self) -> Box<dyn Iterator<Item = OutputData>> {
		self.inner.iter()
	}
	fn delete(&mut self, id: &Identifier, mmr_index: &Option<u64>) -> Result<(), Error> {
		self.inner.delete(id, mmr_index)
	}
	fn save_child_index(&mut self, parent_key_id: &Identifier, child_n: u32) -> Result<(), Error> {
		self.inner.save_child_index(parent_key_id, child_n)
	}
	fn save_last_confirmed_height(
		&mut self,
		parent_key_id: &Identifier,
		height: u64,
	) -> Result<(), Error> {
		self.inner.save_last_confirmed_height(parent_key_id, height)
	}
	fn save_last_scanned_block(&mut self, block: ScannedBlockInfo) -> Result<(), Error> {
		self.inner.save_last_scanned_block(block)
	}
	fn save_init_status(&mut self, value: WalletInitStatus) -> Result<(), Error> {
		self.inner.save_init_status(value)
	}
	fn next_tx_log_id(&mut self, parent_key_id: &Identifier) -> Result<u32, Error> {
		self.inner.next_tx_log_id(parent_key_id)
	}
	fn tx_log_iter(&self) -> Box<dyn Iterator<Item = TxLogEntry>> {
		self.inner.tx_log_iter()
	}
	fn save_tx_log_entry(&mut self, t: TxLogEntry, parent_id: &Identifier) -> Result<(), Error> {
		self.inner.save_tx_log_entry(t, parent_id)
	}
	fn save_acct_path(&mut self, mapping: AcctPathMapping) -> Result<(), Error> {
		self.inner.save_acct_path(mapping)
	}
	fn acct_path_iter(&self) -> Box<dyn Iterator<Item = AcctPathMapping>> {
		self.inner.acct_path_iter()
	}
	fn lock_output(&mut self, out: &mut OutputData) -> Result<(), Error> {
		self.inner.lock_output(out)
	}
	fn save_private_context(&mut self, slate_id: &[u8], ctx: &Context) -> Result<(), Error> {
		self.inner.save_private_context(slate_id, ctx)
	}
	fn delete_private_context(&mut self, slate_id: &[u8]) -> Result<(), Error> {
		self.inner.delete_private_context(slate_id)
	}
	fn commit(&self) -> Result<(), Error> {
		self.faults.effect("batch commit")?;
		self.inner.commit()
	}
}

impl WalletBackend<'static, C, K> for CrashBackend {
	fn set_keychain(
		&mut self,
		k: Box<K>,
		mask: bool,
		use_test_rng: bool,
	) -> Result<Option<SecretKey>, Error> {
		self.inner.set_keychain(k, mask, use_test_rng)
	}
	fn close(&mut self) -> Result<(), Error> {
		self.inner.close()
	}
	fn keychain(&self, mask: Option<&SecretKey>) -> Result<K, Error> {
		self.inner.keychain(mask)
	}
	fn w2n_client(&mut self) -> &mut C {
		self.inner.w2n_client()
	}
	fn calc_commit_for_cache(
		&mut self,
		keychain_mask: Option<&SecretKey>,
		amount: u64,
		id: &Identifier,
	) -> Result<Option<String>, Error> {
		self.inner.calc_commit_for_cache(keychain_mask, amount, id)
	}
	fn set_parent_key_id_by_name(&mut self, label: &str) -> Result<(), Error> {
		self.inner.set_parent_key_id_by_name(label)
	}
	fn set_parent_key_id(&mut self, id: Identifier) {
		self.inner.set_parent_key_id(id)
	}
	fn parent_key_id(&mut self) -> Identifier {
		self.inner.parent_key_id()
	}
	fn iter<'a>(&'a self) -> Box<dyn Iterator<Item = OutputData> + 'a> {
		self.inner.iter()
	}
	fn get(&self, id: &Identifier, mmr_index: &Option<u64>) -> Result<OutputData, Error> {
		self.inner.get(id, mmr_index)
	}
	fn get_tx_log_entry(&self, uuid: &Uuid) -> Result<Option<TxLogEntry>, Error> {
		self.inner.get_tx_log_entry(uuid)
	}
	fn get_private_context(
		&mut self,
		keychain_mask: Option<&SecretKey>,
		slate_id: &[u8],
	) -> Result<Context, Error> {
		self.inner.get_private_context(keychain_mask, slate_id)
	}
	fn tx_log_iter<'a>(&'a self) -> Box<dyn Iterator<Item = TxLogEntry> + 'a> {
		self.inner.tx_log_iter()
	}
	fn acct_path_iter<'a>(&'a self) -> Box<dyn Iterator<Item = AcctPathMapping> + 'a> {
		self.inner.acct_path_iter()
	}
	fn get_acct_path(&self, label: String) -> Result<Option<AcctPathMapping>, Error> {
		self.inner.get_acct_path(label)
	}
	fn store_tx(&self, uuid: &str, tx: &Transaction) -> Result<(), Error> {
		// before the file is created/truncated
		self.faults.effect("store_tx: before create")?;
		// in the middle of the write
		match self.faults.check("store_tx: mid write") {
			Hit::Miss => {}
			h => {
				self.inner.store_tx(uuid, tx)?;
				let path = format!("{}/{}.grintx", self.saved_txs, uuid);
				let full = std::fs::read(&path).unwrap();
				std::fs::write(&path, &full[0..full.len() / 2]).unwrap();
				match h {
					Hit::Crash => panic!("SIMULATED DEATH"),
					_ => return Err(Error::GenericError("injected write failure".to_owned())),
				}
			}
		}
		self.inner.store_tx(uuid, tx)
	}
	fn get_stored_tx(&self, uuid: &str) -> Result<Option<Transaction>, Error> {
		self.inner.get_stored_tx(uuid)
	}
	fn batch<'a>(
		&'a mut self,
		keychain_mask: Option<&SecretKey>,
	) -> Result<Box<dyn WalletOutputBatch<K> + 'a>, Error> {
		let b = self.inner.batch(keychain_mask)?;
		Ok(Box::new(CrashBatch {
			inner: b,
			faults: self.faults.clone(),
		}))
	}
	fn batch_no_mask<'a>(&'a mut self) -> Result<Box<dyn WalletOutputBatch<K> + 'a>, Error> {
		let b = self.inner.batch_no_mask()?;
		Ok(Box::new(CrashBatch {
			inner: b,
			faults: self.faults.clone(),
		}))
	}
	fn current_child_index(&mut self, parent_key_id: &Identifier) -> Result<u32, Error> {
		self.inner.current_child_index(parent_key_id)
	}
	fn next_child(&mut self, keychain_mask: Option<&SecretKey>) -> Result<Identifier, Error> {
		self.faults.effect("key index bump")?;
		self.inner.next_child(keychain_mask)
	}
	fn last_confirmed_height(&mut self) -> Result<u64, Error> {
		self.inner.last_confirmed_height()
	}
	fn last_scanned_block(&mut self) -> Result<ScannedBlockInfo, Error> {
		self.inner.last_scanned_block()
	}
	fn init_status(&mut self) -> Result<WalletInitStatus, Error> {
		self.inner.init_status()
	}
}

fn install(wallet: &WalletT, faults: Arc<Faults>, saved_txs: String) {
	let mut w_lock = wallet.lock();
	let lc = w_lock.lc_provider().unwrap();
	let slot = lc.wallet_inst().unwrap();
	unsafe {
		let old = std::ptr::read(slot);
		std::ptr::write(
			slot,
			Box::new(CrashBackend {
				inner: old,
				faults,
				saved_txs,
			}),
		);
	}
}

fn close(wallet: &WalletT) {
	let mut w_lock = wallet.lock();
	let lc = w_lock.lc_provider().unwrap();
	lc.close_wallet(None).unwrap();
}

fn open(wallet: &WalletT) {
	let mut w_lock = wallet.lock();
	let lc = w_lock.lc_provider().unwrap();
	lc.open_wallet(None, ZeroingString::from(""), false, false)
		.unwrap();
}

fn copy_dir(from: &std::path::Path, to: &std::path::Path) {
	std::fs::create_dir_all(to).unwrap();
	for e in std::fs::read_dir(from).unwrap() {
		let e = e.unwrap();
		let p = e.path();
		let t = to.join(e.file_name());
		if p.is_dir() {
			copy_dir(&p, &t);
		} else {
			std::fs::copy(&p, &t).unwrap();
		}
	}
}

struct Env {
	test_dir: &'static str,
	wallet1: WalletT,
	wallet2: WalletT,
	miner: WalletT,
	client1: LocalWalletClient,
	client2: LocalWalletClient,
	miner_client: LocalWalletClient,
	chain: Arc<grin_chain::Chain>,
	faults: Arc<Faults>,
}

impl Env {
	fn w1_dir(&self) -> String {
		format!("{}/wallet1/wallet_data", self.test_dir)
	}
	fn snap_dir(&self, name: &str) -> String {
		format!("{}/snap_{}", self.test_dir, name)
	}
	fn reopen1(&self) {
		close(&self.wallet1);
		open(&self.wallet1);
		install(
			&self.wallet1,
			self.faults.clone(),
			format!("{}/saved_txs", self.w1_dir()),
		);
	}
	fn snapshot(&self, name: &str) {
		close(&self.wallet1);
		let s = self.snap_dir(name);
		let _ = std::fs::remove_dir_all(&s);
		copy_dir(std::path::Path::new(&self.w1_dir()), std::path::Path::new(&s));
		open(&self.wallet1);
		install(
			&self.wallet1,
			self.faults.clone(),
			format!("{}/saved_txs", self.w1_dir()),
		);
	}
	fn restore(&self, name: &str) {
		close(&self.wallet1);
		std::fs::remove_dir_all(&self.w1_dir()).unwrap();
		copy_dir(
			std::path::Path::new(&self.snap_dir(name)),
			std::path::Path::new(&self.w1_dir()),
		);
		open(&self.wallet1);
		install(
			&self.wallet1,
			self.faults.clone(),
			format!("{}/saved_txs", self.w1_dir()),
		);
	}
}

fn owner<F>(w: &WalletT, f: F) -> Result<(), Error>
where
	F: FnOnce(
		&mut grin_wallet_api::Owner<DefaultLCProvider<'static, C, K>, C, K>,
		Option<&SecretKey>,
	) -> Result<(), Error>,
{
	wallet::controller::owner_single_use(Some(w.clone()), None, None, f)
}

fn foreign<F>(w: &WalletT, f: F) -> Result<(), Error>
where
	F: FnOnce(
		&mut grin_wallet_api::Foreign<'static, DefaultLCProvider<'static, C, K>, C, K>,
	) -> Result<(), Error>,
{
	wallet::controller::foreign_single_use(w.clone(), None, f)
}

fn spendable(w: &WalletT) -> u64 {
	let mut s = 0;
	owner(w, |api, m| {
		let (_, info) = api.retrieve_summary_info(m, true, 1)?;
		s = info.amount_currently_spendable;
		Ok(())
	})
	.unwrap();
	s
}

/// checks on wallet1 after a fault; returns violations
fn check(env: &Env, expect_spendable_after_cancel: Option<u64>) -> Vec<String> {
	let mut v = vec![];
	let w = &env.wallet1;
	let res = panic::catch_unwind(AssertUnwindSafe(|| {
		let mut v: Vec<String> = vec![];
		let r = owner(w, |api, m| {
			let accounts = api.accounts(m)?;
			for a in accounts.iter() {
				api.set_active_account(m, &a.label)?;
				let (_, txs) = api.retrieve_txs(m, true, None, None, None)?;
				let (_, outputs) = api.retrieve_outputs(m, true, false, None)?;
				let _ = api.retrieve_summary_info(m, false, 1)?;
				for t in txs.iter() {
					if let Some(id) = t.tx_slate_id {
						// may be an error, must not crash
						let _ = api.get_stored_tx(m, None, Some(&id));
						let _ = api.retrieve_payment_proof(m, false, None, Some(id));
					}
				}
				// every reserved output belongs to a live tx
				for o in outputs.iter().map(|o| &o.output) {
					if o.status == OutputStatus::Locked {
						let e = txs.iter().find(|t| Some(t.id) == o.tx_log_entry);
						let live = e
							.map(|t| t.tx_type == TxLogEntryType::TxSent && !t.confirmed)
							.unwrap_or(false);
						if !live {
							v.push(format!(
								"[{}] Locked output {} has entry {:?} {:?}",
								a.label,
								o.key_id,
								o.tx_log_entry,
								e.map(|t| t.tx_type.clone())
							));
						}
					}
					if o.status == OutputStatus::Unconfirmed && !o.is_coinbase {
						let e = txs.iter().find(|t| Some(t.id) == o.tx_log_entry);
						let live = e
							.map(|t| {
								(t.tx_type == TxLogEntryType::TxSent
									|| t.tx_type == TxLogEntryType::TxReceived)
									&& !t.confirmed
							})
							.unwrap_or(false);
						if !live {
							v.push(format!(
								"[{}] Unconfirmed output {} has entry {:?} {:?}",
								a.label,
								o.key_id,
								o.tx_log_entry,
								e.map(|t| (t.tx_type.clone(), t.confirmed))
							));
						}
					}
				}
				// live sent txs: inputs reserved or spent, reservation complete
				for t in txs
					.iter()
					.filter(|t| t.tx_type == TxLogEntryType::TxSent && !t.confirmed)
				{
					let mine: Vec<&OutputData> = outputs
						.iter()
						.map(|o| &o.output)
						.filter(|o| o.tx_log_entry == Some(t.id))
						.collect();
					let ins = mine
						.iter()
						.filter(|o| {
							o.status == OutputStatus::Locked || o.status == OutputStatus::Spent
						})
						.count();
					let outs = mine.len() - ins;
					if ins != t.num_inputs || outs != t.num_outputs {
						v.push(format!(
							"[{}] live TxSent {} has {} reserved/spent inputs (entry says {}), {} other outputs (entry says {})",
							a.label, t.id, ins, t.num_inputs, outs, t.num_outputs
						));
					}
				}
			}
			// cancel everything pending
			for a in accounts.iter() {
				api.set_active_account(m, &a.label)?;
				let (_, txs) = api.retrieve_txs(m, true, None, None, None)?;
				for t in txs.iter().filter(|t| {
					!t.confirmed
						&& (t.tx_type == TxLogEntryType::TxSent
							|| t.tx_type == TxLogEntryType::TxReceived)
				}) {
					if let Err(e) = api.cancel_tx(m, Some(t.id), None) {
						v.push(format!(
							"[{}] pending tx {} {:?} cannot be cancelled: {:?}",
							a.label, t.id, t.tx_type, e
						));
					}
				}
			}
			api.set_active_account(m, "default")?;
			let (_, info) = api.retrieve_summary_info(m, true, 1)?;
			if let Some(exp) = expect_spendable_after_cancel {
				if info.amount_currently_spendable != exp
					|| info.amount_locked != 0
					|| info.amount_awaiting_finalization != 0
				{
					v.push(format!(
						"after cancelling all pending: spendable {} (expected {}), locked {}, awaiting finalization {}",
						info.amount_currently_spendable,
						exp,
						info.amount_locked,
						info.amount_awaiting_finalization
					));
				}
			}
			Ok(())
		});
		if let Err(e) = r {
			v.push(format!("a query/cancel failed: {:?}", e));
		}
		v
	}));
	match res {
		Ok(mut vv) => v.append(&mut vv),
		Err(_) => v.push("a query PANICKED".to_owned()),
	}
	v
}

/// runs `op` from snapshot `snap` with a fault at every effect, in both modes
fn explore<F>(env: &Env, name: &str, snap: &str, check_balance: bool, op: F) -> usize
where
	F: Fn(&Env) -> Result<(), Error>,
{
	explore2(env, name, snap, check_balance, true, None, op)
}

fn explore2<F>(
	env: &Env,
	name: &str,
	snap: &str,
	check_balance: bool,
	pre_refresh: bool,
	expected: Option<u64>,
	op: F,
) -> usize
where
	F: Fn(&Env) -> Result<(), Error>,
{
	let mut total_violations = 0;
	if let Ok(only) = std::env::var("CP_ONLY") {
		if !only.split(',').any(|x| x == name) {
			return 0;
		}
	}
	for mode in [MODE_CRASH, MODE_ERROR].iter() {
		let mut k = 1;
		loop {
			env.restore(snap);
			let before = if pre_refresh {
				spendable(&env.wallet1)
			} else {
				expected.unwrap_or(0)
			};
			env.faults.arm(k, *mode);
			let prev_hook = panic::take_hook();
			panic::set_hook(Box::new(|_| {}));
			let r = panic::catch_unwind(AssertUnwindSafe(|| op(env)));
			panic::set_hook(prev_hook);
			let n = env.faults.disarm();
			let hit = n >= k as usize;
			let what = env.faults.last.lock().clone();
			let outcome = match &r {
				Err(_) => "died".to_owned(),
				Ok(Ok(_)) => "ok".to_owned(),
				Ok(Err(e)) => format!("err: {}", e),
			};
			if !hit {
				println!(
					"CP {} mode {}: {} effects in total, final outcome {}",
					name,
					mode,
					n,
					outcome
				);
				break;
			}
			if r.is_err() {
				env.reopen1();
			}
			let v = check(
				env,
				if check_balance || expected.is_some() {
					Some(before)
				} else {
					None
				},
			);
			println!(
				"CP {} mode {} fault at {} -> {} ; violations: {}",
				name,
				mode,
				what,
				outcome,
				v.len()
			);
			for x in v.iter() {
				println!("CP    VIOLATION {}", x);
			}
			total_violations += v.len();
			k += 1;
			if k > 60 {
				println!("CP {} too many effects", name);
				break;
			}
		}
	}
	total_violations
}

fn send_args(amount: u64, late: bool, all: bool) -> InitTxArgs {
	InitTxArgs {
		src_acct_name: None,
		amount,
		minimum_confirmations: 1,
		max_outputs: 500,
		num_change_outputs: 2,
		selection_strategy_is_use_all: all,
		late_lock: Some(late),
		..Default::default()
	}
}

fn run(test_dir: &'static str) -> Result<(), Error> {
	let mut wallet_proxy = create_wallet_proxy(test_dir);
	let chain = wallet_proxy.chain.clone();
	let stopper = wallet_proxy.running.clone();
	create_wallet_and_add!(client1, wallet1, mask1_i, test_dir, "wallet1", None, &mut wallet_proxy, false);
	create_wallet_and_add!(client2, wallet2, mask2_i, test_dir, "wallet2", None, &mut wallet_proxy, false);
	create_wallet_and_add!(miner_client, miner, mask3_i, test_dir, "miner", None, &mut wallet_proxy, false);
	let _ = (mask1_i, mask2_i, mask3_i);
	thread::spawn(move || {
		if let Err(e) = wallet_proxy.run() {
			error!("Wallet Proxy error: {}", e);
		}
	});

	let env = Env {
		test_dir,
		wallet1,
		wallet2,
		miner,
		client1,
		client2,
		miner_client,
		chain,
		faults: Faults::new(),
	};
	let _ = (&env.client2, &env.miner);

	owner(&env.wallet1, |api, m| {
		api.create_account_path(m, "acct1")?;
		Ok(())
	})?;

	test_framework::award_blocks_to_wallet(&env.chain, env.wallet1.clone(), None, 8, false)?;
	test_framework::award_blocks_to_wallet(&env.chain, env.wallet2.clone(), None, 8, false)?;
	test_framework::award_blocks_to_wallet(&env.chain, env.miner.clone(), None, 4, false)?;
	let _ = spendable(&env.wallet1);
	let _ = spendable(&env.wallet2);
	env.snapshot("funded");

	let grin = 1_000_000_000u64;
	let mut total = 0;

	// S1 standard send
	total += explore(&env, "send", "funded", true, |env| {
		let mut slate = Slate::blank(2, false);
		owner(&env.wallet1, |api, m| {
			let s = api.init_send_tx(m, send_args(70 * grin, false, false))?;
			slate = env.client1.send_tx_slate_direct("wallet2", &s)?;
			api.tx_lock_outputs(m, &slate)?;
			slate = api.finalize_tx(m, &slate)?;
			Ok(())
		})
	});

	// S2 late locked send
	total += explore(&env, "send_late_lock", "funded", true, |env| {
		let mut slate = Slate::blank(2, false);
		owner(&env.wallet1, |api, m| {
			let s = api.init_send_tx(m, send_args(70 * grin, true, false))?;
			slate = env.client1.send_tx_slate_direct("wallet2", &s)?;
			slate = api.finalize_tx(m, &slate)?;
			Ok(())
		})
	});

	// S3 receive
	total += explore(&env, "receive", "funded", true, |env| {
		let mut slate = Slate::blank(2, false);
		owner(&env.wallet2, |api, m| {
			slate = api.init_send_tx(m, send_args(5 * grin, false, false))?;
			Ok(())
		})?;
		let r = panic::catch_unwind(AssertUnwindSafe(|| {
			foreign(&env.wallet1, |api| {
				api.receive_tx(&slate, Some("acct1"), None)?;
				Ok(())
			})
		}));
		// (wallet2 never locked anything)
		match r {
			Ok(x) => x,
			Err(e) => panic::resume_unwind(e),
		}
	});

	// S4 invoice: wallet1 issues, wallet2 pays, wallet1 finalizes
	total += explore(&env, "invoice_issue_finalize", "funded", true, |env| {
		let mut slate = Slate::blank(2, true);
		owner(&env.wallet1, |api, m| {
			let args = IssueInvoiceTxArgs {
				amount: 5 * grin,
				..Default::default()
			};
			slate = api.issue_invoice_tx(m, args)?;
			Ok(())
		})?;
		let id = slate.id;
		owner(&env.wallet2, |api, m| {
			slate = api.process_invoice_tx(m, &slate, send_args(0, false, false))?;
			api.tx_lock_outputs(m, &slate)?;
			Ok(())
		})?;
		let r = panic::catch_unwind(AssertUnwindSafe(|| {
			foreign(&env.wallet1, |api| {
				api.finalize_tx(&slate, false)?;
				Ok(())
			})
		}));
		// release wallet2's funds again
		let _ = owner(&env.wallet2, |api, m| api.cancel_tx(m, None, Some(id)));
		match r {
			Ok(x) => x,
			Err(e) => panic::resume_unwind(e),
		}
	});

	// S5 invoice: wallet2 issues, wallet1 pays
	total += explore(&env, "invoice_pay", "funded", true, |env| {
		let mut slate = Slate::blank(2, true);
		owner(&env.wallet2, |api, m| {
			let args = IssueInvoiceTxArgs {
				amount: 70 * grin,
				..Default::default()
			};
			slate = api.issue_invoice_tx(m, args)?;
			Ok(())
		})?;
		owner(&env.wallet1, |api, m| {
			slate = api.process_invoice_tx(m, &slate, send_args(0, false, false))?;
			api.tx_lock_outputs(m, &slate)?;
			Ok(())
		})
	});

	// S6 self send (default -> acct1), standard flow
	total += explore(&env, "self_send", "funded", true, |env| {
		let mut slate = Slate::blank(2, false);
		owner(&env.wallet1, |api, m| {
			slate = api.init_send_tx(m, send_args(70 * grin, false, false))?;
			Ok(())
		})?;
		foreign(&env.wallet1, |api| {
			slate = api.receive_tx(&slate, Some("acct1"), None)?;
			Ok(())
		})?;
		owner(&env.wallet1, |api, m| {
			api.tx_lock_outputs(m, &slate)?;
			slate = api.finalize_tx(m, &slate)?;
			Ok(())
		})
	});

	// S6b self send via invoice within one account
	total += explore(&env, "self_invoice", "funded", true, |env| {
		let mut slate = Slate::blank(2, true);
		owner(&env.wallet1, |api, m| {
			let args = IssueInvoiceTxArgs {
				amount: 70 * grin,
				..Default::default()
			};
			slate = api.issue_invoice_tx(m, args)?;
			slate = api.process_invoice_tx(m, &slate, send_args(0, false, false))?;
			api.tx_lock_outputs(m, &slate)?;
			Ok(())
		})?;
		foreign(&env.wallet1, |api| {
			api.finalize_tx(&slate, false)?;
			Ok(())
		})
	});

	// pending self send (same account), then cancel by slate id
	env.restore("funded");
	let mut pending_self = Slate::blank(2, false);
	owner(&env.wallet1, |api, m| {
		pending_self = api.init_send_tx(m, send_args(70 * grin, false, true))?;
		Ok(())
	})?;
	foreign(&env.wallet1, |api| {
		pending_self = api.receive_tx(&pending_self, None, None)?;
		Ok(())
	})?;
	owner(&env.wallet1, |api, m| {
		api.tx_lock_outputs(m, &pending_self)?;
		Ok(())
	})?;
	env.snapshot("pending_self");
	let funded_spendable = {
		env.restore("funded");
		spendable(&env.wallet1)
	};
	println!("CP funded spendable {}", funded_spendable);

	total += explore(&env, "cancel_self_send", "pending_self", false, |env| {
		owner(&env.wallet1, |api, m| api.cancel_tx(m, None, Some(pending_self.id)))
	});

	// scan -d on the pending self send
	total += explore(&env, "scan_delete_unconfirmed", "pending_self", false, |env| {
		owner(&env.wallet1, |api, m| api.scan(m, None, true))
	});

	// plain scan after losing some outputs
	env.restore("funded");
	{
		let mut outs = vec![];
		owner(&env.wallet1, |api, m| {
			outs = api.retrieve_outputs(m, false, true, None)?.1;
			Ok(())
		})?;
		let w1 = env.wallet1.clone();
		wallet_inst!(w1, w);
		let mut batch = w.batch(None)?;
		batch.delete(&outs[1].output.key_id, &None)?;
		batch.delete(&outs[3].output.key_id, &None)?;
		batch.commit()?;
	}
	env.snapshot("lost_outputs");
	total += explore2(&env, "scan_restore", "lost_outputs", false, false, Some(funded_spendable), |env| {
		owner(&env.wallet1, |api, m| api.scan(m, None, false))
	});
	total += explore2(&env, "refresh_restore", "lost_outputs", false, false, Some(funded_spendable), |env| {
		owner(&env.wallet1, |api, m| {
			api.retrieve_summary_info(m, true, 1)?;
			Ok(())
		})
	});
	// wallet restored from seed: the database is gone, the seed is there
	env.restore("funded");
	close(&env.wallet1);
	std::fs::remove_dir_all(format!("{}/db", env.w1_dir())).unwrap();
	open(&env.wallet1);
	env.snapshot("from_seed");
	total += explore2(&env, "first_refresh_from_seed", "from_seed", false, false, Some(funded_spendable), |env| {
		owner(&env.wallet1, |api, m| {
			api.retrieve_summary_info(m, true, 1)?;
			Ok(())
		})
	});

	// refresh after a mined send (mined by the miner wallet)
	env.restore("funded");
	{
		let mut slate = Slate::blank(2, false);
		owner(&env.wallet1, |api, m| {
			let s = api.init_send_tx(m, send_args(70 * grin, false, false))?;
			slate = env.client1.send_tx_slate_direct("wallet2", &s)?;
			api.tx_lock_outputs(m, &slate)?;
			slate = api.finalize_tx(m, &slate)?;
			Ok(())
		})?;
		env.miner_client.post_tx(slate.tx_or_err()?, false)?;
	}
	env.snapshot("mined_send");
	total += explore2(&env, "refresh_mined_send", "mined_send", false, false, None, |env| {
		owner(&env.wallet1, |api, m| {
			api.retrieve_summary_info(m, true, 1)?;
			Ok(())
		})
	});

	// ---- more scenarios
	// funds in acct1 as well
	env.restore("funded");
	{
		let w1 = env.wallet1.clone();
		{
			wallet_inst!(w1, w);
			w.set_parent_key_id_by_name("acct1")?;
		}
		test_framework::award_blocks_to_wallet(&env.chain, env.wallet1.clone(), None, 3, false)?;
		test_framework::award_blocks_to_wallet(&env.chain, env.miner.clone(), None, 4, false)?;
		{
			wallet_inst!(w1, w);
			w.set_parent_key_id_by_name("default")?;
		}
		owner(&env.wallet1, |api, m| {
			api.set_active_account(m, "acct1")?;
			api.retrieve_summary_info(m, true, 1)?;
			api.set_active_account(m, "default")?;
			api.retrieve_summary_info(m, true, 1)?;
			// the snapshot this started from predates a mined spend: bring it up to date
			api.scan(m, None, false)?;
			Ok(())
		})?;
	}
	env.snapshot("funded2");
	let mut w2_addr = None;
	owner(&env.wallet2, |api, m| {
		w2_addr = Some(api.get_slatepack_address(m, 0)?);
		Ok(())
	})?;
	let w2_addr = w2_addr.unwrap();

	// send from a non active account, with payment proof and ttl, 3 change outputs
	total += explore(&env, "send_src_acct_proof_ttl", "funded2", true, |env| {
		let mut slate = Slate::blank(2, false);
		owner(&env.wallet1, |api, m| {
			let mut a = send_args(70 * grin, false, true);
			a.src_acct_name = Some("acct1".to_owned());
			a.num_change_outputs = 3;
			a.ttl_blocks = Some(10);
			a.payment_proof_recipient_address = Some(w2_addr.clone());
			let s = api.init_send_tx(m, a)?;
			slate = env.client1.send_tx_slate_direct("wallet2", &s)?;
			api.tx_lock_outputs(m, &slate)?;
			slate = api.finalize_tx(m, &slate)?;
			Ok(())
		})
	});
	total += explore(&env, "late_send_src_acct_proof_ttl", "funded2", true, |env| {
		let mut slate = Slate::blank(2, false);
		owner(&env.wallet1, |api, m| {
			let mut a = send_args(70 * grin, true, true);
			a.src_acct_name = Some("acct1".to_owned());
			a.num_change_outputs = 3;
			a.ttl_blocks = Some(10);
			a.payment_proof_recipient_address = Some(w2_addr.clone());
			let s = api.init_send_tx(m, a)?;
			slate = env.client1.send_tx_slate_direct("wallet2", &s)?;
			slate = api.finalize_tx(m, &slate)?;
			Ok(())
		})
	});

	// zero conf chain: a finalized, unposted send, then a second send spending its change
	total += explore(&env, "zero_conf_chain", "funded2", true, |env| {
		let mut slate = Slate::blank(2, false);
		owner(&env.wallet1, |api, m| {
			let s = api.init_send_tx(m, send_args(70 * grin, false, true))?;
			slate = env.client1.send_tx_slate_direct("wallet2", &s)?;
			api.tx_lock_outputs(m, &slate)?;
			slate = api.finalize_tx(m, &slate)?;
			let mut a = send_args(30 * grin, false, true);
			a.minimum_confirmations = 0;
			let s = api.init_send_tx(m, a)?;
			slate = env.client1.send_tx_slate_direct("wallet2", &s)?;
			api.tx_lock_outputs(m, &slate)?;
			slate = api.finalize_tx(m, &slate)?;
			Ok(())
		})
	});

	// ttl expiry: pending send with a ttl, blocks pass, refresh cancels it
	env.restore("funded2");
	let before_ttl = spendable(&env.wallet1);
	owner(&env.wallet1, |api, m| {
		let mut a = send_args(70 * grin, false, true);
		a.ttl_blocks = Some(2);
		let s = api.init_send_tx(m, a)?;
		api.tx_lock_outputs(m, &s)?;
		let mut a = send_args(10 * grin, false, true);
		a.src_acct_name = Some("acct1".to_owned());
		a.ttl_blocks = Some(2);
		let s = api.init_send_tx(m, a)?;
		api.tx_lock_outputs(m, &s)?;
		Ok(())
	})?;
	test_framework::award_blocks_to_wallet(&env.chain, env.miner.clone(), None, 3, false)?;
	env.snapshot("ttl_expired");
	total += explore2(&env, "ttl_expiry_refresh", "ttl_expired", false, false, Some(before_ttl), |env| {
		owner(&env.wallet1, |api, m| {
			api.retrieve_summary_info(m, true, 1)?;
			api.set_active_account(m, "acct1")?;
			api.retrieve_summary_info(m, true, 1)?;
			Ok(())
		})
	});

	println!("CP TOTAL VIOLATIONS {}", total);
	stopper.store(false, Ordering::Relaxed);
	thread::sleep(Duration::from_millis(200));
	Ok(())
}

#[test]
fn crashpoints() {
	let test_dir = "test_output/crashpoints";
	setup(test_dir);
	if let Err(e) = run(test_dir) {
		panic!("Libwallet Error: {}", e);
	}
	clean_output_dir(test_dir);
}
