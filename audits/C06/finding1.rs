// Finding 1 (C06): the wallet process dies in the middle of `scan` with
// `delete_unconfirmed = true` (the `grin-wallet scan -d` repair), between two of
// the per-output repair commits. After reopening the wallet, inputs of the
// (now cancelled) send are still reserved (Locked), belong to no live
// transaction, cannot be released with `cancel_tx` and are not released by a
// refresh either.
//
// Place this file in controller/tests/ and run:
//   cargo test --offline -j 2 -p grin_wallet_controller --test finding1 -- --nocapture

#[macro_use]
extern crate log;
extern crate grin_wallet_controller as wallet;
extern crate grin_wallet_impls as impls;

use grin_core as core;
use grin_keychain as keychain;
use grin_util as util;
use grin_wallet_libwallet as libwallet;

use self::core::core::{Transaction, TxKernel};
use self::core::global;
use self::keychain::ExtKeychain;
use impls::test_framework::{self, LocalWalletClient, WalletProxy};
use impls::{DefaultLCProvider, DefaultWalletImpl};
use libwallet::{
	InitTxArgs, NodeClient, NodeVersionInfo, OutputStatus, TxLogEntryType, WalletInst,
};
use std::collections::HashMap;
use std::panic::{self, AssertUnwindSafe};
use std::sync::atomic::{AtomicBool, AtomicUsize, Ordering};
use std::sync::Arc;
use std::thread;
use std::time::Duration;
use util::secp::pedersen;
use util::{Mutex, ZeroingString};

#[macro_use]
mod common;
use common::{clean_output_dir, setup};

/// A node client that behaves exactly like the test framework's `LocalWalletClient`,
/// except that, once armed, the wallet process "dies" (the calling thread panics and
/// nothing of the interrupted operation runs any further) when the wallet asks the node
/// about a single output for the n-th time. `scan`'s `repair_output` asks the node about
/// the one output it is about to repair right before each repair, so the n-th such
/// question lies exactly on the boundary between the (n-1)-th and the n-th repair commit.
#[derive(Clone)]
struct DyingClient {
	inner: LocalWalletClient,
	armed: Arc<AtomicBool>,
	single_output_queries: Arc<AtomicUsize>,
	die_at_query: usize,
}

impl NodeClient for DyingClient {
	fn node_url(&self) -> &str {
		self.inner.node_url()
	}
	fn node_api_secret(&self) -> Option<String> {
		self.inner.node_api_secret()
	}
	fn set_node_url(&mut self, node_url: &str) {
		self.inner.set_node_url(node_url)
	}
	fn set_node_api_secret(&mut self, node_api_secret: Option<String>) {
		self.inner.set_node_api_secret(node_api_secret)
	}
	fn get_version_info(&mut self) -> Option<NodeVersionInfo> {
		self.inner.get_version_info()
	}
	fn post_tx(&self, tx: &Transaction, fluff: bool) -> Result<(), libwallet::Error> {
		self.inner.post_tx(tx, fluff)
	}
	fn get_chain_tip(&self) -> Result<(u64, String), libwallet::Error> {
		self.inner.get_chain_tip()
	}
	fn get_outputs_from_node(
		&self,
		wallet_outputs: Vec<pedersen::Commitment>,
	) -> Result<HashMap<pedersen::Commitment, (String, u64, u64)>, libwallet::Error> {
		if self.armed.load(Ordering::SeqCst) && wallet_outputs.len() == 1 {
			let n = self.single_output_queries.fetch_add(1, Ordering::SeqCst) + 1;
			if n == self.die_at_query {
				panic!("SIMULATED PROCESS DEATH (wallet killed before single-output query {})", n);
			}
		}
		self.inner.get_outputs_from_node(wallet_outputs)
	}
	fn get_kernel(
		&mut self,
		excess: &pedersen::Commitment,
		min_height: Option<u64>,
		max_height: Option<u64>,
	) -> Result<Option<(TxKernel, u64, u64)>, libwallet::Error> {
		self.inner.get_kernel(excess, min_height, max_height)
	}
	fn get_outputs_by_pmmr_index(
		&self,
		start_index: u64,
		end_index: Option<u64>,
		max_outputs: u64,
	) -> Result<
		(
			u64,
			u64,
			Vec<(pedersen::Commitment, pedersen::RangeProof, bool, u64, u64)>,
		),
		libwallet::Error,
	> {
		self.inner
			.get_outputs_by_pmmr_index(start_index, end_index, max_outputs)
	}
	fn height_range_to_pmmr_indices(
		&self,
		start_height: u64,
		end_height: Option<u64>,
	) -> Result<(u64, u64), libwallet::Error> {
		self.inner
			.height_range_to_pmmr_indices(start_height, end_height)
	}
}

type Wallet = Arc<
	Mutex<
		Box<
			dyn WalletInst<
				'static,
				DefaultLCProvider<'static, DyingClient, ExtKeychain>,
				DyingClient,
				ExtKeychain,
			>,
		>,
	>,
>;

/// Runs the scenario; the wallet process dies right before the `die_at_query`-th repair of
/// the scan if that is given. Returns the violations of the property found after the wallet
/// was reopened.
fn scan_delete_unconfirmed_scenario(
	test_dir: &'static str,
	die_at_query: Option<usize>,
) -> Result<Vec<String>, libwallet::Error> {
	let mut wallet_proxy: WalletProxy<
		DefaultLCProvider<DyingClient, ExtKeychain>,
		DyingClient,
		ExtKeychain,
	> = WalletProxy::new(test_dir);
	let chain = wallet_proxy.chain.clone();
	let stopper = wallet_proxy.running.clone();

	let armed = Arc::new(AtomicBool::new(false));
	let client1 = DyingClient {
		inner: LocalWalletClient::new("wallet1", wallet_proxy.tx.clone()),
		armed: armed.clone(),
		single_output_queries: Arc::new(AtomicUsize::new(0)),
		// e.g. 2: die right before the second repair, i.e. after the first repair was committed
		die_at_query: die_at_query.unwrap_or(usize::MAX),
	};

	let (wallet1, mask1_i): (Wallet, _) = {
		let mut wallet = Box::new(DefaultWalletImpl::<DyingClient>::new(client1.clone()).unwrap())
			as Box<
				dyn WalletInst<
					'static,
					DefaultLCProvider<'static, DyingClient, ExtKeychain>,
					DyingClient,
					ExtKeychain,
				>,
			>;
		let lc = wallet.lc_provider().unwrap();
		let _ = lc.set_top_level_directory(&format!("{}/{}", test_dir, "wallet1"));
		lc.create_wallet(None, None, 32, ZeroingString::from(""), false)
			.unwrap();
		let mask = lc
			.open_wallet(None, ZeroingString::from(""), false, false)
			.unwrap();
		(Arc::new(Mutex::new(wallet)), mask)
	};
	wallet_proxy.add_wallet(
		"wallet1",
		client1.inner.get_send_instance(),
		wallet1.clone(),
		mask1_i.clone(),
	);
	let mask1 = (&mask1_i).as_ref();

	thread::spawn(move || {
		if let Err(e) = wallet_proxy.run() {
			error!("Wallet Proxy error: {}", e);
		}
	});

	let reward = core::consensus::REWARD;
	let cm = global::coinbase_maturity() as u64;

	// fund the wallet: 10 coinbase outputs, 10 - cm of them mature
	let bh = 10u64;
	let _ =
		test_framework::award_blocks_to_wallet(&chain, wallet1.clone(), mask1, bh as usize, false);

	// the spendable balance before the operations under test
	let mut spendable_before = 0;
	wallet::controller::owner_single_use(Some(wallet1.clone()), mask1, None, |api, m| {
		let (refreshed, info) = api.retrieve_summary_info(m, true, 1)?;
		assert!(refreshed);
		spendable_before = info.amount_currently_spendable;
		assert_eq!(spendable_before, (bh - cm) * reward);
		Ok(())
	})?;

	// A pending send that reserves several inputs (selection strategy "all") and creates
	// one change output. It is never finalized.
	let mut slate_id = None;
	wallet::controller::owner_single_use(Some(wallet1.clone()), mask1, None, |api, m| {
		let args = InitTxArgs {
			src_acct_name: None,
			amount: reward * 2,
			minimum_confirmations: 1,
			max_outputs: 500,
			num_change_outputs: 1,
			selection_strategy_is_use_all: true,
			..Default::default()
		};
		let slate = api.init_send_tx(m, args)?;
		api.tx_lock_outputs(m, &slate)?;
		slate_id = Some(slate.id);
		Ok(())
	})?;
	let slate_id = slate_id.unwrap();

	let mut pending_tx_id = 0;
	wallet::controller::owner_single_use(Some(wallet1.clone()), mask1, None, |api, m| {
		let (_, txs) = api.retrieve_txs(m, true, None, Some(slate_id), None)?;
		assert_eq!(txs.len(), 1);
		assert_eq!(txs[0].tx_type, TxLogEntryType::TxSent);
		pending_tx_id = txs[0].id;
		let (_, outputs) = api.retrieve_outputs(m, false, true, Some(pending_tx_id))?;
		let locked = outputs
			.iter()
			.filter(|o| o.output.status == OutputStatus::Locked)
			.count();
		assert_eq!(locked as u64, bh - cm, "the send reserves all mature outputs");
		let (_, info) = api.retrieve_summary_info(m, true, 1)?;
		assert_eq!(info.amount_currently_spendable, 0);
		Ok(())
	})?;

	// The owner runs `scan` with delete_unconfirmed = true (grin-wallet scan -d). The wallet
	// process dies after the first of the per-output repairs has been committed.
	armed.store(true, Ordering::SeqCst);
	let prev_hook = panic::take_hook();
	panic::set_hook(Box::new(|_| {}));
	let died = panic::catch_unwind(AssertUnwindSafe(|| {
		wallet::controller::owner_single_use(Some(wallet1.clone()), mask1, None, |api, m| {
			api.scan(m, None, true)?;
			Ok(())
		})
	}));
	panic::set_hook(prev_hook);
	armed.store(false, Ordering::SeqCst);
	assert_eq!(
		died.is_err(),
		die_at_query.is_some(),
		"test setup: the scan is interrupted by the simulated process death if and only if one was requested"
	);
	if let Ok(r) = died {
		r?;
	}

	// "Restart": the backend (LMDB environment included) is dropped and the wallet is opened
	// again from what is on disk.
	{
		let mut w_lock = wallet1.lock();
		let lc = w_lock.lc_provider()?;
		lc.close_wallet(None)?;
		lc.open_wallet(None, ZeroingString::from(""), false, false)?;
	}

	// Now check what the property promises for the reopened wallet.
	let mut violations: Vec<String> = vec![];
	wallet::controller::owner_single_use(Some(wallet1.clone()), mask1, None, |api, m| {
		// every query answers (and the wallet is refreshed from the node, as any command would)
		let (refreshed, txs) = api.retrieve_txs(m, true, None, None, None)?;
		assert!(refreshed);
		let (_, outputs) = api.retrieve_outputs(m, false, true, None)?;
		let (_, _info) = api.retrieve_summary_info(m, true, 1)?;

		// every reserved output belongs to a live logged transaction
		for o in outputs
			.iter()
			.filter(|o| o.output.status == OutputStatus::Locked)
		{
			let entry = txs.iter().find(|t| {
				Some(t.id) == o.output.tx_log_entry && t.parent_key_id == o.output.root_key_id
			});
			let live = match entry {
				Some(t) => t.tx_type == TxLogEntryType::TxSent && !t.confirmed,
				None => false,
			};
			if !live {
				violations.push(format!(
					"output {} (value {}) is still reserved (Locked) but its transaction log entry {:?} is {:?}: \
					 every reserved output must belong to a live logged transaction",
					o.output.key_id,
					o.output.value,
					o.output.tx_log_entry,
					entry.map(|t| t.tx_type.clone()),
				));
			}
		}

		// every pending transaction can still be cancelled, restoring the pre-operation
		// spendable balance. (If the interrupted scan already cancelled the entry, all of
		// what it reserved must have been released with it.)
		let cancel_res = api.cancel_tx(m, Some(pending_tx_id), None);
		let (_, info) = api.retrieve_summary_info(m, true, 1)?;
		if info.amount_currently_spendable != spendable_before {
			violations.push(format!(
				"after the crash, cancel_tx({}) returned {:?} and a refresh, the spendable balance is {} \
				 (locked: {}), expected the pre-operation spendable balance {}",
				pending_tx_id,
				cancel_res,
				info.amount_currently_spendable,
				info.amount_locked,
				spendable_before
			));
		}
		Ok(())
	})?;

	stopper.store(false, Ordering::Relaxed);
	thread::sleep(Duration::from_millis(200));

	Ok(violations)
}

/// FAILS on the current code: the wallet process dies between the first and the second
/// repair commit of `scan(delete_unconfirmed = true)`.
#[test]
fn crash_during_scan_delete_unconfirmed() {
	let test_dir = "test_output/finding1_crash_scan_delete_unconfirmed";
	setup(test_dir);
	let violations = match scan_delete_unconfirmed_scenario(test_dir, Some(2)) {
		Ok(v) => v,
		Err(e) => panic!("Libwallet Error: {}", e),
	};
	clean_output_dir(test_dir);
	assert!(
		violations.is_empty(),
		"wallet killed between two repair commits of scan(delete_unconfirmed = true) is not consistent after reopening:\n - {}",
		violations.join("\n - ")
	);
}

/// Control (passes): the very same scenario and checks, but the scan is not interrupted.
#[test]
fn uninterrupted_scan_delete_unconfirmed_control() {
	let test_dir = "test_output/finding1_control_scan_delete_unconfirmed";
	setup(test_dir);
	let violations = match scan_delete_unconfirmed_scenario(test_dir, None) {
		Ok(v) => v,
		Err(e) => panic!("Libwallet Error: {}", e),
	};
	clean_output_dir(test_dir);
	assert!(
		violations.is_empty(),
		"control: an uninterrupted scan leaves a consistent wallet, but:\n - {}",
		violations.join("\n - ")
	);
}
