// C16 finding 1: scan labels a newly found account path "account_<number of accounts>"
// and writes that label without checking that it is free. If the wallet already has an
// account with that label, the label is re-pointed to the new path and the outputs of the
// old path are left under no account at all (unreachable, not refreshed, not counted).
//
// Place in controller/tests/finding1.rs and run with
//   cargo test -p grin_wallet_controller --test finding1 --offline -j 4 -- --nocapture

#[macro_use]
extern crate log;
extern crate grin_wallet_controller as wallet;
extern crate grin_wallet_impls as impls;

use grin_core as core;
use grin_util as util;

use self::core::consensus;
use grin_wallet_libwallet as libwallet;
use impls::test_framework::{self, LocalWalletClient};
use libwallet::OutputStatus;
use std::sync::atomic::Ordering;
use std::thread;
use std::time::Duration;
use util::ZeroingString;

#[macro_use]
mod common;
use common::{clean_output_dir, create_wallet_proxy, setup};

const SEED: &str = "affair pistol cancel crush garment candy ancient flag work \
	market crush dry stand focus mutual weapon offer ceiling rival turn team spring \
	where swift";

fn scan_label_collision_impl(test_dir: &'static str) -> Result<(), libwallet::Error> {
	let seed_phrase = Some(ZeroingString::from(SEED));
	let mut wallet_proxy = create_wallet_proxy(test_dir);
	let chain = wallet_proxy.chain.clone();
	let stopper = wallet_proxy.running.clone();

	create_wallet_and_add!(
		m_client,
		miner,
		miner_mask_i,
		test_dir,
		"miner",
		None,
		&mut wallet_proxy,
		false
	);
	let miner_mask = (&miner_mask_i).as_ref();
	// the original wallet
	create_wallet_and_add!(
		client1,
		wallet1,
		mask1_i,
		test_dir,
		"wallet1",
		seed_phrase,
		&mut wallet_proxy,
		false
	);
	let mask1 = (&mask1_i).as_ref();
	// the wallet restored from the same recovery phrase
	create_wallet_and_add!(
		client2,
		wallet2,
		mask2_i,
		test_dir,
		"wallet2",
		seed_phrase,
		&mut wallet_proxy,
		false
	);
	let mask2 = (&mask2_i).as_ref();

	thread::spawn(move || {
		if let Err(e) = wallet_proxy.run() {
			error!("Wallet Proxy error: {}", e);
		}
	});

	let base = consensus::GRIN_BASE;
	test_framework::award_blocks_to_wallet(&chain, miner.clone(), miner_mask, 10, false)?;

	// original wallet: default, account_1 (m/1/0), account_2 (m/2/0)
	wallet::controller::owner_single_use(Some(wallet1.clone()), mask1, None, |api, m| {
		api.create_account_path(m, "account_1")?;
		api.create_account_path(m, "account_2")?;
		api.set_active_account(m, "account_1")?;
		Ok(())
	})?;
	// 5 grin into account_1
	test_framework::send_to_dest(
		miner.clone(),
		miner_mask,
		m_client.clone(),
		"wallet1",
		base * 5,
		false,
	)?;
	wallet::controller::owner_single_use(Some(wallet1.clone()), mask1, None, |api, m| {
		api.set_active_account(m, "account_2")?;
		Ok(())
	})?;
	// 7 grin into account_2
	test_framework::send_to_dest(
		miner.clone(),
		miner_mask,
		m_client.clone(),
		"wallet1",
		base * 7,
		false,
	)?;
	test_framework::award_blocks_to_wallet(&chain, miner.clone(), miner_mask, 3, false)?;

	// what the original wallet reports, over all its accounts
	let mut original_total = 0;
	wallet::controller::owner_single_use(Some(wallet1.clone()), mask1, None, |api, m| {
		for acct in api.accounts(m)? {
			api.set_active_account(m, &acct.label)?;
			let (_, info) = api.retrieve_summary_info(m, true, 1)?;
			println!(
				"original: {} at {} spendable {}",
				acct.label, acct.path, info.amount_currently_spendable
			);
			original_total += info.amount_currently_spendable;
		}
		Ok(())
	})?;
	assert_eq!(original_total, base * 12);

	// The restored wallet. Its owner re-creates the account he cares about, "account_2",
	// before scanning (as first extra account it gets path m/1/0), then scans.
	wallet::controller::owner_single_use(Some(wallet2.clone()), mask2, None, |api, m| {
		api.create_account_path(m, "account_2")?;
		api.scan(m, None, false)?;
		Ok(())
	})?;

	let mut restored_total = 0;
	let mut account_paths = vec![];
	wallet::controller::owner_single_use(Some(wallet2.clone()), mask2, None, |api, m| {
		for acct in api.accounts(m)? {
			api.set_active_account(m, &acct.label)?;
			let (_, info) = api.retrieve_summary_info(m, true, 1)?;
			println!(
				"restored: {} at {} spendable {}",
				acct.label, acct.path, info.amount_currently_spendable
			);
			restored_total += info.amount_currently_spendable;
			account_paths.push(acct.path.clone());
		}
		Ok(())
	})?;

	// every unspent output the scan put into the wallet must sit under one of its accounts
	let orphans: Vec<libwallet::OutputData> = {
		wallet_inst!(wallet2, w);
		w.iter()
			.filter(|o| o.status == OutputStatus::Unspent)
			.filter(|o| !account_paths.contains(&o.root_key_id))
			.collect()
	};
	for o in &orphans {
		println!(
			"restored output {} of {} is under path {} which no account label points to",
			o.key_id, o.value, o.root_key_id
		);
	}

	stopper.store(false, Ordering::Relaxed);
	thread::sleep(Duration::from_millis(200));

	assert!(
		orphans.is_empty(),
		"after a scan every unspent output of the seed must belong to an account of the wallet, \
		 but {} output(s) are under a path no account points to (the label account_2 was re-pointed)",
		orphans.len()
	);
	assert_eq!(
		restored_total, original_total,
		"the restored and scanned wallet must report the same spendable total (over its accounts) \
		 as the original wallet"
	);
	Ok(())
}

#[test]
fn scan_label_collision() {
	let test_dir = "test_output/c16_finding1";
	setup(test_dir);
	if let Err(e) = scan_label_collision_impl(test_dir) {
		panic!("Libwallet Error: {}", e);
	}
	clean_output_dir(test_dir);
}
