// Finding 2: after a reorganisation a scan that is asked to drop pending transactions
// (delete_unconfirmed = true) leaves the reverted output - which is not on chain and, here,
// can never be again - in the wallet's records and balances.
//
// Place in controller/tests/finding2.rs and run with
//   cargo test --offline -j 2 -p grin_wallet_controller --test finding2 -- --nocapture
#[macro_use]
mod common;

use common::{clean_output_dir, create_wallet_proxy, setup};
use grin_core as core;
use grin_core::core::hash::Hashed;
use grin_core::core::Committed;
use grin_core::global;
use grin_util::ZeroingString;
use grin_wallet_controller::controller::owner_single_use as owner;
use grin_wallet_impls::test_framework::*;
use grin_wallet_libwallet as libwallet;
use grin_wallet_libwallet::api_impl::types::InitTxArgs;
use grin_wallet_libwallet::OutputStatus;
use log::error;
use std::sync::atomic::Ordering;
use std::thread;
use std::time::Duration;

fn reverted_survives_scan_impl(test_dir: &'static str) -> Result<(), libwallet::Error> {
	let seed_phrase = "affair pistol cancel crush garment candy ancient flag work \
	                   market crush dry stand focus mutual weapon offer ceiling rival turn team spring \
	                   where swift";
	let seed_phrase = Some(ZeroingString::from(seed_phrase));
	let no_seed: Option<ZeroingString> = None;

	let mut wallet_proxy = create_wallet_proxy(test_dir);
	let stopper = wallet_proxy.running.clone();
	let chain = wallet_proxy.chain.clone();
	// a second chain, used to build the competing fork
	let test_dir2 = format!("{}/chain2", test_dir);
	let wallet_proxy2 = create_wallet_proxy(&test_dir2);
	let chain2 = wallet_proxy2.chain.clone();

	// miner and sender
	create_wallet_and_add!(
		client1,
		wallet1,
		mask1_i,
		test_dir,
		"wallet1",
		no_seed,
		&mut wallet_proxy,
		false
	);
	let mask1 = mask1_i.as_ref();
	// recipient
	create_wallet_and_add!(
		client2,
		wallet2,
		mask2_i,
		test_dir,
		"wallet2",
		seed_phrase,
		&mut wallet_proxy,
		false
	);
	let mask2 = mask2_i.as_ref();
	// a new wallet from the recipient's recovery phrase
	create_wallet_and_add!(
		client3,
		wallet3,
		mask3_i,
		test_dir,
		"wallet3",
		seed_phrase,
		&mut wallet_proxy,
		false
	);
	let mask3 = mask3_i.as_ref();
	// somebody else
	create_wallet_and_add!(
		client4,
		wallet4,
		mask4_i,
		test_dir,
		"other",
		no_seed,
		&mut wallet_proxy,
		false
	);
	let _ = (&client2, &client3, &client4, &wallet4, &mask4_i);

	thread::spawn(move || {
		if let Err(e) = wallet_proxy.run() {
			error!("Wallet Proxy error: {}", e);
		}
	});

	let reward = core::consensus::REWARD;
	let cm = global::coinbase_maturity() as u64;
	let sent = reward * 2;

	let bh = 10u64;
	award_blocks_to_wallet(&chain, wallet1.clone(), mask1, bh as usize, false)?;

	// wallet1 pays wallet2
	let mut tx = None;
	owner(Some(wallet1.clone()), mask1, None, |api, m| {
		let args = InitTxArgs {
			src_acct_name: None,
			amount: sent,
			minimum_confirmations: cm,
			max_outputs: 500,
			num_change_outputs: 1,
			selection_strategy_is_use_all: false,
			..Default::default()
		};
		let slate = api.init_send_tx(m, args)?;
		api.tx_lock_outputs(m, &slate)?;
		let slate = client1.send_tx_slate_direct("wallet2", &slate)?;
		let slate = api.finalize_tx(m, &slate)?;
		tx = slate.tx;
		Ok(())
	})?;
	let tx = tx.expect("tx from slate");

	// copy the chain so far to the parallel chain
	for i in 0..bh {
		let hash = chain.get_header_by_height(i + 1).unwrap().hash();
		let block = chain.get_block(&hash).unwrap();
		process_block(&chain2, block);
	}
	// two blocks at the same height: one with the payment, one without
	let head = chain.head_header().unwrap();
	let block_with =
		create_block_for_wallet(&chain, head.clone(), &[tx.clone()], wallet1.clone(), mask1)?;
	let block_without = create_block_for_wallet(&chain, head, &[], wallet1.clone(), mask1)?;
	process_block(&chain, block_with.clone());
	process_block(&chain2, block_without.clone());
	let bh = bh + 1;

	// the payment is confirmed
	owner(Some(wallet2.clone()), mask2, None, |api, m| {
		let (refreshed, info) = api.retrieve_summary_info(m, true, 1)?;
		assert!(refreshed);
		assert_eq!(info.last_confirmed_height, bh);
		assert_eq!(info.amount_currently_spendable, sent);
		Ok(())
	})?;

	// the fork without the payment becomes the longest chain
	award_block_to_wallet(&chain2, &[], wallet1.clone(), mask1)?;
	let new_head = chain2
		.get_block(&chain2.head_header().unwrap().hash())
		.unwrap();
	process_block(&chain, block_without.clone());
	process_block(&chain, new_head.clone());
	assert_eq!(chain.head_header().unwrap(), new_head.header);

	// The sender repairs its wallet (its inputs are unspent again) and spends those inputs
	// in another payment, which is mined: the reverted payment can never be mined again.
	owner(Some(wallet1.clone()), mask1, None, |api, m| {
		api.scan(m, None, true)?;
		Ok(())
	})?;
	award_blocks_to_wallet(&chain, wallet1.clone(), mask1, cm as usize, false)?;
	owner(Some(wallet1.clone()), mask1, None, |api, m| {
		let args = InitTxArgs {
			src_acct_name: None,
			amount: reward,
			minimum_confirmations: 1,
			max_outputs: 500,
			num_change_outputs: 1,
			selection_strategy_is_use_all: true,
			..Default::default()
		};
		let slate = api.init_send_tx(m, args)?;
		let slate = client1.send_tx_slate_direct("other", &slate)?;
		api.tx_lock_outputs(m, &slate)?;
		let slate = api.finalize_tx(m, &slate)?;
		api.post_tx(m, &slate, false)?;
		Ok(())
	})?;
	// none of the inputs of the reverted payment is unspent any more
	for input in tx.inputs_committed() {
		assert!(
			chain.get_unspent(input).unwrap().is_none(),
			"the reverted payment's inputs have been spent otherwise"
		);
	}
	// and its output is not on chain
	let reverted_commit = tx.outputs_committed();
	for c in &reverted_commit {
		assert!(chain.get_unspent(*c).unwrap().is_none());
	}

	// the recipient scans, asking to drop pending transactions - twice
	owner(Some(wallet2.clone()), mask2, None, |api, m| {
		api.scan(m, None, true)?;
		api.scan(m, None, true)?;
		Ok(())
	})?;
	// a new wallet from the recipient's phrase scans
	owner(Some(wallet3.clone()), mask3, None, |api, m| {
		api.scan(m, None, true)?;
		Ok(())
	})?;

	let mut info2 = None;
	let mut outs2 = vec![];
	owner(Some(wallet2.clone()), mask2, None, |api, m| {
		info2 = Some(api.retrieve_summary_info(m, true, 1)?.1);
		outs2 = api.retrieve_outputs(m, false, true, None)?.1;
		Ok(())
	})?;
	let mut info3 = None;
	let mut outs3 = vec![];
	owner(Some(wallet3.clone()), mask3, None, |api, m| {
		info3 = Some(api.retrieve_summary_info(m, true, 1)?.1);
		outs3 = api.retrieve_outputs(m, false, true, None)?.1;
		Ok(())
	})?;
	let (info2, info3) = (info2.unwrap(), info3.unwrap());
	println!("wallet2 (scanned) info : {:?}", info2);
	println!("wallet3 (restored) info: {:?}", info3);
	for o in &outs2 {
		println!("wallet2 record: {:?}", o.output);
	}

	// the restored wallet shows the chain's truth: nothing
	assert_eq!(outs3.len(), 0);
	assert_eq!(info3.total, 0);
	assert_eq!(info3.amount_reverted, 0);

	// the property: the scan repairs records and balances to the chain's truth
	let stale: Vec<_> = outs2
		.iter()
		.filter(|o| o.output.status != OutputStatus::Spent)
		.collect();
	assert_eq!(
		info2.amount_reverted, info3.amount_reverted,
		"after a scan with delete_unconfirmed the wallet must not count an output that is not \
		 on chain (and never can be) in its balances; a new wallet from the same phrase reports {}",
		info3.amount_reverted
	);
	assert!(
		stale.is_empty(),
		"after a scan with delete_unconfirmed the wallet must hold no live record of an output \
		 that is not on chain: {:?}",
		stale.iter().map(|o| &o.output).collect::<Vec<_>>()
	);

	stopper.store(false, Ordering::Relaxed);
	thread::sleep(Duration::from_millis(500));
	Ok(())
}

#[test]
fn reverted_output_survives_scan() {
	let test_dir = "test_output/finding2_reverted";
	setup(test_dir);
	if let Err(e) = reverted_survives_scan_impl(test_dir) {
		panic!("Libwallet Error: {}", e);
	}
	clean_output_dir(test_dir);
}
