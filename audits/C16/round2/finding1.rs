// Finding 1: scan "un-spends" a wallet record whose commitment has re-appeared on chain,
// but keeps the record's old maturity (lock_height) instead of the chain's.
//
// Place in controller/tests/finding1.rs and run with
//   cargo test --offline -j 2 -p grin_wallet_controller --test finding1 -- --nocapture
#[macro_use]
extern crate log;
extern crate grin_wallet_controller as wallet;
extern crate grin_wallet_impls as impls;

use grin_core as core;
use grin_util as util;

use self::core::global;
use grin_wallet_libwallet as libwallet;
use impls::test_framework::{self, LocalWalletClient};
use libwallet::{InitTxArgs, OutputStatus};
use std::sync::atomic::Ordering;
use std::thread;
use std::time::Duration;
use util::ZeroingString;

#[macro_use]
mod common;
use common::{clean_output_dir, create_wallet_proxy, setup};

fn stale_maturity_impl(test_dir: &'static str) -> Result<(), libwallet::Error> {
	let seed_phrase = "affair pistol cancel crush garment candy ancient flag work \
	                   market crush dry stand focus mutual weapon offer ceiling rival turn team spring \
	                   where swift";
	let seed_phrase = Some(ZeroingString::from(seed_phrase));

	let mut wallet_proxy = create_wallet_proxy(test_dir);
	let chain = wallet_proxy.chain.clone();
	let stopper = wallet_proxy.running.clone();

	// some other party (different seed), receives wallet1's payment
	create_wallet_and_add!(
		client_o,
		other,
		mask_o_i,
		test_dir,
		"other",
		None,
		&mut wallet_proxy,
		false
	);
	let _mask_o = (&mask_o_i).as_ref();
	// the original wallet
	create_wallet_and_add!(
		client1,
		wallet1,
		mask1_i,
		test_dir,
		"wallet1",
		seed_phrase,
		&mut wallet_proxy,
		false
	);
	let mask1 = (&mask1_i).as_ref();
	// the same recovery phrase installed on a second machine and used without scanning first
	create_wallet_and_add!(
		client2,
		wallet2,
		mask2_i,
		test_dir,
		"wallet2",
		seed_phrase,
		&mut wallet_proxy,
		false
	);
	let mask2 = (&mask2_i).as_ref();
	// a new wallet created from the same recovery phrase, restored by scanning
	create_wallet_and_add!(
		client3,
		wallet3,
		mask3_i,
		test_dir,
		"wallet3",
		seed_phrase,
		&mut wallet_proxy,
		false
	);
	let mask3 = (&mask3_i).as_ref();
	let _ = (&client2, &client3, &client_o);

	thread::spawn(move || {
		if let Err(e) = wallet_proxy.run() {
			error!("Wallet Proxy error: {}", e);
		}
	});

	let reward = core::consensus::REWARD;
	let cm = global::coinbase_maturity();

	// wallet1 mines blocks 1..=6: coinbase outputs at m/0/0/0 .. m/0/0/5, each worth `reward`
	test_framework::award_blocks_to_wallet(&chain, wallet1.clone(), mask1, 6, false)?;

	// wallet1 pays someone with all its mature coinbase outputs (those of blocks 1, 2, 3);
	// posting mines block 7 (reward to wallet1)
	wallet::controller::owner_single_use(Some(wallet1.clone()), mask1, None, |api, m| {
		let args = InitTxArgs {
			src_acct_name: None,
			amount: reward,
			minimum_confirmations: 1,
			max_outputs: 500,
			num_change_outputs: 1,
			selection_strategy_is_use_all: true,
			..Default::default()
		};
		let slate = api.init_send_tx(m, args)?;
		let slate = client1.send_tx_slate_direct("other", &slate)?;
		api.tx_lock_outputs(m, &slate)?;
		let slate = api.finalize_tx(m, &slate)?;
		api.post_tx(m, &slate, false)?;
		Ok(())
	})?;

	// the first coinbase (m/0/0/0, block 1) is spent, in the wallet and on chain
	let mut first_cb_commit = None;
	wallet::controller::owner_single_use(Some(wallet1.clone()), mask1, None, |api, m| {
		let (refreshed, outputs) = api.retrieve_outputs(m, true, true, None)?;
		assert!(refreshed);
		let first = outputs
			.iter()
			.find(|o| o.output.is_coinbase && o.output.height == 1)
			.expect("coinbase of block 1");
		assert_eq!(first.output.status, OutputStatus::Spent);
		assert_eq!(first.output.n_child, 0);
		first_cb_commit = Some(first.commit);
		Ok(())
	})?;
	let first_cb_commit = first_cb_commit.unwrap();

	// The second installation of the same seed mines block 8. It starts at m/0/0/0 as well, the
	// reward is the same, so its coinbase output is the very commitment wallet1 spent above
	// (legitimate on chain: the earlier output with this commitment is spent).
	test_framework::award_blocks_to_wallet(&chain, wallet2.clone(), mask2, 1, false)?;
	let tip = chain.head().unwrap().height;
	assert_eq!(tip, 8);
	wallet::controller::owner_single_use(Some(wallet2.clone()), mask2, None, |api, m| {
		// (not refreshed: wallet2 has recorded nothing but its own coinbase)
		let (_, outputs) = api.retrieve_outputs(m, true, false, None)?;
		assert_eq!(outputs.len(), 1);
		assert_eq!(outputs[0].commit, first_cb_commit);
		assert_eq!(outputs[0].output.height, tip);
		assert_eq!(outputs[0].output.lock_height, tip + cm);
		Ok(())
	})?;

	// the original wallet scans (twice: the second scan must not change anything either)
	wallet::controller::owner_single_use(Some(wallet1.clone()), mask1, None, |api, m| {
		api.scan(m, None, true)?;
		api.scan(m, None, true)?;
		Ok(())
	})?;
	// a new wallet from the same phrase scans
	wallet::controller::owner_single_use(Some(wallet3.clone()), mask3, None, |api, m| {
		api.scan(m, None, true)?;
		Ok(())
	})?;

	let mut rec1 = None;
	let mut info1 = None;
	wallet::controller::owner_single_use(Some(wallet1.clone()), mask1, None, |api, m| {
		let (_, outputs) = api.retrieve_outputs(m, false, true, None)?;
		rec1 = outputs
			.into_iter()
			.find(|o| o.commit == first_cb_commit)
			.map(|o| o.output);
		info1 = Some(api.retrieve_summary_info(m, true, 1)?.1);
		Ok(())
	})?;
	let mut rec3 = None;
	let mut info3 = None;
	wallet::controller::owner_single_use(Some(wallet3.clone()), mask3, None, |api, m| {
		let (_, outputs) = api.retrieve_outputs(m, false, true, None)?;
		rec3 = outputs
			.into_iter()
			.find(|o| o.commit == first_cb_commit)
			.map(|o| o.output);
		info3 = Some(api.retrieve_summary_info(m, true, 1)?.1);
		Ok(())
	})?;
	let rec1 = rec1.expect("scan must give wallet1 the unspent output that is on chain");
	let rec3 = rec3.expect("scan must give wallet3 the unspent output that is on chain");
	let (info1, info3) = (info1.unwrap(), info3.unwrap());
	println!("wallet1 (scanned) record : {:?}", rec1);
	println!("wallet3 (restored) record: {:?}", rec3);
	println!("wallet1 info: {:?}", info1);
	println!("wallet3 info: {:?}", info3);

	assert_eq!(rec1.status, OutputStatus::Unspent);
	assert_eq!(rec3.status, OutputStatus::Unspent);
	assert_eq!(rec3.height, tip);
	assert_eq!(rec3.lock_height, tip + cm);
	assert_eq!(info1.total, info3.total);

	// the property: same outputs with the same maturity, same spendable total
	assert_eq!(
		info1.amount_currently_spendable, info3.amount_currently_spendable,
		"after a scan the original wallet must report the same spendable total as a new wallet \
		 restored from the same phrase (the coinbase of block {} matures at height {}, the chain \
		 is at {})",
		tip,
		tip + cm,
		tip
	);
	assert_eq!(
		rec1.lock_height,
		tip + cm,
		"scan must repair the record of the coinbase mined in block {} to the chain's maturity",
		tip
	);

	stopper.store(false, Ordering::Relaxed);
	thread::sleep(Duration::from_millis(200));
	Ok(())
}

#[test]
fn scan_unspends_with_stale_maturity() {
	let test_dir = "test_output/finding1_stale_maturity";
	setup(test_dir);
	if let Err(e) = stale_maturity_impl(test_dir) {
		panic!("Libwallet Error: {}", e);
	}
	clean_output_dir(test_dir);
}
