// Finding 3: a scan with a start height records the whole chain, up to the tip, as scanned.
// Blocks between the wallet's previous last-scanned block and the start height have not been
// looked at by anything, but from then on the wallet's updates only look back 100 blocks from
// the recorded block: outputs of the seed in the gap, which the next ordinary update would have
// restored, are never found any more (until a full scan from block 1).
//
// Place in controller/tests/finding3.rs and run with
//   cargo test --offline -j 2 -p grin_wallet_controller --test finding3 -- --nocapture
#[macro_use]
extern crate log;
extern crate grin_wallet_controller as wallet;
extern crate grin_wallet_impls as impls;

use grin_core as core;
use grin_util as util;

use grin_wallet_libwallet as libwallet;
use impls::test_framework::{self, LocalWalletClient};
use std::sync::atomic::Ordering;
use std::thread;
use std::time::Duration;
use util::ZeroingString;

#[macro_use]
mod common;
use common::{clean_output_dir, create_wallet_proxy, setup};

fn partial_scan_marker_impl(test_dir: &'static str) -> Result<(), libwallet::Error> {
	let seed_phrase = "affair pistol cancel crush garment candy ancient flag work \
	                   market crush dry stand focus mutual weapon offer ceiling rival turn team spring \
	                   where swift";
	let seed_phrase = Some(ZeroingString::from(seed_phrase));
	let no_seed: Option<ZeroingString> = None;

	let mut wallet_proxy = create_wallet_proxy(test_dir);
	let chain = wallet_proxy.chain.clone();
	let stopper = wallet_proxy.running.clone();

	create_wallet_and_add!(
		m_client,
		miner,
		miner_mask_i,
		test_dir,
		"miner",
		no_seed,
		&mut wallet_proxy,
		false
	);
	let miner_mask = (&miner_mask_i).as_ref();
	// the wallet under test
	create_wallet_and_add!(
		client1,
		wallet1,
		mask1_i,
		test_dir,
		"wallet1",
		seed_phrase,
		&mut wallet_proxy,
		false
	);
	let mask1 = (&mask1_i).as_ref();
	// control: same phrase, same history as wallet1, but never given a partial scan
	create_wallet_and_add!(
		client1c,
		wallet1c,
		mask1c_i,
		test_dir,
		"wallet1c",
		seed_phrase,
		&mut wallet_proxy,
		false
	);
	let mask1c = (&mask1c_i).as_ref();
	// the same phrase in use on another machine
	create_wallet_and_add!(
		client2,
		wallet2,
		mask2_i,
		test_dir,
		"wallet2",
		seed_phrase,
		&mut wallet_proxy,
		false
	);
	// a new wallet from the same phrase, restored by a full scan
	create_wallet_and_add!(
		client3,
		wallet3,
		mask3_i,
		test_dir,
		"wallet3",
		seed_phrase,
		&mut wallet_proxy,
		false
	);
	let mask3 = (&mask3_i).as_ref();
	let _ = (&client1, &client1c, &client2, &client3, &wallet2, &mask2_i);

	thread::spawn(move || {
		if let Err(e) = wallet_proxy.run() {
			error!("Wallet Proxy error: {}", e);
		}
	});

	let amount = core::consensus::GRIN_BASE * 7;

	test_framework::award_blocks_to_wallet(&chain, miner.clone(), miner_mask, 6, false)?;

	// wallet1 and the control are opened and updated: their first update scans the whole chain
	// (they were created from a recovery phrase) and records block 6 as the last block scanned
	for (w, m) in vec![(wallet1.clone(), mask1), (wallet1c.clone(), mask1c)] {
		let info = test_framework::wallet_info(w, m)?;
		assert_eq!(info.total, 0);
		assert_eq!(info.last_confirmed_height, 6);
	}

	// a payment to the same seed, received by the other installation (block 7)
	test_framework::send_to_dest(
		miner.clone(),
		miner_mask,
		m_client.clone(),
		"wallet2",
		amount,
		false,
	)?;
	// wallet1 stays closed while the chain grows by more than 100 blocks
	test_framework::award_blocks_to_wallet(&chain, miner.clone(), miner_mask, 110, false)?;
	let tip = chain.head().unwrap().height;
	assert_eq!(tip, 117);

	// control: an ordinary update resumes from the last scanned block and finds the output
	let info_c = test_framework::wallet_info(wallet1c.clone(), mask1c)?;
	assert_eq!(info_c.total, amount);
	assert_eq!(info_c.amount_currently_spendable, amount);

	// wallet1: the user first runs a quick scan of the last few blocks ...
	wallet::controller::owner_single_use(Some(wallet1.clone()), mask1, None, |api, m| {
		api.scan(m, Some(tip - 3), false)?;
		Ok(())
	})?;
	// ... and then the wallet is updated as usual (several times)
	let mut info_1 = test_framework::wallet_info(wallet1.clone(), mask1)?;
	for _ in 0..3 {
		info_1 = test_framework::wallet_info(wallet1.clone(), mask1)?;
	}

	// a new wallet from the same phrase, scanned
	wallet::controller::owner_single_use(Some(wallet3.clone()), mask3, None, |api, m| {
		api.scan(m, None, false)?;
		Ok(())
	})?;
	let info_3 = test_framework::wallet_info(wallet3.clone(), mask3)?;
	assert_eq!(info_3.total, amount);

	println!("control  (update only)               : {:?}", info_c);
	println!("wallet1  (scan from {}, then updates): {:?}", tip - 3, info_1);
	println!("wallet3  (restored)                   : {:?}", info_3);

	assert_eq!(
		info_1.amount_currently_spendable, info_3.amount_currently_spendable,
		"a scan with a start height must not make the wallet lose sight of the blocks it has \
		 not scanned: without that scan the next update finds the output of block 7 (control: \
		 {}), a new wallet from the same phrase reports {}",
		info_c.amount_currently_spendable, info_3.amount_currently_spendable
	);

	stopper.store(false, Ordering::Relaxed);
	thread::sleep(Duration::from_millis(200));
	Ok(())
}

#[test]
fn partial_scan_marks_whole_chain_scanned() {
	let test_dir = "test_output/finding3_partial_scan";
	setup(test_dir);
	if let Err(e) = partial_scan_marker_impl(test_dir) {
		panic!("Libwallet Error: {}", e);
	}
	clean_output_dir(test_dir);
}
