// C16 finding 2: a scan with a start height loses confirmed coinbase outputs of a second
// account. scan refreshes the accounts one after the other; the refresh of the first
// account ends with clean_old_unconfirmed(), which deletes the "unconfirmed" coinbase
// records older than 50 blocks of EVERY account - including those of an account that has
// not been refreshed yet and whose coinbase outputs are in fact confirmed on chain. A full
// scan finds them again on chain; a scan that starts above their height (scan -h / -b)
// does not, so it leaves the wallet with fewer outputs than it had, and than the chain has.
//
// Place in controller/tests/finding2.rs and run with
//   cargo test -p grin_wallet_controller --test finding2 --offline -j 4 -- --nocapture

#[macro_use]
extern crate log;
extern crate grin_wallet_controller as wallet;
extern crate grin_wallet_impls as impls;

use grin_core as core;

use grin_wallet_libwallet as libwallet;
use impls::test_framework::{self, LocalWalletClient};
use std::sync::atomic::Ordering;
use std::thread;
use std::time::Duration;

#[macro_use]
mod common;
use common::{clean_output_dir, create_wallet_proxy, setup};

fn partial_scan_loses_outputs_impl(test_dir: &'static str) -> Result<(), libwallet::Error> {
	let mut wallet_proxy = create_wallet_proxy(test_dir);
	let chain = wallet_proxy.chain.clone();
	let stopper = wallet_proxy.running.clone();

	create_wallet_and_add!(
		client1,
		wallet1,
		mask1_i,
		test_dir,
		"wallet1",
		None,
		&mut wallet_proxy,
		false
	);
	let mask1 = (&mask1_i).as_ref();
	// control: same activity, but in a wallet with a single account
	create_wallet_and_add!(
		client2,
		wallet2,
		mask2_i,
		test_dir,
		"wallet2",
		None,
		&mut wallet_proxy,
		false
	);
	let mask2 = (&mask2_i).as_ref();

	thread::spawn(move || {
		if let Err(e) = wallet_proxy.run() {
			error!("Wallet Proxy error: {}", e);
		}
	});

	let reward = core::consensus::REWARD;

	// wallet1 mines into its account "mining"
	wallet::controller::owner_single_use(Some(wallet1.clone()), mask1, None, |api, m| {
		api.create_account_path(m, "mining")?;
		api.set_active_account(m, "mining")?;
		Ok(())
	})?;

	// wallet1 mines 60 blocks, then the control wallet 110 more (a miner's listener does
	// not refresh the wallet, so none of these coinbase outputs has been confirmed in the
	// wallets' records yet)
	let n = 60u64;
	let n_control = 110u64;
	test_framework::award_blocks_to_wallet(&chain, wallet1.clone(), mask1, n as usize, false)?;
	test_framework::award_blocks_to_wallet(
		&chain,
		wallet2.clone(),
		mask2,
		n_control as usize,
		false,
	)?;
	let tip = n + n_control;

	// control wallet: scan the last 10 blocks only; every coinbase it mined is recorded
	let mut control_total = 0;
	wallet::controller::owner_single_use(Some(wallet2.clone()), mask2, None, |api, m| {
		api.scan(m, Some(tip - 10), false)?;
		let (_, info) = api.retrieve_summary_info(m, true, 1)?;
		control_total = info.total;
		Ok(())
	})?;
	println!(
		"control (one account): total {} = {} coinbase outputs",
		control_total,
		control_total / reward
	);
	assert_eq!(control_total, n_control * reward);

	// wallet1: the same scan, "mining" being the active account
	let mut total = 0;
	let mut n_outputs = 0;
	wallet::controller::owner_single_use(Some(wallet1.clone()), mask1, None, |api, m| {
		api.scan(m, Some(tip - 10), false)?;
		let (_, info) = api.retrieve_summary_info(m, true, 1)?;
		total = info.total;
		n_outputs = api.retrieve_outputs(m, true, false, None)?.1.len();
		Ok(())
	})?;
	println!(
		"two accounts: account mining has {} output records, total {} = {} coinbase outputs; the chain has {}",
		n_outputs,
		total,
		total / reward,
		n
	);

	stopper.store(false, Ordering::Relaxed);
	thread::sleep(Duration::from_millis(200));

	assert_eq!(
		total,
		n * reward,
		"the wallet mined {} coinbase outputs, all unspent on chain; after a scan (from height {}) \
		 its balance must be {} as in the single-account wallet, but the scan deleted \
		 their records",
		n,
		tip - 10,
		n * reward
	);
	Ok(())
}

#[test]
fn partial_scan_loses_outputs() {
	let test_dir = "test_output/c16_finding2";
	setup(test_dir);
	if let Err(e) = partial_scan_loses_outputs_impl(test_dir) {
		panic!("Libwallet Error: {}", e);
	}
	clean_output_dir(test_dir);
}
