// C16 finding 3: build_coinbase re-uses the key of a still unconfirmed coinbase candidate
// when the mining node asks for it (BlockFees.key_id), but books the replaced record under
// the account that is active NOW, while the key was derived under the account that was
// active when the candidate was first built. The output on chain then belongs (by its
// derivation path) to one account and is recorded under another. A scan of the original
// wallet does not correct it (it matches by commitment only), and a wallet restored from
// the same seed and scanned puts the output under the account of its path - so the restored
// wallet and the original wallet report different spendable totals for the same accounts.
//
// Place in controller/tests/finding3.rs and run with
//   cargo test -p grin_wallet_controller --test finding3 --offline -j 4 -- --nocapture

#[macro_use]
extern crate log;
extern crate grin_wallet_controller as wallet;
extern crate grin_wallet_impls as impls;

use grin_core as core;
use grin_util as util;

use grin_wallet_libwallet as libwallet;
use impls::test_framework::{self, LocalWalletClient};
use libwallet::BlockFees;
use std::collections::BTreeMap;
use std::sync::atomic::Ordering;
use std::thread;
use std::time::Duration;
use util::ZeroingString;

#[macro_use]
mod common;
use common::{clean_output_dir, create_wallet_proxy, setup};

const SEED: &str = "affair pistol cancel crush garment candy ancient flag work \
	market crush dry stand focus mutual weapon offer ceiling rival turn team spring \
	where swift";

fn coinbase_key_reuse_account_impl(test_dir: &'static str) -> Result<(), libwallet::Error> {
	let seed_phrase = Some(ZeroingString::from(SEED));
	let mut wallet_proxy = create_wallet_proxy(test_dir);
	let chain = wallet_proxy.chain.clone();
	let stopper = wallet_proxy.running.clone();

	// the original (mining) wallet
	create_wallet_and_add!(
		client1,
		wallet1,
		mask1_i,
		test_dir,
		"wallet1",
		seed_phrase,
		&mut wallet_proxy,
		false
	);
	let mask1 = (&mask1_i).as_ref();
	// restored from the same recovery phrase
	create_wallet_and_add!(
		client2,
		wallet2,
		mask2_i,
		test_dir,
		"wallet2",
		seed_phrase,
		&mut wallet_proxy,
		false
	);
	let mask2 = (&mask2_i).as_ref();

	thread::spawn(move || {
		if let Err(e) = wallet_proxy.run() {
			error!("Wallet Proxy error: {}", e);
		}
	});

	let reward = core::consensus::REWARD;

	wallet::controller::owner_single_use(Some(wallet1.clone()), mask1, None, |api, m| {
		api.create_account_path(m, "a")?;
		api.set_active_account(m, "a")?;
		Ok(())
	})?;

	// the mining node asks for a coinbase for block 1 while account "a" is active
	let mut cb1 = None;
	wallet::controller::foreign_single_use(wallet1.clone(), mask1_i.clone(), |api| {
		cb1 = Some(api.build_coinbase(&BlockFees {
			fees: 0,
			key_id: None,
			height: 1,
		})?);
		Ok(())
	})?;
	let cb1 = cb1.unwrap();

	// the owner switches the active account ...
	wallet::controller::owner_single_use(Some(wallet1.clone()), mask1, None, |api, m| {
		api.set_active_account(m, "default")?;
		Ok(())
	})?;

	// ... and the node refreshes its candidate, passing the key it was given (as grin does)
	let mut cb2 = None;
	wallet::controller::foreign_single_use(wallet1.clone(), mask1_i.clone(), |api| {
		cb2 = Some(api.build_coinbase(&BlockFees {
			fees: 0,
			key_id: cb1.key_id.clone(),
			height: 1,
		})?);
		Ok(())
	})?;
	let cb2 = cb2.unwrap();
	assert_eq!(cb1.key_id, cb2.key_id);
	println!("coinbase key (derived under account a): {:?}", cb2.key_id);

	// block 1 is mined with that coinbase; a few more blocks on top (to the default account)
	test_framework::add_block_with_reward(&chain, &[], cb2.output, cb2.kernel);
	test_framework::award_blocks_to_wallet(&chain, wallet1.clone(), mask1, 4, false)?;

	// original wallet, scanned: total per account path
	let mut original: BTreeMap<String, u64> = BTreeMap::new();
	wallet::controller::owner_single_use(Some(wallet1.clone()), mask1, None, |api, m| {
		api.scan(m, None, false)?;
		for acct in api.accounts(m)? {
			api.set_active_account(m, &acct.label)?;
			let (_, info) = api.retrieve_summary_info(m, true, 1)?;
			println!(
				"original: {} at {} total {}",
				acct.label, acct.path, info.total
			);
			original.insert(format!("{}", acct.path), info.total);
		}
		Ok(())
	})?;

	// restored wallet, scanned: total per account path
	let mut restored: BTreeMap<String, u64> = BTreeMap::new();
	wallet::controller::owner_single_use(Some(wallet2.clone()), mask2, None, |api, m| {
		api.scan(m, None, false)?;
		for acct in api.accounts(m)? {
			api.set_active_account(m, &acct.label)?;
			let (_, info) = api.retrieve_summary_info(m, true, 1)?;
			println!(
				"restored: {} at {} total {}",
				acct.label, acct.path, info.total
			);
			restored.insert(format!("{}", acct.path), info.total);
		}
		Ok(())
	})?;

	stopper.store(false, Ordering::Relaxed);
	thread::sleep(Duration::from_millis(200));

	assert_eq!(
		original.values().sum::<u64>(),
		5 * reward,
		"sanity: five coinbase outputs"
	);
	assert_eq!(
		restored, original,
		"a wallet restored from the seed and scanned must report, account path by account path, \
		 the same totals as the (scanned) original wallet"
	);
	Ok(())
}

#[test]
fn coinbase_key_reuse_account() {
	let test_dir = "test_output/c16_finding3";
	setup(test_dir);
	if let Err(e) = coinbase_key_reuse_account_impl(test_dir) {
		panic!("Libwallet Error: {}", e);
	}
	clean_output_dir(test_dir);
}
