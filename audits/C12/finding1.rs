// C12 finding 1: the private transaction context is written to the wallet database with the
// signing nonce and the secret blinding excess in plain JSON (fields `initial_sec_nonce` and
// `initial_sec_key`), next to their XOR-masked copies (`sec_nonce`, `sec_key`).
//
// Place in controller/tests/ and run with
//   cargo test --offline -j 4 -p grin_wallet_controller --test finding1 -- --nocapture

#[macro_use]
extern crate log;
extern crate grin_wallet_controller as wallet;
extern crate grin_wallet_impls as impls;

use grin_core as core;
use grin_util as util;
use grin_wallet_libwallet as libwallet;

use impls::test_framework::{self, LocalWalletClient};
use libwallet::{InitTxArgs, Slate};
use std::fs;
use std::path::Path;
use std::sync::atomic::Ordering;
use std::thread;
use std::time::Duration;
use util::secp::key::{PublicKey, SecretKey};
use util::secp::{ContextFlag, Secp256k1};

#[macro_use]
mod common;
use common::{clean_output_dir, create_wallet_proxy, setup};

/// every regular file below `dir`
fn files_below(dir: &Path, out: &mut Vec<std::path::PathBuf>) {
	for e in fs::read_dir(dir).unwrap() {
		let p = e.unwrap().path();
		if p.is_dir() {
			files_below(&p, out);
		} else {
			out.push(p);
		}
	}
}

/// All 32 byte values that follow `"<field>":[` as a JSON array of numbers anywhere in `data`.
/// No key, password or keychain is involved: this is what anybody who can read the file gets.
fn json_byte_arrays(data: &[u8], field: &str) -> Vec<Vec<u8>> {
	let pat = format!("\"{}\":[", field).into_bytes();
	let mut res = vec![];
	let mut i = 0;
	while i + pat.len() <= data.len() {
		if &data[i..i + pat.len()] == &pat[..] {
			let start = i + pat.len();
			if let Some(len) = data[start..].iter().take(200).position(|b| *b == b']') {
				let txt = String::from_utf8_lossy(&data[start..start + len]).to_string();
				let bytes: Vec<u8> = txt
					.split(',')
					.filter_map(|n| n.trim().parse::<u8>().ok())
					.collect();
				if bytes.len() == 32 {
					res.push(bytes);
				}
			}
			i = start;
		} else {
			i += 1;
		}
	}
	res
}

fn plaintext_context_impl(test_dir: &'static str) -> Result<(), libwallet::Error> {
	let mut wallet_proxy = create_wallet_proxy(test_dir);
	let chain = wallet_proxy.chain.clone();
	let stopper = wallet_proxy.running.clone();

	create_wallet_and_add!(
		client1,
		wallet1,
		mask1_i,
		test_dir,
		"wallet1",
		None,
		&mut wallet_proxy,
		true
	);
	let mask1 = (&mask1_i).as_ref();

	thread::spawn(move || {
		if let Err(e) = wallet_proxy.run() {
			error!("Wallet Proxy error: {}", e);
		}
	});

	let reward = core::consensus::REWARD;
	let _ = test_framework::award_blocks_to_wallet(&chain, wallet1.clone(), mask1, 10, false);

	// an ordinary send is initiated; the slate goes to the counterparty, the context stays
	// in the wallet until the reply comes back
	let mut slate = Slate::blank(2, false);
	wallet::controller::owner_single_use(Some(wallet1.clone()), mask1, None, |api, m| {
		let args = InitTxArgs {
			src_acct_name: None,
			amount: reward * 2,
			minimum_confirmations: 2,
			max_outputs: 500,
			num_change_outputs: 1,
			selection_strategy_is_use_all: true,
			..Default::default()
		};
		slate = api.init_send_tx(m, args)?;
		api.tx_lock_outputs(m, &slate)?;
		Ok(())
	})?;

	// what the counterparty (and everybody who sees the slate) knows
	assert_eq!(slate.participant_data.len(), 1);
	let pub_nonce = slate.participant_data[0].public_nonce.clone();
	let pub_excess = slate.participant_data[0].public_blind_excess.clone();

	// now look at what is on disk, with nothing but read access to the wallet directory
	let secp = Secp256k1::with_caps(ContextFlag::Full);
	let mut files = vec![];
	files_below(&Path::new(test_dir).join("wallet1"), &mut files);
	let mut nonce_leaks = vec![];
	let mut key_leaks = vec![];
	for f in &files {
		let data = fs::read(f).unwrap();
		for cand in json_byte_arrays(&data, "initial_sec_nonce") {
			if let Ok(sk) = SecretKey::from_slice(&secp, &cand) {
				if PublicKey::from_secret_key(&secp, &sk).unwrap() == pub_nonce {
					nonce_leaks.push(f.display().to_string());
				}
			}
		}
		for cand in json_byte_arrays(&data, "initial_sec_key") {
			if let Ok(sk) = SecretKey::from_slice(&secp, &cand) {
				if PublicKey::from_secret_key(&secp, &sk).unwrap() == pub_excess {
					key_leaks.push(f.display().to_string());
				}
			}
		}
	}
	nonce_leaks.dedup();
	key_leaks.dedup();
	println!("files holding the secret nonce in the clear: {:?}", nonce_leaks);
	println!("files holding the secret excess in the clear: {:?}", key_leaks);

	stopper.store(false, Ordering::Relaxed);
	thread::sleep(Duration::from_millis(200));

	assert!(
		nonce_leaks.is_empty(),
		"expected: no file of the wallet holds the pending transaction's secret signing nonce in \
		 recoverable plaintext; found it (k with k*G == the slate's public nonce) as plain JSON \
		 field initial_sec_nonce in {:?}",
		nonce_leaks
	);
	assert!(
		key_leaks.is_empty(),
		"expected: no file of the wallet holds the pending transaction's secret blinding excess \
		 in recoverable plaintext; found it (x with x*G == the slate's public excess) as plain \
		 JSON field initial_sec_key in {:?}",
		key_leaks
	);
	Ok(())
}

#[test]
fn c12_pending_context_secrets_not_in_clear_on_disk() -> Result<(), libwallet::Error> {
	let test_dir = "test_output/finding1";
	setup(test_dir);
	plaintext_context_impl(test_dir)?;
	clean_output_dir(test_dir);
	Ok(())
}
