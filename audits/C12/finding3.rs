// C12 finding 3: the seed file also opens with passwords other than the one it was saved
// under. The encryption key is PBKDF2-HMAC-SHA512(password, salt); HMAC pads a key shorter than
// its block size with zero bytes, so every password p (up to 127 bytes, including the empty
// one) and p + "\0", p + "\0\0", ... derive the same key.
//
// Place in controller/tests/ and run with
//   cargo test --offline -j 4 -p grin_wallet_controller --test finding3 -- --nocapture

extern crate grin_wallet_controller as wallet;
extern crate grin_wallet_impls as impls;
extern crate grin_wallet_libwallet as libwallet;

use grin_keychain as keychain;
use grin_util as util;

use impls::test_framework::{LocalWalletClient, WalletProxy};
use impls::{DefaultLCProvider, DefaultWalletImpl};
use keychain::ExtKeychain;
use libwallet::WalletInst;
use util::ZeroingString;

#[macro_use]
mod common;
use common::{clean_output_dir, setup};

fn new_wallet(
	test_dir: &str,
	client: LocalWalletClient,
) -> Box<
	dyn WalletInst<
		'static,
		DefaultLCProvider<'static, LocalWalletClient, ExtKeychain>,
		LocalWalletClient,
		ExtKeychain,
	>,
> {
	let mut wallet = Box::new(DefaultWalletImpl::<LocalWalletClient>::new(client).unwrap())
		as Box<
			dyn WalletInst<
				DefaultLCProvider<'static, LocalWalletClient, ExtKeychain>,
				LocalWalletClient,
				ExtKeychain,
			>,
		>;
	let lc = wallet.lc_provider().unwrap();
	lc.set_top_level_directory(&format!("{}/wallet1", test_dir))
		.unwrap();
	wallet
}

fn check(test_dir: &str, saved_under: &str, other: &str) -> Option<String> {
	clean_output_dir(test_dir);
	let wallet_proxy: WalletProxy<
		DefaultLCProvider<LocalWalletClient, ExtKeychain>,
		LocalWalletClient,
		ExtKeychain,
	> = WalletProxy::new(test_dir);
	let client = LocalWalletClient::new("wallet1", wallet_proxy.tx.clone());
	let mut wallet = new_wallet(test_dir, client);
	let lc = wallet.lc_provider().unwrap();
	lc.create_wallet(None, None, 32, ZeroingString::from(saved_under), false)
		.unwrap();
	let phrase = lc
		.get_mnemonic(None, ZeroingString::from(saved_under))
		.unwrap();

	// sanity: some other wrong password is refused
	assert!(lc
		.get_mnemonic(None, ZeroingString::from(format!("{}x", saved_under).as_str()))
		.is_err());
	assert!(lc
		.open_wallet(
			None,
			ZeroingString::from(format!("{}x", saved_under).as_str()),
			false,
			false
		)
		.is_err());

	assert_ne!(saved_under, other);
	let opened = lc
		.open_wallet(None, ZeroingString::from(other), false, false)
		.is_ok();
	let shown = lc.get_mnemonic(None, ZeroingString::from(other));
	let mut res = None;
	if opened || shown.is_ok() {
		res = Some(format!(
			"seed file saved under {:?} : open_wallet with {:?} succeeded: {}, get_mnemonic with {:?} \
			 returned the recovery phrase: {}",
			saved_under,
			other,
			opened,
			other,
			shown.map(|p| *p == *phrase).unwrap_or(false)
		));
	}
	// a password change with the wrong 'old' password must be refused as well
	let changed = lc.change_password(
		None,
		ZeroingString::from(other),
		ZeroingString::from("new password"),
	);
	if changed.is_ok() {
		res = Some(format!(
			"{}; change_password accepted {:?} as the old password",
			res.unwrap_or_default(),
			other
		));
	}
	res
}

#[test]
fn c12_seed_file_opens_only_with_its_password() {
	let test_dir = "test_output/finding3";
	setup(test_dir);
	let mut violations = vec![];
	for (saved_under, other) in vec![
		("passw0rd", "passw0rd\0"),
		("", "\0"),
		("", "\0\0\0\0"),
		("пароль-密码", "пароль-密码\0\0"),
	] {
		if let Some(v) = check(test_dir, saved_under, other) {
			println!("{}", v);
			violations.push(v);
		}
	}
	clean_output_dir(test_dir);
	assert!(
		violations.is_empty(),
		"expected: the seed file opens only with the password it was saved under, any other \
		 password yields an error; but: {:#?}",
		violations
	);
}
