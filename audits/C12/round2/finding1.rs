// Finding 1: when a wallet pays an invoice it issued itself, the invoice side's SECRET excess
// key is the difference between the kernel offsets of two slates the wallet emits
// (the Invoice2 reply of process_invoice_tx and the Invoice3 slate of finalize_tx).
//
// Place in controller/tests/finding1.rs, run with
//   cargo test --offline -j 2 -p grin_wallet_controller --test finding1 -- --nocapture

#[macro_use]
extern crate log;
extern crate grin_wallet_controller as wallet;
extern crate grin_wallet_impls as impls;

use grin_core as core;
use grin_keychain as keychain;
use grin_util as util;
use grin_wallet_libwallet as libwallet;

use impls::test_framework::{self, LocalWalletClient};
use keychain::{BlindSum, ExtKeychain, Keychain};
use libwallet::{InitTxArgs, IssueInvoiceTxArgs, Slate, SlateState};
use std::sync::atomic::Ordering;
use std::thread;
use std::time::Duration;
use util::secp::key::PublicKey;
use util::ToHex;

#[macro_use]
mod common;
use common::{clean_output_dir, create_wallet_proxy, setup};

fn self_paid_invoice_impl(test_dir: &'static str) -> Result<(), libwallet::Error> {
	let mut wallet_proxy = create_wallet_proxy(test_dir);
	let chain = wallet_proxy.chain.clone();
	let stopper = wallet_proxy.running.clone();

	create_wallet_and_add!(
		client1,
		wallet1,
		mask1_i,
		test_dir,
		"wallet1",
		None,
		&mut wallet_proxy,
		true
	);
	let mask1 = (&mask1_i).as_ref();

	thread::spawn(move || {
		if let Err(e) = wallet_proxy.run() {
			error!("Wallet Proxy error: {}", e);
		}
	});

	let reward = core::consensus::REWARD;
	let _ = test_framework::award_blocks_to_wallet(&chain, wallet1.clone(), mask1, 10, false);

	// 1. wallet1 issues an invoice (Invoice1). This slate is handed out: it carries the
	//    invoice side's PUBLIC excess and nonce.
	let mut i1 = Slate::blank(2, true);
	wallet::controller::owner_single_use(Some(wallet1.clone()), mask1, None, |api, m| {
		let args = IssueInvoiceTxArgs {
			amount: reward * 2,
			..Default::default()
		};
		i1 = api.issue_invoice_tx(m, args)?;
		Ok(())
	})?;
	assert_eq!(i1.state, SlateState::Invoice1);
	assert_eq!(i1.participant_data.len(), 1);
	let invoicer_pub_excess = i1.participant_data[0].public_blind_excess.clone();

	// 2. the same wallet pays it (the invoice comes back to it, e.g. the self-send of the
	//    existing invoice test, or a counterparty that hands the wallet's own invoice back).
	//    The Invoice2 reply is what the wallet emits for the invoicer.
	let mut i2 = i1.clone();
	wallet::controller::owner_single_use(Some(wallet1.clone()), mask1, None, |api, m| {
		let args = InitTxArgs {
			src_acct_name: None,
			amount: i1.amount,
			minimum_confirmations: 2,
			max_outputs: 500,
			num_change_outputs: 1,
			selection_strategy_is_use_all: true,
			..Default::default()
		};
		i2 = api.process_invoice_tx(m, &i1, args)?;
		api.tx_lock_outputs(m, &i2)?;
		Ok(())
	})?;
	assert_eq!(i2.state, SlateState::Invoice2);

	// 3. the reply is finalized through the FOREIGN api (the entry point a counterparty
	//    uses); the Invoice3 slate is the foreign API's reply.
	let mut i3 = i2.clone();
	wallet::controller::foreign_single_use(wallet1.clone(), mask1_i.clone(), |api| {
		i3 = api.finalize_tx(&i2, false)?;
		Ok(())
	})?;
	assert_eq!(i3.state, SlateState::Invoice3);

	// 4. Anyone who holds the two emitted slates subtracts their offsets.
	let kc = ExtKeychain::from_random_seed(true).unwrap();
	let diff = kc
		.blind_sum(
			&BlindSum::new()
				.add_blinding_factor(i2.offset.clone())
				.sub_blinding_factor(i3.offset.clone()),
		)
		.unwrap();
	let candidate_secret = diff.secret_key(kc.secp()).unwrap();
	let candidate_pub = PublicKey::from_secret_key(kc.secp(), &candidate_secret).unwrap();

	println!("Invoice2 offset      : {}", i2.offset.as_ref().to_hex());
	println!("Invoice3 offset      : {}", i3.offset.as_ref().to_hex());
	println!("I2.offset - I3.offset: {}", diff.as_ref().to_hex());
	println!("(I2.off - I3.off)*G  : {:?}", candidate_pub);
	println!("invoicer public xs   : {:?}", invoicer_pub_excess);

	stopper.store(false, Ordering::Relaxed);
	thread::sleep(Duration::from_millis(200));

	assert!(
		candidate_pub != invoicer_pub_excess,
		"expected: no value computable from the slates the wallet emits is a pending transaction's \
		 secret excess key; actual: Invoice2.offset - Invoice3.offset IS the secret key of the \
		 invoice side's public excess {:?} published in the Invoice1/Invoice3 slates",
		invoicer_pub_excess
	);
	Ok(())
}

#[test]
fn self_paid_invoice_offsets_reveal_secret_excess() -> Result<(), libwallet::Error> {
	let test_dir = "test_output/finding1_self_paid_invoice";
	setup(test_dir);
	let res = self_paid_invoice_impl(test_dir);
	clean_output_dir(test_dir);
	res
}
