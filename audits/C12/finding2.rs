// C12 finding 2: process_invoice_tx takes an invoice whose id is that of an invoice this wallet
// has issued itself for a 'self-send' and answers with a slate whose kernel offset is the
// negated secret blinding excess of the payer: -offset * G == the public excess in the reply.
//
// Place in controller/tests/ and run with
//   cargo test --offline -j 4 -p grin_wallet_controller --test finding2 -- --nocapture

#[macro_use]
extern crate log;
extern crate grin_wallet_controller as wallet;
extern crate grin_wallet_impls as impls;

use grin_core as core;
use grin_util as util;
use grin_wallet_libwallet as libwallet;

use impls::test_framework::{self, LocalWalletClient};
use libwallet::{InitTxArgs, IssueInvoiceTxArgs, Slate, SlateState};
use std::sync::atomic::Ordering;
use std::thread;
use std::time::Duration;
use util::secp::key::PublicKey;
use util::secp::{ContextFlag, Secp256k1};

#[macro_use]
mod common;
use common::{clean_output_dir, create_wallet_proxy, setup};

/// true if the secret excess key of the (only) participant of `reply` can be computed from the
/// reply alone, as the negated kernel offset
fn offset_reveals_excess_key(reply: &Slate) -> bool {
	let secp = Secp256k1::with_caps(ContextFlag::Full);
	assert_eq!(reply.participant_data.len(), 1);
	let mut x = match reply.offset.secret_key(&secp) {
		Ok(k) => k,
		Err(_) => return false, // zero offset
	};
	x.neg_assign(&secp).unwrap();
	PublicKey::from_secret_key(&secp, &x).unwrap() == reply.participant_data[0].public_blind_excess
}

fn invoice_reply_impl(test_dir: &'static str) -> Result<(), libwallet::Error> {
	let mut wallet_proxy = create_wallet_proxy(test_dir);
	let chain = wallet_proxy.chain.clone();
	let stopper = wallet_proxy.running.clone();

	create_wallet_and_add!(
		client1,
		wallet1,
		mask1_i,
		test_dir,
		"wallet1",
		None,
		&mut wallet_proxy,
		true
	);
	let mask1 = (&mask1_i).as_ref();
	create_wallet_and_add!(
		client2,
		wallet2,
		mask2_i,
		test_dir,
		"wallet2",
		None,
		&mut wallet_proxy,
		true
	);
	let mask2 = (&mask2_i).as_ref();

	thread::spawn(move || {
		if let Err(e) = wallet_proxy.run() {
			error!("Wallet Proxy error: {}", e);
		}
	});

	let reward = core::consensus::REWARD;
	let _ = test_framework::award_blocks_to_wallet(&chain, wallet1.clone(), mask1, 10, false);

	let pay_args = |amount: u64| InitTxArgs {
		src_acct_name: None,
		amount,
		minimum_confirmations: 2,
		max_outputs: 500,
		num_change_outputs: 1,
		selection_strategy_is_use_all: false,
		..Default::default()
	};

	// Control: an ordinary invoice from wallet 2, paid by wallet 1. The reply's offset must not
	// give the payer's key away (and does not).
	let mut invoice = Slate::blank(2, true);
	wallet::controller::owner_single_use(Some(wallet2.clone()), mask2, None, |api, m| {
		invoice = api.issue_invoice_tx(
			m,
			IssueInvoiceTxArgs {
				amount: reward,
				..Default::default()
			},
		)?;
		Ok(())
	})?;
	let mut reply = Slate::blank(2, true);
	wallet::controller::owner_single_use(Some(wallet1.clone()), mask1, None, |api, m| {
		reply = api.process_invoice_tx(m, &invoice, pay_args(invoice.amount))?;
		Ok(())
	})?;
	assert_eq!(reply.state, SlateState::Invoice2);
	assert!(
		!offset_reveals_excess_key(&reply),
		"control: ordinary invoice reply"
	);

	// Scenario: wallet 1 has invoiced wallet 2 (the invoice is pending, wallet 2 has not paid).
	let mut own_invoice = Slate::blank(2, true);
	wallet::controller::owner_single_use(Some(wallet1.clone()), mask1, None, |api, m| {
		own_invoice = api.issue_invoice_tx(
			m,
			IssueInvoiceTxArgs {
				amount: reward,
				..Default::default()
			},
		)?;
		Ok(())
	})?;
	// Wallet 2 in turn invoices wallet 1, and gives its invoice the id of the one it got.
	let mut their_invoice = Slate::blank(2, true);
	wallet::controller::owner_single_use(Some(wallet2.clone()), mask2, None, |api, m| {
		their_invoice = api.issue_invoice_tx(
			m,
			IssueInvoiceTxArgs {
				amount: reward * 2,
				..Default::default()
			},
		)?;
		Ok(())
	})?;
	their_invoice.id = own_invoice.id;
	assert_ne!(
		their_invoice.participant_data[0].public_nonce,
		own_invoice.participant_data[0].public_nonce
	);

	// Wallet 1 pays wallet 2's invoice; the reply is handed to wallet 2
	let mut reply = Slate::blank(2, true);
	let mut res = Ok(());
	wallet::controller::owner_single_use(Some(wallet1.clone()), mask1, None, |api, m| {
		match api.process_invoice_tx(m, &their_invoice, pay_args(their_invoice.amount)) {
			Ok(s) => reply = s,
			Err(e) => res = Err(e),
		}
		Ok(())
	})?;

	stopper.store(false, Ordering::Relaxed);
	thread::sleep(Duration::from_millis(200));

	// refusing the invoice would be fine as well
	if let Err(e) = res {
		println!("invoice with the id of an own pending invoice refused: {}", e);
		return Ok(());
	}
	println!("reply handed to wallet 2: {}", reply);
	assert!(
		!offset_reveals_excess_key(&reply),
		"expected: the reply to an invoice does not contain the payer's secret blinding excess in \
		 recoverable form; but the offset of the reply wallet 1 hands to wallet 2 is the negated \
		 secret key of the public excess in the same reply ((-offset)*G == public_blind_excess)"
	);
	Ok(())
}

#[test]
fn c12_invoice_reply_offset_does_not_reveal_payer_key() -> Result<(), libwallet::Error> {
	let test_dir = "test_output/finding2";
	setup(test_dir);
	invoice_reply_impl(test_dir)?;
	clean_output_dir(test_dir);
	Ok(())
}

/// Same root cause, without any second party: a wallet paying its own invoice (as in the
/// 'self-sending' part of tests/invoice.rs). The I2 slate, which the command line wallet writes
/// to disk as a slatepack file, carries the negated secret excess key as its offset.
fn self_invoice_impl(test_dir: &'static str) -> Result<(), libwallet::Error> {
	let mut wallet_proxy = create_wallet_proxy(test_dir);
	let chain = wallet_proxy.chain.clone();
	let stopper = wallet_proxy.running.clone();

	create_wallet_and_add!(
		client1,
		wallet1,
		mask1_i,
		test_dir,
		"wallet1",
		None,
		&mut wallet_proxy,
		true
	);
	let mask1 = (&mask1_i).as_ref();

	thread::spawn(move || {
		if let Err(e) = wallet_proxy.run() {
			error!("Wallet Proxy error: {}", e);
		}
	});

	let reward = core::consensus::REWARD;
	let _ = test_framework::award_blocks_to_wallet(&chain, wallet1.clone(), mask1, 10, false);

	let mut slate = Slate::blank(2, true);
	wallet::controller::owner_single_use(Some(wallet1.clone()), mask1, None, |api, m| {
		slate = api.issue_invoice_tx(
			m,
			IssueInvoiceTxArgs {
				amount: reward * 2,
				..Default::default()
			},
		)?;
		let args = InitTxArgs {
			src_acct_name: None,
			amount: slate.amount,
			minimum_confirmations: 2,
			max_outputs: 500,
			num_change_outputs: 1,
			selection_strategy_is_use_all: true,
			..Default::default()
		};
		slate = api.process_invoice_tx(m, &slate, args)?;
		api.tx_lock_outputs(m, &slate)?;
		Ok(())
	})?;

	stopper.store(false, Ordering::Relaxed);
	thread::sleep(Duration::from_millis(200));

	println!("I2 slate of the self-paid invoice: {}", slate);
	assert!(
		!offset_reveals_excess_key(&slate),
		"expected: the I2 slate of a self-paid invoice does not contain the payer's secret \
		 blinding excess in recoverable form; but its offset is the negated secret key of its \
		 public excess ((-offset)*G == public_blind_excess)"
	);
	Ok(())
}

#[test]
fn c12_self_invoice_reply_offset_does_not_reveal_payer_key() -> Result<(), libwallet::Error> {
	let test_dir = "test_output/finding2_self";
	setup(test_dir);
	self_invoice_impl(test_dir)?;
	clean_output_dir(test_dir);
	Ok(())
}
