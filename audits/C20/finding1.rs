// Finding 1 (C20): the kernel step of a wallet refresh (`update_txs_via_kernel`) writes back a
// transaction log entry it read before a concurrent `cancel_tx` ran, overwriting the cancellation.
//
// Place this file at controller/tests/finding1.rs and run
//   cargo test -p grin_wallet_controller --test finding1 --offline -j 2 -- --nocapture
//
// The interleaving is produced deterministically and on one thread: the wallets are built on a
// node client that wraps the test framework's `LocalWalletClient` and, on a chosen node call that
// the refresh makes while it does NOT hold the wallet lock, first runs the "concurrent" operation
// to completion (exactly what another thread could do at that point) and then passes the call on.

#[macro_use]
extern crate log;
extern crate grin_wallet_api as api;
extern crate grin_wallet_controller as wallet;
extern crate grin_wallet_impls as impls;
extern crate grin_wallet_libwallet as libwallet;

use grin_core as core;
use grin_keychain as keychain;
use grin_util as util;

use self::core::core::{Transaction, TxKernel};
use self::core::global::{self, ChainTypes};
use self::keychain::ExtKeychain;
use self::util::secp::key::SecretKey;
use self::util::secp::pedersen;
use self::util::{Mutex, ZeroingString};
use impls::test_framework::{self, LocalWalletClient, WalletProxy};
use impls::{DefaultLCProvider, DefaultWalletImpl};
use libwallet::api_impl::owner;
use libwallet::{
	InitTxArgs, NodeClient, NodeVersionInfo, OutputStatus, TxLogEntryType, WalletInst,
};
use std::collections::HashMap;
use std::sync::atomic::Ordering;
use std::sync::Arc;
use std::thread;
use std::time::Duration;

// ---------------------------------------------------------------------------------------------
// A node client that can run an action right before a given node call
// ---------------------------------------------------------------------------------------------

struct Hook {
	/// node call that triggers the action
	method: &'static str,
	/// only trigger if this returns true (used: "the wallet lock is free")
	ready: Box<dyn Fn() -> bool + Send>,
	/// the concurrent operation(s)
	action: Box<dyn FnOnce() + Send>,
}

#[derive(Clone)]
struct HookClient {
	inner: LocalWalletClient,
	hook: Arc<Mutex<Option<Hook>>>,
}

impl HookClient {
	fn new(inner: LocalWalletClient) -> Self {
		HookClient {
			inner,
			hook: Arc::new(Mutex::new(None)),
		}
	}
	fn arm(
		&self,
		method: &'static str,
		ready: Box<dyn Fn() -> bool + Send>,
		action: Box<dyn FnOnce() + Send>,
	) {
		*self.hook.lock() = Some(Hook {
			method,
			ready,
			action,
		});
	}
	fn fire(&self, method: &str) {
		// one-shot: the hook is removed before its action runs, so node calls made by the
		// action itself go straight through
		let h = {
			let mut g = self.hook.lock();
			let hit = match g.as_ref() {
				Some(h) => h.method == method && (h.ready)(),
				None => false,
			};
			if hit {
				g.take()
			} else {
				None
			}
		};
		if let Some(h) = h {
			(h.action)();
		}
	}
}

impl NodeClient for HookClient {
	fn node_url(&self) -> &str {
		"node"
	}
	fn node_api_secret(&self) -> Option<String> {
		None
	}
	fn set_node_url(&mut self, _node_url: &str) {}
	fn set_node_api_secret(&mut self, _node_api_secret: Option<String>) {}
	fn get_version_info(&mut self) -> Option<NodeVersionInfo> {
		None
	}
	fn post_tx(&self, tx: &Transaction, fluff: bool) -> Result<(), libwallet::Error> {
		self.fire("post_tx");
		self.inner.post_tx(tx, fluff)
	}
	fn get_chain_tip(&self) -> Result<(u64, String), libwallet::Error> {
		self.fire("get_chain_tip");
		self.inner.get_chain_tip()
	}
	fn get_outputs_from_node(
		&self,
		wallet_outputs: Vec<pedersen::Commitment>,
	) -> Result<HashMap<pedersen::Commitment, (String, u64, u64)>, libwallet::Error> {
		self.fire("get_outputs_from_node");
		self.inner.get_outputs_from_node(wallet_outputs)
	}
	fn get_kernel(
		&mut self,
		excess: &pedersen::Commitment,
		min_height: Option<u64>,
		max_height: Option<u64>,
	) -> Result<Option<(TxKernel, u64, u64)>, libwallet::Error> {
		self.fire("get_kernel");
		self.inner.get_kernel(excess, min_height, max_height)
	}
	fn get_outputs_by_pmmr_index(
		&self,
		start_index: u64,
		end_index: Option<u64>,
		max_outputs: u64,
	) -> Result<
		(
			u64,
			u64,
			Vec<(pedersen::Commitment, pedersen::RangeProof, bool, u64, u64)>,
		),
		libwallet::Error,
	> {
		self.fire("get_outputs_by_pmmr_index");
		self.inner
			.get_outputs_by_pmmr_index(start_index, end_index, max_outputs)
	}
	fn height_range_to_pmmr_indices(
		&self,
		start_height: u64,
		end_height: Option<u64>,
	) -> Result<(u64, u64), libwallet::Error> {
		self.fire("height_range_to_pmmr_indices");
		self.inner
			.height_range_to_pmmr_indices(start_height, end_height)
	}
}

type TestWallet = Arc<
	Mutex<
		Box<
			dyn WalletInst<
				'static,
				DefaultLCProvider<'static, HookClient, ExtKeychain>,
				HookClient,
				ExtKeychain,
			>,
		>,
	>,
>;

fn create_wallet(test_dir: &str, name: &str, client: HookClient) -> (TestWallet, Option<SecretKey>) {
	let mut wallet = Box::new(DefaultWalletImpl::<HookClient>::new(client).unwrap())
		as Box<
			dyn WalletInst<
				DefaultLCProvider<'static, HookClient, ExtKeychain>,
				HookClient,
				ExtKeychain,
			>,
		>;
	let lc = wallet.lc_provider().unwrap();
	let _ = lc.set_top_level_directory(&format!("{}/{}", test_dir, name));
	lc.create_wallet(None, None, 32, ZeroingString::from(""), false)
		.unwrap();
	let mask = lc
		.open_wallet(None, ZeroingString::from(""), false, false)
		.unwrap();
	(Arc::new(Mutex::new(wallet)), mask)
}

fn clean_output_dir(test_dir: &str) {
	let path = std::path::Path::new(test_dir);
	if path.is_dir() {
		remove_dir_all::remove_dir_all(test_dir).unwrap();
	}
}

fn setup(test_dir: &str) {
	util::init_test_logger();
	clean_output_dir(test_dir);
	global::set_local_chain_type(ChainTypes::AutomatedTesting);
}

// ---------------------------------------------------------------------------------------------

fn refresh_clobbers_cancel_impl(
	test_dir: &'static str,
	interleave: bool,
) -> Result<(), libwallet::Error> {
	let mut wallet_proxy: WalletProxy<
		DefaultLCProvider<HookClient, ExtKeychain>,
		HookClient,
		ExtKeychain,
	> = WalletProxy::new(test_dir);
	let chain = wallet_proxy.chain.clone();
	let stopper = wallet_proxy.running.clone();

	let client1 = HookClient::new(LocalWalletClient::new("wallet1", wallet_proxy.tx.clone()));
	let (wallet1, mask1_i) = create_wallet(test_dir, "wallet1", client1.clone());
	wallet_proxy.add_wallet(
		"wallet1",
		client1.inner.get_send_instance(),
		wallet1.clone(),
		mask1_i.clone(),
	);
	let mask1 = (&mask1_i).as_ref();

	let client2 = HookClient::new(LocalWalletClient::new("wallet2", wallet_proxy.tx.clone()));
	let (wallet2, mask2_i) = create_wallet(test_dir, "wallet2", client2.clone());
	wallet_proxy.add_wallet(
		"wallet2",
		client2.inner.get_send_instance(),
		wallet2.clone(),
		mask2_i.clone(),
	);
	let mask2 = (&mask2_i).as_ref();

	thread::spawn(move || {
		if let Err(e) = wallet_proxy.run() {
			error!("Wallet Proxy error: {}", e);
		}
	});

	// wallet1 mines some funds
	test_framework::award_blocks_to_wallet(&chain, wallet1.clone(), mask1, 10, false)?;

	// wallet1 pays wallet2: initiate, receive (wallet2), reserve, finalize. The finalized
	// transaction is kept aside: it has been broadcast but is not in a block yet.
	let amount = 30_000_000_000;
	let api1 = api::Owner::new(wallet1.clone(), None);
	let args = InitTxArgs {
		src_acct_name: None,
		amount,
		minimum_confirmations: 2,
		max_outputs: 500,
		num_change_outputs: 1,
		selection_strategy_is_use_all: true,
		..Default::default()
	};
	let slate_i = api1.init_send_tx(mask1, args)?;
	let slate = client1.inner.send_tx_slate_direct("wallet2", &slate_i)?;
	api1.tx_lock_outputs(mask1, &slate)?;
	let slate = api1.finalize_tx(mask1, &slate)?;
	let final_tx = slate.tx_or_err()?.clone();

	// wallet2's record of the payment
	let (_, txs) = owner::retrieve_txs(
		wallet2.clone(),
		mask2,
		&None,
		false,
		None,
		Some(slate.id),
		None,
	)?;
	assert_eq!(txs.len(), 1);
	assert_eq!(txs[0].tx_type, TxLogEntryType::TxReceived);
	assert!(!txs[0].confirmed);
	let rx_id = txs[0].id;

	// The concurrent activity, run when wallet2's refresh asks the node for the chain tip at
	// the start of `update_txs_via_kernel` - after it has read the outstanding entries (step 2 of
	// `update_wallet_state`) and while it does not hold the wallet lock:
	//   1. owner operation: wallet2's user cancels the still unconfirmed receipt (Owner::cancel_tx)
	//   2. node event: a block containing the transaction is mined
	let cancel_result: Arc<Mutex<Option<Result<(), String>>>> = Arc::new(Mutex::new(None));
	{
		let w2_ready = wallet2.clone();
		let w2 = wallet2.clone();
		let m2 = mask2_i.clone();
		let w1 = wallet1.clone();
		let m1 = mask1_i.clone();
		let chain = chain.clone();
		let tx = final_tx.clone();
		let res = cancel_result.clone();
		let action: Box<dyn FnOnce() + Send> = Box::new(move || {
			let api2 = api::Owner::new(w2.clone(), None);
			let r = api2.cancel_tx(m2.as_ref(), Some(rx_id), None);
			*res.lock() = Some(r.map_err(|e| format!("{}", e)));
			test_framework::award_block_to_wallet(&chain, &[tx], w1, m1.as_ref()).unwrap();
		});
		if interleave {
			client2.arm(
				"get_chain_tip",
				Box::new(move || w2_ready.try_lock().is_some()),
				action,
			);
		} else {
			// control: the serial order cancel_tx, block, refresh
			action();
		}
	}

	// wallet2's refresh: this is the call the background updater thread makes
	// (`owner_updater::Updater::run`), and the one behind every `refresh_from_node`
	let refreshed = owner::update_wallet_state(wallet2.clone(), mask2, &None, false)?;
	assert!(refreshed);

	let cancel_result = cancel_result.lock().take();
	assert!(
		cancel_result.is_some(),
		"test setup: the concurrent operation did not run"
	);
	assert_eq!(
		cancel_result,
		Some(Ok(())),
		"test setup: the concurrent cancel_tx was expected to succeed (the transaction was not yet mined when it ran)"
	);

	// state after the interleaving
	let (_, txs) = owner::retrieve_txs(wallet2.clone(), mask2, &None, false, None, None, None)?;
	println!("wallet2 log after refresh || (cancel_tx, block mined):");
	for t in &txs {
		println!(
			"  id {} type {:?} confirmed {} credited {} slate {:?}",
			t.id, t.tx_type, t.confirmed, t.amount_credited, t.tx_slate_id
		);
	}
	let (_, outs) = owner::retrieve_outputs(wallet2.clone(), mask2, &None, true, false, None)?;
	for o in &outs {
		println!(
			"  output {} value {} status {} tx_log_entry {:?}",
			o.output.key_id, o.output.value, o.output.status, o.output.tx_log_entry
		);
	}
	let entry = txs.iter().find(|t| t.id == rx_id).unwrap();
	let confirmed_receipts = txs
		.iter()
		.filter(|t| {
			t.tx_type == TxLogEntryType::TxReceived && t.confirmed && t.amount_credited == amount
		})
		.count();
	let unspent: u64 = outs
		.iter()
		.filter(|o| o.output.status == OutputStatus::Unspent)
		.map(|o| o.output.value)
		.sum();

	stopper.store(false, Ordering::Relaxed);
	thread::sleep(Duration::from_millis(200));

	// cancel_tx completed (returned Ok) while the refresh was running. In every serial order of
	// {refresh, cancel_tx, block} in which cancel_tx succeeds, the entry it cancelled stays
	// TxReceivedCancelled (a refresh that runs after the block restores the output under a NEW
	// entry; it never touches a cancelled entry).
	assert_eq!(
		entry.tx_type,
		TxLogEntryType::TxReceivedCancelled,
		"wallet2's entry {} was cancelled by a cancel_tx that completed (Ok) during the refresh; expected it to \
		 remain TxReceivedCancelled, but the refresh wrote back the copy it had read before the cancellation \
		 (type {:?}, confirmed {}). The log now shows {} confirmed receipts of {} for a single payment \
		 (unspent outputs total {})",
		rx_id,
		entry.tx_type,
		entry.confirmed,
		confirmed_receipts,
		amount,
		unspent
	);
	Ok(())
}

#[test]
fn refresh_clobbers_cancel() {
	let test_dir = "test_output/c20_finding1";
	setup(test_dir);
	if let Err(e) = refresh_clobbers_cancel_impl(test_dir, true) {
		panic!("Libwallet Error: {}", e);
	}
	clean_output_dir(test_dir);
}

/// Control (passes): the same operations and the same assertions, one after the other
#[test]
fn serial_order_control() {
	let test_dir = "test_output/c20_finding1_control";
	setup(test_dir);
	if let Err(e) = refresh_clobbers_cancel_impl(test_dir, false) {
		panic!("Libwallet Error: {}", e);
	}
	clean_output_dir(test_dir);
}
