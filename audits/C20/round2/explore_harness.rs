// Exploration harness (not a deliverable): enumerates interleavings of one refresh/scan with
// concurrent operations, at the granularity of wallet-lock acquisitions (verif_hooks feature) and
// lock-free node calls, and compares the resulting wallet state with the serial orders.

#[macro_use]
extern crate log;
extern crate grin_wallet_api as api;
extern crate grin_wallet_controller as wallet;
extern crate grin_wallet_impls as impls;
extern crate grin_wallet_libwallet as libwallet;

use grin_core as core;
use grin_keychain as keychain;
use grin_util as util;

use self::core::core::{Transaction, TxKernel};
use self::core::global::{self, ChainTypes};
use self::keychain::ExtKeychain;
use self::util::secp::key::SecretKey;
use self::util::secp::pedersen;
use self::util::{Mutex, ZeroingString};
use impls::test_framework::{self, LocalWalletClient, WalletProxy};
use impls::{DefaultLCProvider, DefaultWalletImpl};
use libwallet::api_impl::owner;
use libwallet::{
	InitTxArgs, IssueInvoiceTxArgs, NodeClient, NodeVersionInfo, OutputData, Slate, TxLogEntry,
	WalletInst,
};
use std::collections::{BTreeSet, HashMap};
use std::sync::atomic::{AtomicBool, AtomicUsize, Ordering};
use std::sync::Arc;
use std::thread;
use std::time::Duration;

// ------------------------------------------------------------------------------------------
// controller of hook events
// ------------------------------------------------------------------------------------------

type Act = Box<dyn FnOnce() + Send>;

struct CtlInner {
	armed: AtomicBool,
	busy: AtomicBool,
	counter: AtomicUsize,
	trace: Mutex<Vec<String>>,
	plan: Mutex<HashMap<usize, Vec<Act>>>,
	ready: Mutex<Option<Box<dyn Fn() -> bool + Send>>>,
}

#[derive(Clone)]
struct Ctl(Arc<CtlInner>);

impl Ctl {
	fn new() -> Self {
		Ctl(Arc::new(CtlInner {
			armed: AtomicBool::new(false),
			busy: AtomicBool::new(false),
			counter: AtomicUsize::new(0),
			trace: Mutex::new(vec![]),
			plan: Mutex::new(HashMap::new()),
			ready: Mutex::new(None),
		}))
	}
	fn event(&self, label: String, node_call: bool) {
		if !self.0.armed.load(Ordering::SeqCst) || self.0.busy.load(Ordering::SeqCst) {
			return;
		}
		if node_call {
			let ok = match self.0.ready.lock().as_ref() {
				Some(r) => r(),
				None => false,
			};
			if !ok {
				return;
			}
		}
		let k = self.0.counter.fetch_add(1, Ordering::SeqCst);
		self.0.trace.lock().push(label);
		let acts = self.0.plan.lock().remove(&k);
		if let Some(acts) = acts {
			self.0.busy.store(true, Ordering::SeqCst);
			for a in acts {
				a();
			}
			self.0.busy.store(false, Ordering::SeqCst);
		}
	}
}

#[derive(Clone)]
struct HookClient {
	inner: LocalWalletClient,
	ctl: Ctl,
	watch: Arc<AtomicBool>,
}

impl HookClient {
	fn fire(&self, m: &str) {
		if self.watch.load(Ordering::SeqCst) {
			self.ctl.event(format!("node {}", m), true);
		}
	}
}

impl NodeClient for HookClient {
	fn node_url(&self) -> &str {
		"node"
	}
	fn node_api_secret(&self) -> Option<String> {
		None
	}
	fn set_node_url(&mut self, _node_url: &str) {}
	fn set_node_api_secret(&mut self, _node_api_secret: Option<String>) {}
	fn get_version_info(&mut self) -> Option<NodeVersionInfo> {
		None
	}
	fn post_tx(&self, tx: &Transaction, fluff: bool) -> Result<(), libwallet::Error> {
		self.inner.post_tx(tx, fluff)
	}
	fn get_chain_tip(&self) -> Result<(u64, String), libwallet::Error> {
		self.fire("get_chain_tip");
		self.inner.get_chain_tip()
	}
	fn get_outputs_from_node(
		&self,
		wallet_outputs: Vec<pedersen::Commitment>,
	) -> Result<HashMap<pedersen::Commitment, (String, u64, u64)>, libwallet::Error> {
		self.fire("get_outputs_from_node");
		self.inner.get_outputs_from_node(wallet_outputs)
	}
	fn get_kernel(
		&mut self,
		excess: &pedersen::Commitment,
		min_height: Option<u64>,
		max_height: Option<u64>,
	) -> Result<Option<(TxKernel, u64, u64)>, libwallet::Error> {
		self.fire("get_kernel");
		self.inner.get_kernel(excess, min_height, max_height)
	}
	fn get_outputs_by_pmmr_index(
		&self,
		start_index: u64,
		end_index: Option<u64>,
		max_outputs: u64,
	) -> Result<
		(
			u64,
			u64,
			Vec<(pedersen::Commitment, pedersen::RangeProof, bool, u64, u64)>,
		),
		libwallet::Error,
	> {
		self.fire("get_outputs_by_pmmr_index");
		self.inner
			.get_outputs_by_pmmr_index(start_index, end_index, max_outputs)
	}
	fn height_range_to_pmmr_indices(
		&self,
		start_height: u64,
		end_height: Option<u64>,
	) -> Result<(u64, u64), libwallet::Error> {
		self.fire("height_range_to_pmmr_indices");
		self.inner
			.height_range_to_pmmr_indices(start_height, end_height)
	}
}

type TestWallet = Arc<
	Mutex<
		Box<
			dyn WalletInst<
				'static,
				DefaultLCProvider<'static, HookClient, ExtKeychain>,
				HookClient,
				ExtKeychain,
			>,
		>,
	>,
>;

fn create_wallet(test_dir: &str, name: &str, client: HookClient) -> (TestWallet, Option<SecretKey>) {
	let mut wallet = Box::new(DefaultWalletImpl::<HookClient>::new(client).unwrap())
		as Box<
			dyn WalletInst<
				DefaultLCProvider<'static, HookClient, ExtKeychain>,
				HookClient,
				ExtKeychain,
			>,
		>;
	let lc = wallet.lc_provider().unwrap();
	let _ = lc.set_top_level_directory(&format!("{}/{}", test_dir, name));
	lc.create_wallet(None, None, 32, ZeroingString::from(""), false)
		.unwrap();
	let mask = lc
		.open_wallet(None, ZeroingString::from(""), false, false)
		.unwrap();
	(Arc::new(Mutex::new(wallet)), mask)
}

fn clean_output_dir(test_dir: &str) {
	let path = std::path::Path::new(test_dir);
	if path.is_dir() {
		remove_dir_all::remove_dir_all(test_dir).unwrap();
	}
}

// ------------------------------------------------------------------------------------------
// environment
// ------------------------------------------------------------------------------------------

#[derive(Clone)]
struct Env {
	chain: Arc<grin_chain::Chain>,
	w1: TestWallet,
	m1: Option<SecretKey>,
	c1: HookClient,
	w2: TestWallet,
	m2: Option<SecretKey>,
	c2: HookClient,
	stopper: Arc<AtomicBool>,
	store: Arc<Mutex<HashMap<String, Slate>>>,
	ctl: Ctl,
}

fn make_env(test_dir: &str) -> Env {
	clean_output_dir(test_dir);
	let ctl = Ctl::new();
	let mut wallet_proxy: WalletProxy<
		DefaultLCProvider<HookClient, ExtKeychain>,
		HookClient,
		ExtKeychain,
	> = WalletProxy::new(test_dir);
	let chain = wallet_proxy.chain.clone();
	let stopper = wallet_proxy.running.clone();

	let c1 = HookClient {
		inner: LocalWalletClient::new("wallet1", wallet_proxy.tx.clone()),
		ctl: ctl.clone(),
		watch: Arc::new(AtomicBool::new(false)),
	};
	let (w1, m1) = create_wallet(test_dir, "wallet1", c1.clone());
	wallet_proxy.add_wallet("wallet1", c1.inner.get_send_instance(), w1.clone(), m1.clone());

	let c2 = HookClient {
		inner: LocalWalletClient::new("wallet2", wallet_proxy.tx.clone()),
		ctl: ctl.clone(),
		watch: Arc::new(AtomicBool::new(false)),
	};
	let (w2, m2) = create_wallet(test_dir, "wallet2", c2.clone());
	wallet_proxy.add_wallet("wallet2", c2.inner.get_send_instance(), w2.clone(), m2.clone());

	thread::spawn(move || {
		if let Err(e) = wallet_proxy.run() {
			error!("Wallet Proxy error: {}", e);
		}
	});
	Env {
		chain,
		w1,
		m1,
		c1,
		w2,
		m2,
		c2,
		stopper,
		store: Arc::new(Mutex::new(HashMap::new())),
		ctl,
	}
}

impl Env {
	fn stop(&self) {
		self.stopper.store(false, Ordering::Relaxed);
		thread::sleep(Duration::from_millis(150));
	}
	fn put(&self, k: &str, s: &Slate) {
		self.store.lock().insert(k.to_owned(), s.clone());
	}
	fn get(&self, k: &str) -> Slate {
		self.store.lock().get(k).unwrap().clone()
	}
	fn mine1(&self, n: usize) {
		test_framework::award_blocks_to_wallet(&self.chain, self.w1.clone(), self.m1.as_ref(), n, false)
			.unwrap();
	}
	fn mine2(&self, n: usize) {
		test_framework::award_blocks_to_wallet(&self.chain, self.w2.clone(), self.m2.as_ref(), n, false)
			.unwrap();
	}
	/// mine a block holding the (finalized) tx of slate `k`; reward goes to wallet `to`
	fn mine_tx(&self, k: &str, to: u8) -> String {
		let s = match self.store.lock().get(&format!("{}_final", k)) {
			Some(s) => s.clone(),
			None => return "Err(not finalized)".to_owned(),
		};
		let tx = match s.tx_or_err() {
			Ok(t) => t.clone(),
			Err(e) => return format!("Err({})", e),
		};
		let r = if to == 1 {
			test_framework::award_block_to_wallet(&self.chain, &[tx], self.w1.clone(), self.m1.as_ref())
		} else {
			test_framework::award_block_to_wallet(&self.chain, &[tx], self.w2.clone(), self.m2.as_ref())
		};
		match r {
			Ok(_) => "Ok".to_owned(),
			Err(e) => format!("Err({})", e),
		}
	}
	fn init1(&self, k: &str, args: InitTxArgs) -> String {
		let a = api::Owner::new(self.w1.clone(), None);
		match a.init_send_tx(self.m1.as_ref(), args) {
			Ok(s) => {
				self.put(k, &s);
				"Ok".to_owned()
			}
			Err(e) => format!("Err({})", e),
		}
	}
	/// wallet2 receives slate k (from wallet1), result stored under k
	fn recv2(&self, k: &str) -> String {
		let s = self.get(k);
		match self.c1.inner.send_tx_slate_direct("wallet2", &s) {
			Ok(s) => {
				self.put(k, &s);
				"Ok".to_owned()
			}
			Err(e) => format!("Err({})", e),
		}
	}
	fn lock1(&self, k: &str) -> String {
		let a = api::Owner::new(self.w1.clone(), None);
		match a.tx_lock_outputs(self.m1.as_ref(), &self.get(k)) {
			Ok(_) => "Ok".to_owned(),
			Err(e) => format!("Err({})", e),
		}
	}
	fn finalize1(&self, k: &str) -> String {
		let a = api::Owner::new(self.w1.clone(), None);
		match a.finalize_tx(self.m1.as_ref(), &self.get(k)) {
			Ok(s) => {
				self.put(k, &s);
				self.put(&format!("{}_final", k), &s);
				"Ok".to_owned()
			}
			Err(e) => format!("Err({})", e),
		}
	}
	fn w(&self, who: u8) -> (TestWallet, Option<SecretKey>) {
		if who == 1 {
			(self.w1.clone(), self.m1.clone())
		} else {
			(self.w2.clone(), self.m2.clone())
		}
	}
	fn init(&self, who: u8, k: &str, args: InitTxArgs) -> String {
		let (w, m) = self.w(who);
		match api::Owner::new(w, None).init_send_tx(m.as_ref(), args) {
			Ok(s) => {
				self.put(k, &s);
				"Ok".to_owned()
			}
			Err(e) => format!("Err({})", e),
		}
	}
	fn recv(&self, who: u8, k: &str, acct: Option<&str>) -> String {
		let (w, m) = self.w(who);
		match api::Foreign::new(w, m, None, false).receive_tx(&self.get(k), acct, None) {
			Ok(s) => {
				self.put(k, &s);
				"Ok".to_owned()
			}
			Err(e) => format!("Err({})", e),
		}
	}
	fn lock(&self, who: u8, k: &str) -> String {
		let (w, m) = self.w(who);
		match api::Owner::new(w, None).tx_lock_outputs(m.as_ref(), &self.get(k)) {
			Ok(_) => "Ok".to_owned(),
			Err(e) => format!("Err({})", e),
		}
	}
	fn finalize(&self, who: u8, k: &str) -> String {
		let (w, m) = self.w(who);
		match api::Owner::new(w, None).finalize_tx(m.as_ref(), &self.get(k)) {
			Ok(s) => {
				self.put(k, &s);
				self.put(&format!("{}_final", k), &s);
				"Ok".to_owned()
			}
			Err(e) => format!("Err({})", e),
		}
	}
	fn invoice(&self, who: u8, k: &str, amount: u64) -> String {
		let (w, m) = self.w(who);
		let args = IssueInvoiceTxArgs {
			amount,
			..Default::default()
		};
		match api::Owner::new(w, None).issue_invoice_tx(m.as_ref(), args) {
			Ok(s) => {
				self.put(k, &s);
				"Ok".to_owned()
			}
			Err(e) => format!("Err({})", e),
		}
	}
	fn process_invoice(&self, who: u8, k: &str, args: InitTxArgs) -> String {
		let (w, m) = self.w(who);
		match api::Owner::new(w, None).process_invoice_tx(m.as_ref(), &self.get(k), args) {
			Ok(s) => {
				self.put(k, &s);
				"Ok".to_owned()
			}
			Err(e) => format!("Err({})", e),
		}
	}
	fn cancel_target(&self, who: u8, k: &str) -> String {
		let id = self.get(k).id;
		let (w, m) = self.w(who);
		match owner::cancel_tx(w, m.as_ref(), &None, None, Some(id)) {
			Ok(_) => "Ok".to_owned(),
			Err(e) => format!("Err({})", e),
		}
	}
	fn cancel(&self, who: u8, k: &str) -> String {
		let id = self.get(k).id;
		let r = if who == 1 {
			api::Owner::new(self.w1.clone(), None).cancel_tx(self.m1.as_ref(), None, Some(id))
		} else {
			api::Owner::new(self.w2.clone(), None).cancel_tx(self.m2.as_ref(), None, Some(id))
		};
		match r {
			Ok(_) => "Ok".to_owned(),
			Err(e) => format!("Err({})", e),
		}
	}
	fn refresh(&self, who: u8) -> String {
		let r = if who == 1 {
			owner::update_wallet_state(self.w1.clone(), self.m1.as_ref(), &None, false)
		} else {
			owner::update_wallet_state(self.w2.clone(), self.m2.as_ref(), &None, false)
		};
		match r {
			Ok(b) => format!("Ok({})", b),
			Err(e) => format!("Err({})", e),
		}
	}
	fn scan(&self, who: u8, del: bool) -> String {
		let r = if who == 1 {
			owner::scan(self.w1.clone(), self.m1.as_ref(), None, del, &None)
		} else {
			owner::scan(self.w2.clone(), self.m2.as_ref(), None, del, &None)
		};
		match r {
			Ok(_) => "Ok".to_owned(),
			Err(e) => format!("Err({})", e),
		}
	}
}

fn std_args(amount: u64) -> InitTxArgs {
	InitTxArgs {
		src_acct_name: None,
		amount,
		minimum_confirmations: 2,
		max_outputs: 500,
		num_change_outputs: 1,
		selection_strategy_is_use_all: true,
		..Default::default()
	}
}

fn digest(wallet: &TestWallet, with_heights: bool) -> Vec<String> {
	let mut w_lock = wallet.lock();
	let w = w_lock.lc_provider().unwrap().wallet_inst().unwrap();
	let mut lines = vec![];
	let mut txs: Vec<TxLogEntry> = w.tx_log_iter().collect();
	txs.sort_by_key(|t| (t.parent_key_id.to_bip_32_string(), t.id));
	let all_txs = txs.clone();
	for t in txs {
		let proof = match t.payment_proof.as_ref() {
			Some(p) => format!(
				"proof(r={},s={})",
				p.receiver_signature.is_some(),
				p.sender_signature.is_some()
			),
			None => "noproof".to_owned(),
		};
		lines.push(format!(
			"tx {} #{} {:?} conf={} cred={} deb={} nin={} nout={} ttl={:?} kern={} {} slate={}",
			t.parent_key_id.to_bip_32_string(),
			if t.tx_type == libwallet::TxLogEntryType::ConfirmedCoinbase {
				"cb".to_owned()
			} else {
				format!("{}", t.id)
			},
			t.tx_type,
			t.confirmed,
			t.amount_credited,
			t.amount_debited,
			t.num_inputs,
			t.num_outputs,
			t.ttl_cutoff_height,
			t.kernel_excess.is_some(),
			proof,
			t.tx_slate_id.is_some(),
		));
	}
	let mut outs: Vec<OutputData> = w.iter().collect();
	outs.sort_by_key(|o| (o.root_key_id.to_bip_32_string(), o.n_child, o.mmr_index));
	for o in outs {
		let tle = match o.tx_log_entry {
			None => "none".to_owned(),
			Some(id) => match all_txs
				.iter()
				.find(|t| t.id == id && t.parent_key_id == o.root_key_id)
			{
				None => format!("#{}:missing", id),
				Some(t) if t.tx_type == libwallet::TxLogEntryType::ConfirmedCoinbase => {
					"cb-entry".to_owned()
				}
				Some(t) => format!("#{}:{:?}", id, t.tx_type),
			},
		};
		lines.push(format!(
			"out {} n{} v={} {} tle={} cb={} mmr={}{}",
			o.root_key_id.to_bip_32_string(),
			o.n_child,
			o.value,
			o.status,
			tle,
			o.is_coinbase,
			o.mmr_index.is_some(),
			if with_heights {
				format!(" h={}", o.height)
			} else {
				"".to_owned()
			}
		));
	}
	let accts: Vec<_> = w.acct_path_iter().collect();
	for a in accts {
		let idx = w.current_child_index(&a.path).unwrap();
		lines.push(format!("acct {} {} next={}", a.label, a.path.to_bip_32_string(), idx));
	}
	lines.sort();
	lines
}

// ------------------------------------------------------------------------------------------
// scenarios
// ------------------------------------------------------------------------------------------

type Op = Arc<dyn Fn(&Env) -> String + Send + Sync>;

#[derive(Clone, Copy, Debug)]
enum Target {
	Refresh(u8),
	Scan(u8, bool),
	Cancel(u8, &'static str),
}

struct Scenario {
	name: &'static str,
	prepare: Box<dyn Fn(&Env)>,
	ops: Vec<(&'static str, Op)>,
	target: Target,
}

enum Placement {
	/// target runs after the first p ops
	Serial(usize),
	/// op i runs at event index v[i]
	At(Vec<usize>),
}

struct Outcome {
	results: Vec<String>,
	state: Vec<String>,
	final_state: Vec<String>,
	trace: Vec<String>,
	all_fired: bool,
}

fn run_once(dir: &str, sc: &Scenario, pl: &Placement) -> Outcome {
	let env = make_env(dir);
	(sc.prepare)(&env);
	let results: Arc<Mutex<Vec<String>>> = Arc::new(Mutex::new(vec![String::new(); sc.ops.len()]));
	let who = match sc.target {
		Target::Refresh(w) => w,
		Target::Scan(w, _) => w,
		Target::Cancel(w, _) => w,
	};
	let run_target = |env: &Env| -> String {
		match sc.target {
			Target::Refresh(w) => env.refresh(w),
			Target::Scan(w, d) => env.scan(w, d),
			Target::Cancel(w, k) => env.cancel_target(w, k),
		}
	};
	let mut trace = vec![];
	let mut all_fired = true;
	let tres;
	match pl {
		Placement::Serial(p) => {
			for i in 0..*p {
				let r = (sc.ops[i].1)(&env);
				results.lock()[i] = r;
			}
			tres = run_target(&env);
			for i in *p..sc.ops.len() {
				let r = (sc.ops[i].1)(&env);
				results.lock()[i] = r;
			}
		}
		Placement::At(v) => {
			// arm
			{
				let mut plan = env.ctl.0.plan.lock();
				for (i, at) in v.iter().enumerate() {
					let op = sc.ops[i].1.clone();
					let e = env.clone();
					let res = results.clone();
					let act: Act = Box::new(move || {
						let r = op(&e);
						res.lock()[i] = r;
					});
					plan.entry(*at).or_insert_with(Vec::new).push(act);
				}
			}
			let wt = if who == 1 { env.w1.clone() } else { env.w2.clone() };
			*env.ctl.0.ready.lock() = Some(Box::new(move || wt.try_lock().is_some()));
			if who == 1 {
				env.c1.watch.store(true, Ordering::SeqCst);
			} else {
				env.c2.watch.store(true, Ordering::SeqCst);
			}
			let ctl = env.ctl.clone();
			libwallet::verif::set_lock_hook(Some(Arc::new(move |file, line| {
				let f = file.rsplit('/').next().unwrap_or(file);
				ctl.event(format!("lock {}:{}", f, line), false);
			})));
			env.ctl.0.armed.store(true, Ordering::SeqCst);
			tres = run_target(&env);
			env.ctl.0.armed.store(false, Ordering::SeqCst);
			libwallet::verif::set_lock_hook(None);
			env.c1.watch.store(false, Ordering::SeqCst);
			env.c2.watch.store(false, Ordering::SeqCst);
			*env.ctl.0.ready.lock() = None;
			trace = env.ctl.0.trace.lock().clone();
			if !env.ctl.0.plan.lock().is_empty() {
				all_fired = false;
			}
			env.ctl.0.plan.lock().clear();
		}
	}
	let wt = if who == 1 { env.w1.clone() } else { env.w2.clone() };
	let mut res = results.lock().clone();
	res.push(format!("target: {}", tres));
	let state = digest(&wt, false);
	// quiescent follow-up
	let _ = env.refresh(who);
	let final_state = digest(&wt, false);
	env.stop();
	Outcome {
		results: res,
		state,
		final_state,
		trace,
		all_fired,
	}
}

fn scrub(s: &str) -> String {
	// blank out uuids (8-4-4-4-12 hex)
	let b: Vec<char> = s.chars().collect();
	let mut out = String::new();
	let mut i = 0;
	let is_uuid_at = |i: usize| -> bool {
		if i + 36 > b.len() {
			return false;
		}
		for j in 0..36 {
			let c = b[i + j];
			if j == 8 || j == 13 || j == 18 || j == 23 {
				if c != '-' {
					return false;
				}
			} else if !c.is_ascii_hexdigit() {
				return false;
			}
		}
		true
	};
	while i < b.len() {
		if is_uuid_at(i) {
			out.push_str("<uuid>");
			i += 36;
		} else {
			out.push(b[i]);
			i += 1;
		}
	}
	out
}

fn key(o: &Outcome, fin: bool) -> String {
	let mut s = scrub(&o.results.join(" | "));
	s.push_str("\n");
	if fin {
		s.push_str(&o.final_state.join("\n"));
	} else {
		s.push_str(&o.state.join("\n"));
	}
	s
}

fn explore(sc: &Scenario, pairs: bool) -> usize {
	let base = format!("test_output/c20_explore/{}", sc.name);
	println!("=== scenario {} target {:?}", sc.name, sc.target);
	let n_ops = sc.ops.len();
	let mut serial = vec![];
	let mut serial_keys = BTreeSet::new();
	let mut serial_final_keys = BTreeSet::new();
	for p in 0..=n_ops {
		let o = run_once(&format!("{}/s{}", base, p), sc, &Placement::Serial(p));
		println!("--- serial placement {} results {:?}", p, o.results);
		for l in &o.state {
			println!("    {}", l);
		}
		serial_keys.insert(key(&o, false));
		serial_final_keys.insert(key(&o, true));
		serial.push(o);
	}
	// dry run for the trace
	let dry = run_once(&format!("{}/dry", base), sc, &Placement::At(vec![]));
	// (no ops planned: results empty strings)
	println!("--- trace ({} events):", dry.trace.len());
	for (i, t) in dry.trace.iter().enumerate() {
		println!("    {:2} {}", i, t);
	}
	let n = dry.trace.len();
	let mut mismatches = 0;
	let mut placements: Vec<Vec<usize>> = vec![];
	for e in 0..n {
		placements.push(vec![e; n_ops]);
	}
	if pairs && n_ops >= 2 {
		for e1 in 0..n {
			for e2 in (e1 + 1)..n {
				// first op at e1, the rest at e2
				let mut v = vec![e2; n_ops];
				v[0] = e1;
				placements.push(v.clone());
				if n_ops >= 3 {
					let mut v = vec![e1; n_ops];
					v[n_ops - 1] = e2;
					placements.push(v);
				}
			}
		}
	}
	for (idx, v) in placements.iter().enumerate() {
		let o = run_once(&format!("{}/i{}", base, idx), sc, &Placement::At(v.clone()));
		if !o.all_fired {
			println!("--- at {:?}: not all ops fired (trace len {})", v, o.trace.len());
			continue;
		}
		let k = key(&o, false);
		let kf = key(&o, true);
		let m1 = serial_keys.contains(&k);
		let m2 = serial_final_keys.contains(&kf);
		if m1 && m2 {
			println!("--- at {:?}: ok {:?}", v, o.results);
		} else {
			mismatches += 1;
			println!(
				"--- at {:?}: MISMATCH (immediate match {}, final match {}) results {:?}",
				v, m1, m2, o.results
			);
			println!("    trace:");
			for (i, t) in o.trace.iter().enumerate() {
				println!("      {:2} {}", i, t);
			}
			println!("    state:");
			for l in &o.state {
				println!("      {}", l);
			}
			if !m2 {
				println!("    final state:");
				for l in &o.final_state {
					println!("      {}", l);
				}
			}
		}
	}
	println!("=== scenario {}: {} mismatches", sc.name, mismatches);
	mismatches
}

fn op(f: impl Fn(&Env) -> String + Send + Sync + 'static) -> Op {
	Arc::new(f)
}

fn pending_send(e: &Env, k: &str, amount: u64, ttl: Option<u64>) {
	let mut a = std_args(amount);
	a.ttl_blocks = ttl;
	assert_eq!(e.init1(k, a), "Ok");
	assert_eq!(e.recv2(k), "Ok");
	assert_eq!(e.lock1(k), "Ok");
}

fn scenarios() -> Vec<Scenario> {
	let amount = 30_000_000_000u64;
	let mut v = vec![];
	// A: sender refresh || finalize, block
	v.push(Scenario {
		name: "A_sender_finalize_mine",
		prepare: Box::new(move |e| {
			e.mine1(10);
			pending_send(e, "a", amount, None);
		}),
		ops: vec![
			("finalize", op(|e| e.finalize1("a"))),
			("mine_tx", op(|e| e.mine_tx("a", 2))),
		],
		target: Target::Refresh(1),
	});
	// C: sender refresh || cancel
	v.push(Scenario {
		name: "C_sender_cancel",
		prepare: Box::new(move |e| {
			e.mine1(10);
			pending_send(e, "a", amount, None);
		}),
		ops: vec![("cancel", op(|e| e.cancel(1, "a")))],
		target: Target::Refresh(1),
	});
	// D: sender refresh || cancel A, new send B
	v.push(Scenario {
		name: "D_sender_cancel_resend",
		prepare: Box::new(move |e| {
			e.mine1(10);
			pending_send(e, "a", amount, None);
		}),
		ops: vec![
			("cancel", op(|e| e.cancel(1, "a"))),
			(
				"sendB",
				op(move |e| {
					let r = e.init1("b", std_args(amount));
					if r != "Ok" {
						return r;
					}
					let r = e.recv2("b");
					if r != "Ok" {
						return r;
					}
					e.lock1("b")
				}),
			),
		],
		target: Target::Refresh(1),
	});
	// E: receiver refresh || sender finalize, block
	v.push(Scenario {
		name: "E_receiver_finalize_mine",
		prepare: Box::new(move |e| {
			e.mine1(10);
			pending_send(e, "a", amount, None);
		}),
		ops: vec![
			("finalize", op(|e| e.finalize1("a"))),
			("mine_tx", op(|e| e.mine_tx("a", 1))),
		],
		target: Target::Refresh(2),
	});
	// F: receiver refresh || receiver cancel, block with the tx
	v.push(Scenario {
		name: "F_receiver_cancel_mine",
		prepare: Box::new(move |e| {
			e.mine1(10);
			pending_send(e, "a", amount, None);
			assert_eq!(e.finalize1("a"), "Ok");
		}),
		ops: vec![
			("cancel2", op(|e| e.cancel(2, "a"))),
			("mine_tx", op(|e| e.mine_tx("a", 1))),
		],
		target: Target::Refresh(2),
	});
	// I: TTL sender: refresh || finalize, block reaching the cut-off
	v.push(Scenario {
		name: "I_ttl_finalize_mine",
		prepare: Box::new(move |e| {
			e.mine1(10);
			pending_send(e, "a", amount, Some(2));
			e.mine2(1);
		}),
		ops: vec![
			("finalize", op(|e| e.finalize1("a"))),
			("mine_tx", op(|e| e.mine_tx("a", 2))),
		],
		target: Target::Refresh(1),
	});
	// J: scan(delete_unconfirmed) || finalize, block
	v.push(Scenario {
		name: "J_scan_del_finalize_mine",
		prepare: Box::new(move |e| {
			e.mine1(10);
			pending_send(e, "a", amount, None);
		}),
		ops: vec![
			("finalize", op(|e| e.finalize1("a"))),
			("mine_tx", op(|e| e.mine_tx("a", 2))),
		],
		target: Target::Scan(1, true),
	});
	// K: scan(delete_unconfirmed) || cancel A, send B
	v.push(Scenario {
		name: "K_scan_del_cancel_resend",
		prepare: Box::new(move |e| {
			e.mine1(10);
			pending_send(e, "a", amount, None);
		}),
		ops: vec![
			("cancel", op(|e| e.cancel(1, "a"))),
			(
				"sendB",
				op(move |e| {
					let r = e.init1("b", std_args(amount));
					if r != "Ok" {
						return r;
					}
					let r = e.recv2("b");
					if r != "Ok" {
						return r;
					}
					e.lock1("b")
				}),
			),
		],
		target: Target::Scan(1, true),
	});
	// L: receiver restore path: receiver cancelled, tx mined; refresh || a new receive
	v.push(Scenario {
		name: "L_receiver_restore_new_receive",
		prepare: Box::new(move |e| {
			e.mine1(10);
			pending_send(e, "a", amount, None);
			assert_eq!(e.finalize1("a"), "Ok");
			assert_eq!(e.cancel(2, "a"), "Ok");
			assert_eq!(e.mine_tx("a", 1), "Ok");
			e.mine1(3);
		}),
		ops: vec![(
			"sendB",
			op(move |e| {
				let mut a = std_args(amount);
				a.selection_strategy_is_use_all = false;
				let r = e.init1("b", a);
				if r != "Ok" {
					return r;
				}
				e.recv2("b")
			}),
		)],
		target: Target::Refresh(2),
	});
	// M: no-change send: refresh || block with it
	v.push(Scenario {
		name: "M_nochange_cancel_mine",
		prepare: Box::new(move |e| {
			e.mine1(10);
			let reward = core::consensus::REWARD;
			let fee = core::libtx::tx_fee(1, 1, 1);
			let mut a = std_args(reward - fee);
			a.selection_strategy_is_use_all = false;
			assert_eq!(e.init1("a", a), "Ok");
			assert_eq!(e.recv2("a"), "Ok");
			assert_eq!(e.lock1("a"), "Ok");
			assert_eq!(e.finalize1("a"), "Ok");
		}),
		ops: vec![
			("cancel", op(|e| e.cancel(1, "a"))),
			("mine_tx", op(|e| e.mine_tx("a", 2))),
		],
		target: Target::Refresh(1),
	});

	// A2: as A, but the block's reward goes to the refreshing wallet itself (build_coinbase)
	v.push(Scenario {
		name: "A2_sender_finalize_mine_self",
		prepare: Box::new(move |e| {
			e.mine1(10);
			pending_send(e, "a", amount, None);
		}),
		ops: vec![
			("finalize", op(|e| e.finalize1("a"))),
			("mine_tx", op(|e| e.mine_tx("a", 1))),
		],
		target: Target::Refresh(1),
	});
	// N: self-send
	v.push(Scenario {
		name: "N_self_send",
		prepare: Box::new(move |e| {
			e.mine1(10);
			assert_eq!(e.init1("a", std_args(amount)), "Ok");
			assert_eq!(e.recv(1, "a", None), "Ok");
			assert_eq!(e.lock1("a"), "Ok");
		}),
		ops: vec![
			("finalize", op(|e| e.finalize1("a"))),
			("mine_tx", op(|e| e.mine_tx("a", 2))),
		],
		target: Target::Refresh(1),
	});
	// O: invoice, payer refreshes || payee finalizes, block
	v.push(Scenario {
		name: "O_invoice_payer",
		prepare: Box::new(move |e| {
			e.mine1(10);
			assert_eq!(e.invoice(2, "a", amount), "Ok");
			assert_eq!(e.process_invoice(1, "a", std_args(0)), "Ok");
			assert_eq!(e.lock(1, "a"), "Ok");
		}),
		ops: vec![
			("finalize2", op(|e| e.finalize(2, "a"))),
			("mine_tx", op(|e| e.mine_tx("a", 2))),
		],
		target: Target::Refresh(1),
	});
	// P: invoice, payee refreshes || payer processes+locks, payee finalizes, block
	v.push(Scenario {
		name: "P_invoice_payee",
		prepare: Box::new(move |e| {
			e.mine1(10);
			assert_eq!(e.invoice(2, "a", amount), "Ok");
		}),
		ops: vec![
			(
				"process+lock",
				op(|e| {
					let r = e.process_invoice(1, "a", std_args(0));
					if r != "Ok" {
						return r;
					}
					e.lock(1, "a")
				}),
			),
			("finalize2", op(|e| e.finalize(2, "a"))),
			("mine_tx", op(|e| e.mine_tx("a", 1))),
		],
		target: Target::Refresh(2),
	});
	// Q: late lock
	v.push(Scenario {
		name: "Q_late_lock",
		prepare: Box::new(move |e| {
			e.mine1(10);
			let mut a = std_args(amount);
			a.late_lock = Some(true);
			assert_eq!(e.init1("a", a), "Ok");
			assert_eq!(e.recv2("a"), "Ok");
		}),
		ops: vec![
			("finalize", op(|e| e.finalize1("a"))),
			("mine_tx", op(|e| e.mine_tx("a", 2))),
		],
		target: Target::Refresh(1),
	});
	// R: receiver with TTL: refresh || sender finalizes, blocks reach cut-off with the tx
	v.push(Scenario {
		name: "R_receiver_ttl",
		prepare: Box::new(move |e| {
			e.mine1(10);
			pending_send(e, "a", amount, Some(2));
			e.mine1(1);
		}),
		ops: vec![
			("finalize", op(|e| e.finalize1("a"))),
			("mine_tx", op(|e| e.mine_tx("a", 1))),
		],
		target: Target::Refresh(2),
	});
	// S: min conf 0 chain: A pending (finalized); || A mined, B spends A's change
	v.push(Scenario {
		name: "S_minconf0_chain",
		prepare: Box::new(move |e| {
			e.mine1(10);
			pending_send(e, "a", amount, None);
			assert_eq!(e.finalize1("a"), "Ok");
		}),
		ops: vec![
			("mine_tx", op(|e| e.mine_tx("a", 2))),
			(
				"sendB0",
				op(move |e| {
					let mut a = std_args(amount);
					a.minimum_confirmations = 0;
					let r = e.init1("b", a);
					if r != "Ok" {
						return r;
					}
					let r = e.recv2("b");
					if r != "Ok" {
						return r;
					}
					e.lock1("b")
				}),
			),
		],
		target: Target::Refresh(1),
	});
	// S2: min conf 0 chain, B first then A mined
	v.push(Scenario {
		name: "S2_minconf0_chain_rev",
		prepare: Box::new(move |e| {
			e.mine1(10);
			pending_send(e, "a", amount, None);
			assert_eq!(e.finalize1("a"), "Ok");
		}),
		ops: vec![
			(
				"sendB0",
				op(move |e| {
					let mut a = std_args(amount);
					a.minimum_confirmations = 0;
					let r = e.init1("b", a);
					if r != "Ok" {
						return r;
					}
					let r = e.recv2("b");
					if r != "Ok" {
						return r;
					}
					e.lock1("b")
				}),
			),
			("mine_tx", op(|e| e.mine_tx("a", 2))),
		],
		target: Target::Refresh(1),
	});
	// T: refresh || full scan(delete_unconfirmed)
	v.push(Scenario {
		name: "T_refresh_vs_scan",
		prepare: Box::new(move |e| {
			e.mine1(10);
			pending_send(e, "a", amount, None);
		}),
		ops: vec![
			("finalize", op(|e| e.finalize1("a"))),
			("scan_del", op(|e| e.scan(1, true))),
			("mine_tx", op(|e| e.mine_tx("a", 2))),
		],
		target: Target::Refresh(1),
	});
	// U: scan(delete) || finalize, mine, refresh
	v.push(Scenario {
		name: "U_scan_vs_refresh",
		prepare: Box::new(move |e| {
			e.mine1(10);
			pending_send(e, "a", amount, None);
		}),
		ops: vec![
			("finalize", op(|e| e.finalize1("a"))),
			("mine_tx", op(|e| e.mine_tx("a", 2))),
			("refresh", op(|e| e.refresh(1))),
		],
		target: Target::Scan(1, true),
	});
	// V: cancel_tx (refresh + cancel) || finalize, mine
	v.push(Scenario {
		name: "V_cancel_vs_finalize_mine",
		prepare: Box::new(move |e| {
			e.mine1(10);
			pending_send(e, "a", amount, None);
		}),
		ops: vec![
			("finalize", op(|e| e.finalize1("a"))),
			("mine_tx", op(|e| e.mine_tx("a", 2))),
		],
		target: Target::Cancel(1, "a"),
	});
	// W: receiver cancel_tx || sender finalize, mine, receiver refresh
	v.push(Scenario {
		name: "W_rcancel_vs_mine_refresh",
		prepare: Box::new(move |e| {
			e.mine1(10);
			pending_send(e, "a", amount, None);
			assert_eq!(e.finalize1("a"), "Ok");
		}),
		ops: vec![
			("mine_tx", op(|e| e.mine_tx("a", 1))),
			("refresh2", op(|e| e.refresh(2))),
		],
		target: Target::Cancel(2, "a"),
	});
	// X: receiver dest account
	v.push(Scenario {
		name: "X_receiver_dest_acct",
		prepare: Box::new(move |e| {
			e.mine1(10);
			let (w, m) = e.w(2);
			api::Owner::new(w, None)
				.create_account_path(m.as_ref(), "account1")
				.unwrap();
			assert_eq!(e.init1("a", std_args(amount)), "Ok");
		}),
		ops: vec![
			(
				"recv_acct1+lock",
				op(|e| {
					let r = e.recv(2, "a", Some("account1"));
					if r != "Ok" {
						return r;
					}
					e.lock1("a")
				}),
			),
			("finalize", op(|e| e.finalize1("a"))),
			("mine_tx", op(|e| e.mine_tx("a", 1))),
		],
		target: Target::Refresh(2),
	});
	// Y: restore path, the block with the cancelled receive arrives during the refresh, then a re-receive
	v.push(Scenario {
		name: "Y_receiver_cancelled_mined",
		prepare: Box::new(move |e| {
			e.mine1(10);
			pending_send(e, "a", amount, None);
			assert_eq!(e.finalize1("a"), "Ok");
			assert_eq!(e.cancel(2, "a"), "Ok");
		}),
		ops: vec![
			("mine_tx", op(|e| e.mine_tx("a", 1))),
			("scan2", op(|e| e.scan(2, false))),
		],
		target: Target::Refresh(2),
	});

	// I2: TTL: refresh || empty block reaching the cut-off, finalize, block with the tx
	v.push(Scenario {
		name: "I2_ttl_block_finalize_mine",
		prepare: Box::new(move |e| {
			e.mine1(10);
			pending_send(e, "a", amount, Some(2));
			e.mine2(1);
		}),
		ops: vec![
			("block", op(|e| {
				e.mine2(1);
				"Ok".to_owned()
			})),
			("finalize", op(|e| e.finalize1("a"))),
			("mine_tx", op(|e| e.mine_tx("a", 2))),
		],
		target: Target::Refresh(1),
	});
	// Z: sender with a second account used through src_acct_name
	v.push(Scenario {
		name: "Z_sender_src_acct",
		prepare: Box::new(move |e| {
			let (w, m) = e.w(1);
			let o = api::Owner::new(w, None);
			o.create_account_path(m.as_ref(), "account1").unwrap();
			o.set_active_account(m.as_ref(), "account1").unwrap();
			e.mine1(6);
			o.set_active_account(m.as_ref(), "default").unwrap();
			e.mine1(6);
		}),
		ops: vec![
			(
				"send_from_acct1",
				op(move |e| {
					let mut a = std_args(amount);
					a.src_acct_name = Some("account1".to_owned());
					let r = e.init1("a", a);
					if r != "Ok" {
						return r;
					}
					let r = e.recv2("a");
					if r != "Ok" {
						return r;
					}
					e.lock1("a")
				}),
			),
			("finalize", op(|e| e.finalize1("a"))),
			("mine_tx", op(|e| e.mine_tx("a", 2))),
		],
		target: Target::Refresh(1),
	});
	v
}

#[test]
fn explore_all() {
	util::init_test_logger();
	global::set_local_chain_type(ChainTypes::AutomatedTesting);
	let only = std::env::var("C20_ONLY").ok();
	let pairs = std::env::var("C20_PAIRS").is_ok();
	let mut total = 0;
	for sc in scenarios() {
		if let Some(o) = only.as_ref() {
			if !o.split(',').any(|p| sc.name.starts_with(p)) {
				continue;
			}
		}
		total += explore(&sc, pairs);
	}
	println!("TOTAL MISMATCHES {}", total);
	let _ = IssueInvoiceTxArgs::default();
}
