// Finding 2 (C20, second audit): an `init_send_tx` that runs while a wallet restored from its seed
// is being scanned for the first time is handed, as the key of its change output, a derivation
// index that one of the outputs the scan restores a moment later occupies.
//
// The first update of a restored wallet (`update_wallet_state`, status InitNeedsScanning) scans the
// whole chain. `scan` restores the outputs it found one at a time, each under its own hold of the
// wallet lock (scan.rs:645-661 -> `restore_missing_output`, scan.rs:280-379), and each restore
// moves the account's next derivation index just past the output it has restored (scan.rs:309-314).
// Between two restores the wallet is unlocked with the index pointing into the range of outputs
// that are still to be restored: an `init_send_tx` that runs there spends what has been restored
// so far and takes index k+1 for its change (`next_available_key_for`, selection.rs:630-634) -
// the index of the output the scan restores next. The wallet ends up with two different outputs
// under one key id.
//
// Place this file at controller/tests/finding2.rs and run
//   cargo test -p grin_wallet_controller --test finding2 --offline -j 2 -- --nocapture --test-threads=1
//
// How the interleaving is produced (no source change, no cargo feature): the refresh runs on the
// main thread; a second thread, woken when the scan starts listing the chain's outputs, calls
// `Owner::init_send_tx` until it succeeds (it fails with "not enough funds" as long as nothing
// has been restored), then has wallet2 receive the slate and calls `tx_lock_outputs`. The two
// threads meet at the wallet mutex as two API clients would; the restore loop gives one window
// per restored output (20 here), the send can succeed from the second one on.

#[macro_use]
extern crate log;
extern crate grin_wallet_api as api;
extern crate grin_wallet_controller as wallet;
extern crate grin_wallet_impls as impls;
extern crate grin_wallet_libwallet as libwallet;

use grin_core as core;
use grin_keychain as keychain;
use grin_util as util;

use self::core::core::{Transaction, TxKernel};
use self::core::global::{self, ChainTypes};
use self::keychain::ExtKeychain;
use self::util::secp::key::SecretKey;
use self::util::secp::pedersen;
use self::util::{Mutex, ZeroingString};
use impls::test_framework::{self, LocalWalletClient, WalletProxy};
use impls::{DefaultLCProvider, DefaultWalletImpl};
use libwallet::api_impl::owner;
use libwallet::{InitTxArgs, NodeClient, NodeVersionInfo, OutputStatus, Slate, WalletInst};
use std::collections::HashMap;
use std::sync::atomic::{AtomicBool, Ordering};
use std::sync::mpsc::{channel, Sender};
use std::sync::Arc;
use std::thread;
use std::time::{Duration, Instant};

// ---------------------------------------------------------------------------------------------
// A node client that can wake another thread when the scan starts listing the chain's outputs
// ---------------------------------------------------------------------------------------------

#[derive(Clone)]
struct HookClient {
	inner: LocalWalletClient,
	armed: Arc<AtomicBool>,
	wake: Arc<Mutex<Option<Sender<()>>>>,
}

impl HookClient {
	fn new(inner: LocalWalletClient) -> Self {
		HookClient {
			inner,
			armed: Arc::new(AtomicBool::new(false)),
			wake: Arc::new(Mutex::new(None)),
		}
	}
}

impl NodeClient for HookClient {
	fn node_url(&self) -> &str {
		"node"
	}
	fn node_api_secret(&self) -> Option<String> {
		None
	}
	fn set_node_url(&mut self, _node_url: &str) {}
	fn set_node_api_secret(&mut self, _node_api_secret: Option<String>) {}
	fn get_version_info(&mut self) -> Option<NodeVersionInfo> {
		None
	}
	fn post_tx(&self, tx: &Transaction, fluff: bool) -> Result<(), libwallet::Error> {
		self.inner.post_tx(tx, fluff)
	}
	fn get_chain_tip(&self) -> Result<(u64, String), libwallet::Error> {
		self.inner.get_chain_tip()
	}
	fn get_outputs_from_node(
		&self,
		wallet_outputs: Vec<pedersen::Commitment>,
	) -> Result<HashMap<pedersen::Commitment, (String, u64, u64)>, libwallet::Error> {
		self.inner.get_outputs_from_node(wallet_outputs)
	}
	fn get_kernel(
		&mut self,
		excess: &pedersen::Commitment,
		min_height: Option<u64>,
		max_height: Option<u64>,
	) -> Result<Option<(TxKernel, u64, u64)>, libwallet::Error> {
		self.inner.get_kernel(excess, min_height, max_height)
	}
	fn get_outputs_by_pmmr_index(
		&self,
		start_index: u64,
		end_index: Option<u64>,
		max_outputs: u64,
	) -> Result<
		(
			u64,
			u64,
			Vec<(pedersen::Commitment, pedersen::RangeProof, bool, u64, u64)>,
		),
		libwallet::Error,
	> {
		if self.armed.load(Ordering::SeqCst) {
			if let Some(tx) = self.wake.lock().take() {
				let _ = tx.send(());
			}
		}
		self.inner
			.get_outputs_by_pmmr_index(start_index, end_index, max_outputs)
	}
	fn height_range_to_pmmr_indices(
		&self,
		start_height: u64,
		end_height: Option<u64>,
	) -> Result<(u64, u64), libwallet::Error> {
		self.inner
			.height_range_to_pmmr_indices(start_height, end_height)
	}
}

type TestWallet = Arc<
	Mutex<
		Box<
			dyn WalletInst<
				'static,
				DefaultLCProvider<'static, HookClient, ExtKeychain>,
				HookClient,
				ExtKeychain,
			>,
		>,
	>,
>;

fn create_wallet(
	test_dir: &str,
	name: &str,
	mnemonic: Option<ZeroingString>,
	client: HookClient,
) -> (TestWallet, Option<SecretKey>) {
	let mut wallet = Box::new(DefaultWalletImpl::<HookClient>::new(client).unwrap())
		as Box<
			dyn WalletInst<
				DefaultLCProvider<'static, HookClient, ExtKeychain>,
				HookClient,
				ExtKeychain,
			>,
		>;
	let lc = wallet.lc_provider().unwrap();
	let _ = lc.set_top_level_directory(&format!("{}/{}", test_dir, name));
	lc.create_wallet(None, mnemonic, 32, ZeroingString::from(""), false)
		.unwrap();
	let mask = lc
		.open_wallet(None, ZeroingString::from(""), false, false)
		.unwrap();
	(Arc::new(Mutex::new(wallet)), mask)
}

fn clean_output_dir(test_dir: &str) {
	let path = std::path::Path::new(test_dir);
	if path.is_dir() {
		remove_dir_all::remove_dir_all(test_dir).unwrap();
	}
}

fn setup(test_dir: &str) {
	util::init_test_logger();
	clean_output_dir(test_dir);
	global::set_local_chain_type(ChainTypes::AutomatedTesting);
}

// ---------------------------------------------------------------------------------------------

fn send_during_first_scan_impl(
	test_dir: &'static str,
	interleave: bool,
) -> Result<(), libwallet::Error> {
	let seed_phrase = "affair pistol cancel crush garment candy ancient flag work \
	                   market crush dry stand focus mutual weapon offer ceiling rival turn team spring \
	                   where swift";

	let mut wallet_proxy: WalletProxy<
		DefaultLCProvider<HookClient, ExtKeychain>,
		HookClient,
		ExtKeychain,
	> = WalletProxy::new(test_dir);
	let chain = wallet_proxy.chain.clone();
	let stopper = wallet_proxy.running.clone();

	// the original wallet
	let client1 = HookClient::new(LocalWalletClient::new("wallet1", wallet_proxy.tx.clone()));
	let (wallet1, mask1_i) = create_wallet(
		test_dir,
		"wallet1",
		Some(ZeroingString::from(seed_phrase)),
		client1.clone(),
	);
	wallet_proxy.add_wallet(
		"wallet1",
		client1.inner.get_send_instance(),
		wallet1.clone(),
		mask1_i.clone(),
	);
	let mask1 = (&mask1_i).as_ref();

	// a recipient
	let client2 = HookClient::new(LocalWalletClient::new("wallet2", wallet_proxy.tx.clone()));
	let (wallet2, mask2_i) = create_wallet(test_dir, "wallet2", None, client2.clone());
	wallet_proxy.add_wallet(
		"wallet2",
		client2.inner.get_send_instance(),
		wallet2.clone(),
		mask2_i.clone(),
	);

	// the same seed restored into a new, empty wallet (its status is InitNeedsScanning)
	let client3 = HookClient::new(LocalWalletClient::new("wallet3", wallet_proxy.tx.clone()));
	let (wallet3, mask3_i) = create_wallet(
		test_dir,
		"wallet3",
		Some(ZeroingString::from(seed_phrase)),
		client3.clone(),
	);
	wallet_proxy.add_wallet(
		"wallet3",
		client3.inner.get_send_instance(),
		wallet3.clone(),
		mask3_i.clone(),
	);
	let mask3 = (&mask3_i).as_ref();

	thread::spawn(move || {
		if let Err(e) = wallet_proxy.run() {
			error!("Wallet Proxy error: {}", e);
		}
	});

	// the seed owns 20 coinbase outputs on chain, at derivation indices 0..19
	let n_outputs = 20u32;
	test_framework::award_blocks_to_wallet(&chain, wallet1.clone(), mask1, n_outputs as usize, false)?;

	// the payment made from the restored wallet: 1 grin, smallest outputs first - one input
	// (the output at index 0, in every order), one change output
	let args = InitTxArgs {
		src_acct_name: None,
		amount: 1_000_000_000,
		minimum_confirmations: 2,
		max_outputs: 500,
		num_change_outputs: 1,
		selection_strategy_is_use_all: false,
		..Default::default()
	};

	let send_result: Arc<Mutex<Option<Result<u32, String>>>> = Arc::new(Mutex::new(None));
	let reply_slate: Arc<Mutex<Option<Slate>>> = Arc::new(Mutex::new(None));
	let pay = {
		let w3 = wallet3.clone();
		let m3 = mask3_i.clone();
		let c3 = client3.clone();
		let res = send_result.clone();
		let reply_slate = reply_slate.clone();
		move || {
			let api3 = api::Owner::new(w3, None);
			let start = Instant::now();
			let mut attempts = 0u32;
			// initiate (owner operation; fails while the wallet holds no spendable output)
			let slate = loop {
				attempts += 1;
				match api3.init_send_tx(m3.as_ref(), args.clone()) {
					Ok(s) => break s,
					Err(e) => {
						if start.elapsed() > Duration::from_secs(60) {
							*res.lock() = Some(Err(format!("init_send_tx: {}", e)));
							return;
						}
					}
				}
			};
			// wallet2 receives (foreign operation on the other wallet), wallet3 reserves
			let r = c3.inner.send_tx_slate_direct("wallet2", &slate).and_then(|s| {
				*reply_slate.lock() = Some(s.clone());
				api3.tx_lock_outputs(m3.as_ref(), &s)
			});
			*res.lock() = Some(r.map(|_| attempts).map_err(|e| format!("{}", e)));
		}
	};

	if interleave {
		let (wake_tx, wake_rx) = channel::<()>();
		*client3.wake.lock() = Some(wake_tx);
		client3.armed.store(true, Ordering::SeqCst);
		let helper = thread::spawn(move || {
			// (the chain type is a per-thread setting in tests)
			global::set_local_chain_type(ChainTypes::AutomatedTesting);
			if wake_rx.recv_timeout(Duration::from_secs(120)).is_err() {
				return;
			}
			pay();
		});
		// wallet3's first update: this is the call the background updater thread makes
		let refreshed = owner::update_wallet_state(wallet3.clone(), mask3, &None, false)?;
		assert!(refreshed);
		client3.armed.store(false, Ordering::SeqCst);
		helper.join().unwrap();
	} else {
		// control: the serial order refresh, payment
		let refreshed = owner::update_wallet_state(wallet3.clone(), mask3, &None, false)?;
		assert!(refreshed);
		pay();
	}
	let send_result = send_result.lock().take();
	println!("payment: {:?} (Ok = number of init_send_tx attempts)", send_result);
	assert!(
		match send_result {
			Some(Ok(_)) => true,
			_ => false,
		},
		"test setup: the payment was expected to be initiated, received and reserved"
	);

	// state afterwards
	let (_, outs) = owner::retrieve_outputs(wallet3.clone(), mask3, &None, true, false, None)?;
	let mut by_index: HashMap<u32, Vec<String>> = HashMap::new();
	let mut change_index = None;
	let mut max_restored = 0;
	for o in &outs {
		let d = format!(
			"{} value {} {} coinbase {}",
			o.output.key_id, o.output.value, o.output.status, o.output.is_coinbase
		);
		by_index.entry(o.output.n_child).or_insert_with(Vec::new).push(d);
		if o.output.is_coinbase {
			max_restored = std::cmp::max(max_restored, o.output.n_child);
		} else if o.output.status == OutputStatus::Unconfirmed {
			change_index = Some(o.output.n_child);
		}
	}
	let restored = outs.iter().filter(|o| o.output.is_coinbase).count();
	println!(
		"wallet3 after first refresh || (init_send_tx, receive, tx_lock_outputs): {} outputs restored (indices up to {}), change output of the payment at index {:?}",
		restored, max_restored, change_index
	);
	let mut shared: Vec<(u32, Vec<String>)> = by_index
		.into_iter()
		.filter(|(_, v)| v.len() > 1)
		.collect();
	shared.sort();
	for (i, v) in &shared {
		println!("  derivation index {} is used by {} outputs:", i, v.len());
		for d in v {
			println!("    {}", d);
		}
	}

	// What it leads to (printed, not asserted): the payment is completed and mined, then the wallet
	// pays out all it has. Outputs are looked up by key id when a transaction is built
	// (`repopulate_tx`, selection.rs:776-790): of two outputs under one key id one is built with the
	// other's features, and a node refuses the transaction.
	let consequence = (|| -> Result<String, libwallet::Error> {
		let api3 = api::Owner::new(wallet3.clone(), None);
		let reply = reply_slate.lock().clone().unwrap();
		let fin = api3.finalize_tx(mask3, &reply)?;
		test_framework::award_block_to_wallet(
			&chain,
			&[fin.tx_or_err()?.clone()],
			wallet2.clone(),
			(&mask2_i).as_ref(),
		)?;
		test_framework::award_blocks_to_wallet(&chain, wallet2.clone(), (&mask2_i).as_ref(), 3, false)?;
		owner::update_wallet_state(wallet3.clone(), mask3, &None, false)?;
		let args = InitTxArgs {
			src_acct_name: None,
			amount: 1_000_000_000_000,
			minimum_confirmations: 1,
			max_outputs: 500,
			num_change_outputs: 1,
			selection_strategy_is_use_all: true,
			..Default::default()
		};
		let s = api3.init_send_tx(mask3, args)?;
		let s = client3.inner.send_tx_slate_direct("wallet2", &s)?;
		api3.tx_lock_outputs(mask3, &s)?;
		let s = api3.finalize_tx(mask3, &s)?;
		Ok(format!(
			"a payment spending all {} outputs of wallet3, finalized by the wallet; the node's check of it against the UTXO set (Chain::validate_tx): {:?}",
			s.tx_or_err()?.inputs().len(),
			chain.validate_tx(s.tx_or_err()?)
		))
	})();
	println!("afterwards: {:?}", consequence);

	stopper.store(false, Ordering::Relaxed);
	thread::sleep(Duration::from_millis(200));

	assert_eq!(restored as u32, n_outputs, "all outputs of the seed are restored");
	// Serial orders of {first refresh, payment}:
	//   payment, refresh : the payment fails (the wallet is empty), nothing is initiated
	//   refresh, payment : 20 outputs restored at indices 0..19, next index 20; the payment spends
	//                      the output at index 0 and its change output gets index 20
	// The payment went through, so only the second order can explain what happened.
	assert_eq!(
		change_index,
		Some(n_outputs),
		"the payment completed (initiated, received, reserved); expected its change output at derivation index {} \
		 - the first one past the outputs of the seed, as in the serial order refresh, payment - but it was handed \
		 index {:?}, taken while the scan had restored only part of the seed's outputs and had set the next index \
		 just past those. Indices used by more than one output: {:?}",
		n_outputs,
		change_index,
		shared.iter().map(|(i, _)| *i).collect::<Vec<u32>>()
	);
	assert!(
		shared.is_empty(),
		"no derivation index may be used by two outputs"
	);
	Ok(())
}

#[test]
fn send_during_first_scan() {
	let test_dir = "test_output/c20b_finding2";
	setup(test_dir);
	if let Err(e) = send_during_first_scan_impl(test_dir, true) {
		panic!("Libwallet Error: {}", e);
	}
	clean_output_dir(test_dir);
}

/// Control (passes): the same operations and the same assertions, one after the other
#[test]
fn serial_order_control() {
	let test_dir = "test_output/c20b_finding2_control";
	setup(test_dir);
	if let Err(e) = send_during_first_scan_impl(test_dir, false) {
		panic!("Libwallet Error: {}", e);
	}
	clean_output_dir(test_dir);
}
