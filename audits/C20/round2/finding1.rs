// Finding 1 (C20, second audit): a scan with `delete_unconfirmed` gives up a reservation that was
// made while the scan was running, on outputs the scan itself had just released.
//
// `scan` lists the wallet's locked outputs once (scan.rs:593-596, 610-612) and then repairs them
// one at a time, each repair under its own hold of the wallet lock (scan.rs:665-685 ->
// `repair_output`, scan.rs:397-455). The first repair gives up the pending transaction A as a whole
// and so releases ALL of A's inputs. Before each later repair `repair_output` checks again that the
// output is still in the UTXO set and still `Locked` - but not that it is still locked by the
// transaction that held it when the list was made. If another operation reserves the released
// outputs in between (`tx_lock_outputs` of a transaction B), the next repair finds its output
// "still" `Locked`, looks up the entry that holds it NOW (B) and cancels B.
//
// Place this file at controller/tests/finding1.rs and run
//   cargo test -p grin_wallet_controller --test finding1 --offline -j 2 -- --nocapture --test-threads=1
//
// How the interleaving is produced (no source change, no cargo feature): the wallets are built on a
// node client that wraps the test framework's `LocalWalletClient`. The scan runs on the main
// thread. When the scan's first repair asks the node about its single output (it holds the wallet
// lock at that point), the client wakes a second thread, which calls `Owner::tx_lock_outputs(B)`
// and therefore queues up on the wallet mutex, and keeps the node's answer back for a moment so that
// the second thread really is waiting. When the repair releases the lock the waiting thread gets
// it (parking_lot hands a lock that was held for more than a millisecond to the longest waiter),
// reserves the outputs and returns; the scan then goes on with its second repair. Should the
// second thread get the lock only one or two repairs later the outcome is the same: there are seven
// repairs, any one of them after B's reservation cancels B.

#[macro_use]
extern crate log;
extern crate grin_wallet_api as api;
extern crate grin_wallet_controller as wallet;
extern crate grin_wallet_impls as impls;
extern crate grin_wallet_libwallet as libwallet;

use grin_core as core;
use grin_keychain as keychain;
use grin_util as util;

use self::core::core::{Transaction, TxKernel};
use self::core::global::{self, ChainTypes};
use self::keychain::ExtKeychain;
use self::util::secp::key::SecretKey;
use self::util::secp::pedersen;
use self::util::{Mutex, ZeroingString};
use impls::test_framework::{self, LocalWalletClient, WalletProxy};
use impls::{DefaultLCProvider, DefaultWalletImpl};
use libwallet::api_impl::owner;
use libwallet::{
	InitTxArgs, NodeClient, NodeVersionInfo, OutputStatus, Slate, TxLogEntry, TxLogEntryType,
	WalletInst,
};
use std::collections::HashMap;
use std::sync::atomic::{AtomicBool, AtomicUsize, Ordering};
use std::sync::mpsc::{channel, Sender};
use std::sync::Arc;
use std::thread;
use std::time::Duration;

// ---------------------------------------------------------------------------------------------
// A node client that can wake another thread when the scan makes its first repair query
// ---------------------------------------------------------------------------------------------

#[derive(Clone)]
struct HookClient {
	inner: LocalWalletClient,
	/// only act while this is set (i.e. during the scan under test)
	armed: Arc<AtomicBool>,
	/// number of single-output queries seen while armed (= repairs of the scan)
	repairs: Arc<AtomicUsize>,
	/// woken at the first repair
	wake: Arc<Mutex<Option<Sender<()>>>>,
}

impl HookClient {
	fn new(inner: LocalWalletClient) -> Self {
		HookClient {
			inner,
			armed: Arc::new(AtomicBool::new(false)),
			repairs: Arc::new(AtomicUsize::new(0)),
			wake: Arc::new(Mutex::new(None)),
		}
	}
}

impl NodeClient for HookClient {
	fn node_url(&self) -> &str {
		"node"
	}
	fn node_api_secret(&self) -> Option<String> {
		None
	}
	fn set_node_url(&mut self, _node_url: &str) {}
	fn set_node_api_secret(&mut self, _node_api_secret: Option<String>) {}
	fn get_version_info(&mut self) -> Option<NodeVersionInfo> {
		None
	}
	fn post_tx(&self, tx: &Transaction, fluff: bool) -> Result<(), libwallet::Error> {
		self.inner.post_tx(tx, fluff)
	}
	fn get_chain_tip(&self) -> Result<(u64, String), libwallet::Error> {
		self.inner.get_chain_tip()
	}
	fn get_outputs_from_node(
		&self,
		wallet_outputs: Vec<pedersen::Commitment>,
	) -> Result<HashMap<pedersen::Commitment, (String, u64, u64)>, libwallet::Error> {
		// `repair_output` is the only caller that asks about exactly one output (the refreshes
		// at the start and the end of the scan ask about all of the account's outputs at once).
		// It makes this call while holding the wallet lock.
		if self.armed.load(Ordering::SeqCst) && wallet_outputs.len() == 1 {
			let n = self.repairs.fetch_add(1, Ordering::SeqCst);
			if n == 0 {
				if let Some(tx) = self.wake.lock().take() {
					let _ = tx.send(());
				}
				// give the other thread time to arrive at the wallet mutex
				thread::sleep(Duration::from_millis(500));
			} else {
				// (a lock held for more than a millisecond is handed to a waiting thread)
				thread::sleep(Duration::from_millis(20));
			}
		}
		self.inner.get_outputs_from_node(wallet_outputs)
	}
	fn get_kernel(
		&mut self,
		excess: &pedersen::Commitment,
		min_height: Option<u64>,
		max_height: Option<u64>,
	) -> Result<Option<(TxKernel, u64, u64)>, libwallet::Error> {
		self.inner.get_kernel(excess, min_height, max_height)
	}
	fn get_outputs_by_pmmr_index(
		&self,
		start_index: u64,
		end_index: Option<u64>,
		max_outputs: u64,
	) -> Result<
		(
			u64,
			u64,
			Vec<(pedersen::Commitment, pedersen::RangeProof, bool, u64, u64)>,
		),
		libwallet::Error,
	> {
		self.inner
			.get_outputs_by_pmmr_index(start_index, end_index, max_outputs)
	}
	fn height_range_to_pmmr_indices(
		&self,
		start_height: u64,
		end_height: Option<u64>,
	) -> Result<(u64, u64), libwallet::Error> {
		self.inner
			.height_range_to_pmmr_indices(start_height, end_height)
	}
}

type TestWallet = Arc<
	Mutex<
		Box<
			dyn WalletInst<
				'static,
				DefaultLCProvider<'static, HookClient, ExtKeychain>,
				HookClient,
				ExtKeychain,
			>,
		>,
	>,
>;

fn create_wallet(test_dir: &str, name: &str, client: HookClient) -> (TestWallet, Option<SecretKey>) {
	let mut wallet = Box::new(DefaultWalletImpl::<HookClient>::new(client).unwrap())
		as Box<
			dyn WalletInst<
				DefaultLCProvider<'static, HookClient, ExtKeychain>,
				HookClient,
				ExtKeychain,
			>,
		>;
	let lc = wallet.lc_provider().unwrap();
	let _ = lc.set_top_level_directory(&format!("{}/{}", test_dir, name));
	lc.create_wallet(None, None, 32, ZeroingString::from(""), false)
		.unwrap();
	let mask = lc
		.open_wallet(None, ZeroingString::from(""), false, false)
		.unwrap();
	(Arc::new(Mutex::new(wallet)), mask)
}

fn clean_output_dir(test_dir: &str) {
	let path = std::path::Path::new(test_dir);
	if path.is_dir() {
		remove_dir_all::remove_dir_all(test_dir).unwrap();
	}
}

fn setup(test_dir: &str) {
	util::init_test_logger();
	clean_output_dir(test_dir);
	global::set_local_chain_type(ChainTypes::AutomatedTesting);
}

fn entry_of(wallet: &TestWallet, mask: Option<&SecretKey>, slate: &Slate) -> TxLogEntry {
	let (_, txs) =
		owner::retrieve_txs(wallet.clone(), mask, &None, false, None, Some(slate.id), None).unwrap();
	assert_eq!(txs.len(), 1, "one log entry expected for slate {}", slate.id);
	txs[0].clone()
}

// ---------------------------------------------------------------------------------------------

fn scan_cancels_new_reservation_impl(
	test_dir: &'static str,
	interleave: bool,
) -> Result<(), libwallet::Error> {
	let mut wallet_proxy: WalletProxy<
		DefaultLCProvider<HookClient, ExtKeychain>,
		HookClient,
		ExtKeychain,
	> = WalletProxy::new(test_dir);
	let chain = wallet_proxy.chain.clone();
	let stopper = wallet_proxy.running.clone();

	let client1 = HookClient::new(LocalWalletClient::new("wallet1", wallet_proxy.tx.clone()));
	let (wallet1, mask1_i) = create_wallet(test_dir, "wallet1", client1.clone());
	wallet_proxy.add_wallet(
		"wallet1",
		client1.inner.get_send_instance(),
		wallet1.clone(),
		mask1_i.clone(),
	);
	let mask1 = (&mask1_i).as_ref();

	let client2 = HookClient::new(LocalWalletClient::new("wallet2", wallet_proxy.tx.clone()));
	let (wallet2, mask2_i) = create_wallet(test_dir, "wallet2", client2.clone());
	wallet_proxy.add_wallet(
		"wallet2",
		client2.inner.get_send_instance(),
		wallet2.clone(),
		mask2_i.clone(),
	);

	thread::spawn(move || {
		if let Err(e) = wallet_proxy.run() {
			error!("Wallet Proxy error: {}", e);
		}
	});

	// wallet1 mines 10 blocks: 7 of its coinbase outputs (420 grin) are spendable
	test_framework::award_blocks_to_wallet(&chain, wallet1.clone(), mask1, 10, false)?;

	let amount = 30_000_000_000;
	let api1 = api::Owner::new(wallet1.clone(), None);
	let args = InitTxArgs {
		src_acct_name: None,
		amount,
		minimum_confirmations: 2,
		max_outputs: 500,
		num_change_outputs: 1,
		selection_strategy_is_use_all: true,
		..Default::default()
	};

	// Payment B is initiated and accepted by wallet2, but wallet1 has not reserved its inputs yet
	// (`init_send_tx` selects inputs, it does not lock them - that is `tx_lock_outputs`)
	let slate_b = api1.init_send_tx(mask1, args.clone())?;
	let slate_b = client1.inner.send_tx_slate_direct("wallet2", &slate_b)?;

	// Payment A: initiated, accepted, reserved: it holds the same 7 outputs. It never completes
	// (the reason the user runs a scan with delete_unconfirmed).
	let slate_a = api1.init_send_tx(mask1, args)?;
	let slate_a = client1.inner.send_tx_slate_direct("wallet2", &slate_a)?;
	api1.tx_lock_outputs(mask1, &slate_a)?;
	let a = entry_of(&wallet1, mask1, &slate_a);
	assert_eq!(a.tx_type, TxLogEntryType::TxSent);
	assert_eq!(a.num_inputs, 7);

	// While A holds the outputs, B cannot reserve them (so "reserve B, then scan" is not a serial
	// order in which B's reservation completes)
	assert!(
		api1.tx_lock_outputs(mask1, &slate_b).is_err(),
		"test setup: B must not be able to reserve outputs that A holds"
	);

	// The scan, and concurrently with it the owner operation `tx_lock_outputs(B)`
	let lock_b_result: Arc<Mutex<Option<Result<(), String>>>> = Arc::new(Mutex::new(None));
	if interleave {
		let (wake_tx, wake_rx) = channel::<()>();
		*client1.wake.lock() = Some(wake_tx);
		client1.armed.store(true, Ordering::SeqCst);
		let w1 = wallet1.clone();
		let m1 = mask1_i.clone();
		let sb = slate_b.clone();
		let res = lock_b_result.clone();
		let helper = thread::spawn(move || {
			// (the chain type is a per-thread setting in tests)
			global::set_local_chain_type(ChainTypes::AutomatedTesting);
			// woken when the scan's first repair (which gives up A) is under way
			if wake_rx.recv_timeout(Duration::from_secs(120)).is_err() {
				*res.lock() = Some(Err("never woken".to_owned()));
				return;
			}
			let api1 = api::Owner::new(w1, None);
			let r = api1
				.tx_lock_outputs(m1.as_ref(), &sb)
				.map_err(|e| format!("{}", e));
			*res.lock() = Some(r);
		});
		owner::scan(wallet1.clone(), mask1, None, true, &None)?;
		client1.armed.store(false, Ordering::SeqCst);
		helper.join().unwrap();
		println!(
			"repairs made by the scan: {}",
			client1.repairs.load(Ordering::SeqCst)
		);
	} else {
		// control: the serial order scan, tx_lock_outputs(B)
		owner::scan(wallet1.clone(), mask1, None, true, &None)?;
		let r = api1
			.tx_lock_outputs(mask1, &slate_b)
			.map_err(|e| format!("{}", e));
		*lock_b_result.lock() = Some(r);
	}
	let lock_b_result = lock_b_result.lock().take();
	assert_eq!(
		lock_b_result,
		Some(Ok(())),
		"test setup: tx_lock_outputs(B) was expected to run (after the scan had released A's outputs) and to succeed"
	);

	// state afterwards
	let a = entry_of(&wallet1, mask1, &slate_a);
	let b = entry_of(&wallet1, mask1, &slate_b);
	let (_, outs_b) =
		owner::retrieve_outputs(wallet1.clone(), mask1, &None, true, false, Some(b.id))?;
	println!("wallet1 after scan(delete_unconfirmed) || tx_lock_outputs(B):");
	println!("  A: entry {} type {:?}", a.id, a.tx_type);
	println!("  B: entry {} type {:?}", b.id, b.tx_type);
	for o in &outs_b {
		println!(
			"    output of B: {} value {} status {}",
			o.output.key_id, o.output.value, o.output.status
		);
	}
	let locked_for_b = outs_b
		.iter()
		.filter(|o| o.output.status == OutputStatus::Locked)
		.count();

	stopper.store(false, Ordering::Relaxed);
	thread::sleep(Duration::from_millis(200));

	assert_eq!(
		a.tx_type,
		TxLogEntryType::TxSentCancelled,
		"the scan gives up A, which was pending when it started"
	);
	// Serial orders of {scan(delete_unconfirmed), tx_lock_outputs(B)}:
	//   tx_lock_outputs(B), scan : the reservation fails (A holds the outputs), no entry for B
	//   scan, tx_lock_outputs(B) : A is given up, then B reserves the outputs: B is TxSent, 7 inputs Locked
	// `tx_lock_outputs(B)` returned Ok, so only the second order can explain what happened, and in
	// it B's reservation stands.
	assert_eq!(
		b.tx_type,
		TxLogEntryType::TxSent,
		"tx_lock_outputs(B) completed (Ok) after the scan had released A's outputs; expected B (entry {}) to stay \
		 TxSent with its 7 inputs Locked, as in the serial order scan, tx_lock_outputs(B) - but the scan, going \
		 on with the list of locked outputs it had read when A still held them, cancelled B: {} of B's inputs are Locked",
		b.id,
		locked_for_b
	);
	assert_eq!(locked_for_b, 7, "B's 7 inputs should be Locked");
	Ok(())
}

#[test]
fn scan_cancels_new_reservation() {
	let test_dir = "test_output/c20b_finding1";
	setup(test_dir);
	if let Err(e) = scan_cancels_new_reservation_impl(test_dir, true) {
		panic!("Libwallet Error: {}", e);
	}
	clean_output_dir(test_dir);
}

/// Control (passes): the same operations and the same assertions, one after the other
#[test]
fn serial_order_control() {
	let test_dir = "test_output/c20b_finding1_control";
	setup(test_dir);
	if let Err(e) = scan_cancels_new_reservation_impl(test_dir, false) {
		panic!("Libwallet Error: {}", e);
	}
	clean_output_dir(test_dir);
}
