// Finding 3 (C20): `update_wallet_state` reads the wallet's active account again at each of its
// steps. If the active account is switched (Owner::set_active_account) while a refresh is
// running, the TTL step cancels - by log id - a transaction of the NEW active account that
// happens to have the same id as the expired transaction of the account the refresh started on
// (log ids are per account).
//
// Place this file at controller/tests/finding3.rs and run
//   cargo test -p grin_wallet_controller --test finding3 --offline -j 2 -- --nocapture
//
// The interleaving is produced deterministically and on one thread: the wallets are built on a
// node client that wraps the test framework's `LocalWalletClient` and, on a chosen node call that
// the refresh makes while it does NOT hold the wallet lock, first runs the "concurrent" operation
// to completion (exactly what another thread could do at that point) and then passes the call on.

#[macro_use]
extern crate log;
extern crate grin_wallet_api as api;
extern crate grin_wallet_controller as wallet;
extern crate grin_wallet_impls as impls;
extern crate grin_wallet_libwallet as libwallet;

use grin_core as core;
use grin_keychain as keychain;
use grin_util as util;

use self::core::core::{Transaction, TxKernel};
use self::core::global::{self, ChainTypes};
use self::keychain::ExtKeychain;
use self::util::secp::key::SecretKey;
use self::util::secp::pedersen;
use self::util::{Mutex, ZeroingString};
use impls::test_framework::{self, LocalWalletClient, WalletProxy};
use impls::{DefaultLCProvider, DefaultWalletImpl};
use libwallet::api_impl::owner;
use libwallet::{
	InitTxArgs, NodeClient, NodeVersionInfo, TxLogEntryType, WalletInst,
};
use std::collections::HashMap;
use std::sync::atomic::Ordering;
use std::sync::Arc;
use std::thread;
use std::time::Duration;

// ---------------------------------------------------------------------------------------------
// A node client that can run an action right before a given node call
// ---------------------------------------------------------------------------------------------

struct Hook {
	/// node call that triggers the action
	method: &'static str,
	/// only trigger if this returns true (used: "the wallet lock is free")
	ready: Box<dyn Fn() -> bool + Send>,
	/// the concurrent operation(s)
	action: Box<dyn FnOnce() + Send>,
}

#[derive(Clone)]
struct HookClient {
	inner: LocalWalletClient,
	hook: Arc<Mutex<Option<Hook>>>,
}

impl HookClient {
	fn new(inner: LocalWalletClient) -> Self {
		HookClient {
			inner,
			hook: Arc::new(Mutex::new(None)),
		}
	}
	fn arm(
		&self,
		method: &'static str,
		ready: Box<dyn Fn() -> bool + Send>,
		action: Box<dyn FnOnce() + Send>,
	) {
		*self.hook.lock() = Some(Hook {
			method,
			ready,
			action,
		});
	}
	fn fire(&self, method: &str) {
		// one-shot: the hook is removed before its action runs, so node calls made by the
		// action itself go straight through
		let h = {
			let mut g = self.hook.lock();
			let hit = match g.as_ref() {
				Some(h) => h.method == method && (h.ready)(),
				None => false,
			};
			if hit {
				g.take()
			} else {
				None
			}
		};
		if let Some(h) = h {
			(h.action)();
		}
	}
}

impl NodeClient for HookClient {
	fn node_url(&self) -> &str {
		"node"
	}
	fn node_api_secret(&self) -> Option<String> {
		None
	}
	fn set_node_url(&mut self, _node_url: &str) {}
	fn set_node_api_secret(&mut self, _node_api_secret: Option<String>) {}
	fn get_version_info(&mut self) -> Option<NodeVersionInfo> {
		None
	}
	fn post_tx(&self, tx: &Transaction, fluff: bool) -> Result<(), libwallet::Error> {
		self.fire("post_tx");
		self.inner.post_tx(tx, fluff)
	}
	fn get_chain_tip(&self) -> Result<(u64, String), libwallet::Error> {
		self.fire("get_chain_tip");
		self.inner.get_chain_tip()
	}
	fn get_outputs_from_node(
		&self,
		wallet_outputs: Vec<pedersen::Commitment>,
	) -> Result<HashMap<pedersen::Commitment, (String, u64, u64)>, libwallet::Error> {
		self.fire("get_outputs_from_node");
		self.inner.get_outputs_from_node(wallet_outputs)
	}
	fn get_kernel(
		&mut self,
		excess: &pedersen::Commitment,
		min_height: Option<u64>,
		max_height: Option<u64>,
	) -> Result<Option<(TxKernel, u64, u64)>, libwallet::Error> {
		self.fire("get_kernel");
		self.inner.get_kernel(excess, min_height, max_height)
	}
	fn get_outputs_by_pmmr_index(
		&self,
		start_index: u64,
		end_index: Option<u64>,
		max_outputs: u64,
	) -> Result<
		(
			u64,
			u64,
			Vec<(pedersen::Commitment, pedersen::RangeProof, bool, u64, u64)>,
		),
		libwallet::Error,
	> {
		self.fire("get_outputs_by_pmmr_index");
		self.inner
			.get_outputs_by_pmmr_index(start_index, end_index, max_outputs)
	}
	fn height_range_to_pmmr_indices(
		&self,
		start_height: u64,
		end_height: Option<u64>,
	) -> Result<(u64, u64), libwallet::Error> {
		self.fire("height_range_to_pmmr_indices");
		self.inner
			.height_range_to_pmmr_indices(start_height, end_height)
	}
}

type TestWallet = Arc<
	Mutex<
		Box<
			dyn WalletInst<
				'static,
				DefaultLCProvider<'static, HookClient, ExtKeychain>,
				HookClient,
				ExtKeychain,
			>,
		>,
	>,
>;

fn create_wallet(test_dir: &str, name: &str, client: HookClient) -> (TestWallet, Option<SecretKey>) {
	let mut wallet = Box::new(DefaultWalletImpl::<HookClient>::new(client).unwrap())
		as Box<
			dyn WalletInst<
				DefaultLCProvider<'static, HookClient, ExtKeychain>,
				HookClient,
				ExtKeychain,
			>,
		>;
	let lc = wallet.lc_provider().unwrap();
	let _ = lc.set_top_level_directory(&format!("{}/{}", test_dir, name));
	lc.create_wallet(None, None, 32, ZeroingString::from(""), false)
		.unwrap();
	let mask = lc
		.open_wallet(None, ZeroingString::from(""), false, false)
		.unwrap();
	(Arc::new(Mutex::new(wallet)), mask)
}

fn clean_output_dir(test_dir: &str) {
	let path = std::path::Path::new(test_dir);
	if path.is_dir() {
		remove_dir_all::remove_dir_all(test_dir).unwrap();
	}
}

fn setup(test_dir: &str) {
	util::init_test_logger();
	clean_output_dir(test_dir);
	global::set_local_chain_type(ChainTypes::AutomatedTesting);
}

// ---------------------------------------------------------------------------------------------

fn refresh_cancels_other_accounts_tx_impl(
	test_dir: &'static str,
	interleave: bool,
) -> Result<(), libwallet::Error> {
	let mut wallet_proxy: WalletProxy<
		DefaultLCProvider<HookClient, ExtKeychain>,
		HookClient,
		ExtKeychain,
	> = WalletProxy::new(test_dir);
	let chain = wallet_proxy.chain.clone();
	let stopper = wallet_proxy.running.clone();

	let client1 = HookClient::new(LocalWalletClient::new("wallet1", wallet_proxy.tx.clone()));
	let (wallet1, mask1_i) = create_wallet(test_dir, "wallet1", client1.clone());
	wallet_proxy.add_wallet(
		"wallet1",
		client1.inner.get_send_instance(),
		wallet1.clone(),
		mask1_i.clone(),
	);
	let mask1 = (&mask1_i).as_ref();

	let client2 = HookClient::new(LocalWalletClient::new("wallet2", wallet_proxy.tx.clone()));
	let (wallet2, mask2_i) = create_wallet(test_dir, "wallet2", client2.clone());
	wallet_proxy.add_wallet(
		"wallet2",
		client2.inner.get_send_instance(),
		wallet2.clone(),
		mask2_i.clone(),
	);
	let mask2 = (&mask2_i).as_ref();

	thread::spawn(move || {
		if let Err(e) = wallet_proxy.run() {
			error!("Wallet Proxy error: {}", e);
		}
	});

	let api1 = api::Owner::new(wallet1.clone(), None);
	api1.create_account_path(mask1, "account1")?;

	// 4 blocks for wallet1's 'default' account, 4 for its 'account1', 3 more so all is mature
	api1.set_active_account(mask1, "default")?;
	test_framework::award_blocks_to_wallet(&chain, wallet1.clone(), mask1, 4, false)?;
	api1.set_active_account(mask1, "account1")?;
	test_framework::award_blocks_to_wallet(&chain, wallet1.clone(), mask1, 4, false)?;
	test_framework::award_blocks_to_wallet(&chain, wallet2.clone(), mask2, 3, false)?;

	let send_args = |ttl_blocks: Option<u64>| InitTxArgs {
		src_acct_name: None,
		amount: 30_000_000_000,
		minimum_confirmations: 2,
		max_outputs: 500,
		num_change_outputs: 1,
		selection_strategy_is_use_all: true,
		ttl_blocks,
		..Default::default()
	};

	// 'account1': a pending payment without TTL (initiated, received by wallet2, inputs reserved)
	api1.set_active_account(mask1, "account1")?;
	let (_, txs) = api1.retrieve_txs(mask1, true, None, None, None)?;
	assert_eq!(txs.len(), 4);
	let slate_i = api1.init_send_tx(mask1, send_args(None))?;
	let slate_b = client1.inner.send_tx_slate_direct("wallet2", &slate_i)?;
	api1.tx_lock_outputs(mask1, &slate_b)?;
	let (_, txs) = api1.retrieve_txs(mask1, false, None, Some(slate_b.id), None)?;
	let id_b = txs[0].id;
	assert_eq!(txs[0].tx_type, TxLogEntryType::TxSent);
	assert_eq!(txs[0].ttl_cutoff_height, None);

	// 'default': a pending payment with a TTL of 2 blocks
	api1.set_active_account(mask1, "default")?;
	let (_, txs) = api1.retrieve_txs(mask1, true, None, None, None)?;
	assert_eq!(txs.len(), 4);
	let slate_i = api1.init_send_tx(mask1, send_args(Some(2)))?;
	let slate_a = client1.inner.send_tx_slate_direct("wallet2", &slate_i)?;
	api1.tx_lock_outputs(mask1, &slate_a)?;
	let (_, txs) = api1.retrieve_txs(mask1, false, None, Some(slate_a.id), None)?;
	let id_a = txs[0].id;
	assert_eq!(txs[0].tx_type, TxLogEntryType::TxSent);
	assert_eq!(txs[0].ttl_cutoff_height, Some(13));
	assert_eq!(
		id_a, id_b,
		"test setup: both accounts' pending payments should have the same (per-account) log id"
	);

	// the TTL of the 'default' payment runs out
	test_framework::award_blocks_to_wallet(&chain, wallet2.clone(), mask2, 2, false)?;

	// The concurrent activity, run when wallet1's refresh (started with 'default' active) asks
	// the node for the chain tip at the start of `update_txs_via_kernel` - after it has read the
	// outstanding entries of 'default', while it does not hold the wallet lock:
	//   owner operation: the user switches the active account to 'account1'
	let switch_result: Arc<Mutex<Option<Result<(), String>>>> = Arc::new(Mutex::new(None));
	{
		let w1_ready = wallet1.clone();
		let w1 = wallet1.clone();
		let m1 = mask1_i.clone();
		let res = switch_result.clone();
		let action: Box<dyn FnOnce() + Send> = Box::new(move || {
			let api1 = api::Owner::new(w1.clone(), None);
			let r = api1.set_active_account(m1.as_ref(), "account1");
			*res.lock() = Some(r.map_err(|e| format!("{}", e)));
		});
		if interleave {
			client1.arm(
				"get_chain_tip",
				Box::new(move || w1_ready.try_lock().is_some()),
				action,
			);
		} else {
			// control: the serial order set_active_account, refresh
			action();
		}
	}

	// wallet1's refresh: this is the call the background updater thread makes
	// (`owner_updater::Updater::run`), and the one behind every `refresh_from_node`
	let refreshed = owner::update_wallet_state(wallet1.clone(), mask1, &None, false)?;
	assert!(refreshed);
	assert_eq!(
		switch_result.lock().take(),
		Some(Ok(())),
		"test setup: the concurrent set_active_account was expected to run and succeed"
	);

	// state after the interleaving
	api1.set_active_account(mask1, "account1")?;
	let (_, txs) = api1.retrieve_txs(mask1, false, Some(id_b), None, None)?;
	let entry_b = txs[0].clone();
	let (_, outs_b) = api1.retrieve_outputs(mask1, true, false, Some(id_b))?;
	api1.set_active_account(mask1, "default")?;
	let (_, txs) = api1.retrieve_txs(mask1, false, Some(id_a), None, None)?;
	let entry_a = txs[0].clone();
	println!(
		"after refresh('default') || set_active_account('account1'):\n  default  entry {} (ttl 13, tip 13): {:?}\n  account1 entry {} (no ttl): {:?}, its outputs: {:?}",
		entry_a.id,
		entry_a.tx_type,
		entry_b.id,
		entry_b.tx_type,
		outs_b
			.iter()
			.map(|o| format!("{} {}", o.output.value, o.output.status))
			.collect::<Vec<_>>()
	);

	stopper.store(false, Ordering::Relaxed);
	thread::sleep(Duration::from_millis(200));

	// Serial orders:
	//   refresh, switch : the refresh works on 'default': its expired payment is cancelled,
	//                     'account1' is not touched
	//   switch, refresh : the refresh works on 'account1': its payment has no TTL, nothing happens
	// In neither is the payment of 'account1' cancelled.
	assert_eq!(
		entry_b.tx_type,
		TxLogEntryType::TxSent,
		"the pending payment of 'account1' (entry {}, no TTL, slate {}) must not be touched by a refresh that \
		 found an expired payment in 'default'; expected it to stay TxSent, but it was cancelled (and the expired \
		 payment of 'default' is {:?})",
		id_b,
		slate_b.id,
		entry_a.tx_type
	);
	Ok(())
}

#[test]
fn refresh_cancels_other_accounts_tx() {
	let test_dir = "test_output/c20_finding3";
	setup(test_dir);
	if let Err(e) = refresh_cancels_other_accounts_tx_impl(test_dir, true) {
		panic!("Libwallet Error: {}", e);
	}
	clean_output_dir(test_dir);
}

/// Control (passes): the same operations and the same assertions, one after the other
#[test]
fn serial_order_control() {
	let test_dir = "test_output/c20_finding3_control";
	setup(test_dir);
	if let Err(e) = refresh_cancels_other_accounts_tx_impl(test_dir, false) {
		panic!("Libwallet Error: {}", e);
	}
	clean_output_dir(test_dir);
}
