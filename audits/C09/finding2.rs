// C09 finding 2: parsing an onion (Tor v3) address that uses base32 padding panics.
//
// `OnionV3Address::try_from(&str)` (util/src/ov3.rs) only checks that the text is 56 characters
// long before it base32-decodes it and copies `address[0..32]`. 56 characters of *padded* base32
// ("....AA======") decode to fewer than 32 bytes, so the slice is out of range and the wallet
// panics instead of returning `OnionV3Error::AddressDecoding`.
//
// Place in controller/tests/c09_finding2.rs and run:
//   cargo test --offline -j 3 -p grin_wallet_controller --test c09_finding2 -- --nocapture

extern crate grin_wallet_impls as impls;

use grin_wallet_libwallet::dalek_ser;
use grin_wallet_util::OnionV3Address;
use serde_derive::Deserialize;
use std::convert::TryFrom;
use std::panic::catch_unwind;

#[derive(Deserialize, Debug)]
struct Holder {
	#[serde(with = "dalek_ser::ov3_serde")]
	#[allow(dead_code)]
	addr: OnionV3Address,
}

fn panic_text(e: Box<dyn std::any::Any + Send>) -> String {
	if let Some(s) = e.downcast_ref::<String>() {
		s.clone()
	} else if let Some(s) = e.downcast_ref::<&str>() {
		s.to_string()
	} else {
		"<non-string panic payload>".to_owned()
	}
}

#[test]
fn c09_onion_address_with_base32_padding_panics() {
	// a valid address, for reference
	let valid = "2a6at2obto3uvkpkitqp4wxcg6u36qf534eucbskqciturczzc5suyid";
	assert!(OnionV3Address::try_from(valid).is_ok());

	// the same address with its tail replaced by base32 padding: still 56 characters, still
	// valid base32, but it decodes to 31 bytes
	let padded = format!("{}aa======", &valid[..48]);
	assert_eq!(padded.len(), 56);
	let with_scheme = format!("http://{}.onion", padded);

	let mut failures: Vec<String> = vec![];

	for input in [padded.clone(), with_scheme, padded.to_uppercase()].iter() {
		let i = input.clone();
		match catch_unwind(move || OnionV3Address::try_from(i.as_str())) {
			Ok(r) => assert!(r.is_err(), "a 31 byte address cannot be valid"),
			Err(e) => failures.push(format!(
				"OnionV3Address::try_from({:?}): expected Err(AddressDecoding), but it panicked: {}",
				input,
				panic_text(e)
			)),
		}
		// the helper the Tor send path uses to recognise a destination
		let i = input.clone();
		match catch_unwind(move || impls::tor::config::is_tor_address(&i)) {
			Ok(r) => assert!(r.is_err()),
			Err(e) => failures.push(format!(
				"is_tor_address({:?}): expected Err(NotOnion), but it panicked: {}",
				input,
				panic_text(e)
			)),
		}
		// the serde adaptor for onion addresses in JSON
		let json = format!("{{\"addr\": \"{}\"}}", input);
		match catch_unwind(move || serde_json::from_str::<Holder>(&json).map(|_| ())) {
			Ok(r) => assert!(r.is_err()),
			Err(e) => failures.push(format!(
				"ov3_serde on {:?}: expected a deserialization error, but it panicked: {}",
				input,
				panic_text(e)
			)),
		}
	}

	assert!(
		failures.is_empty(),
		"decoding an onion address must return an error, never panic:\n{}",
		failures.join("\n")
	);
}
