// C09 finding 1: a `receive_tx` JSON-RPC request on the foreign listener whose optional third
// parameter (`dest`) is anything the wallet cannot send to makes the handler panic
// (`Option::unwrap()` on `None` in api/src/foreign.rs) - after the output and the tx log entry
// of the "received" payment have already been written.
//
// Place in controller/tests/c09_finding1.rs and run:
//   cargo test --offline -j 3 -p grin_wallet_controller --test c09_finding1 -- --nocapture

#[macro_use]
extern crate log;
extern crate grin_wallet_controller as wallet;
extern crate grin_wallet_impls as impls;

use grin_core as core;
use grin_util as util;
use grin_wallet_api as api;
use grin_wallet_libwallet as libwallet;

use easy_jsonrpc_mw::Handler;
use impls::test_framework::LocalWalletClient;
use std::panic::{catch_unwind, AssertUnwindSafe};
use std::sync::atomic::Ordering;
use std::thread;
use std::time::Duration;

use api::{Foreign, ForeignRpc};
use self::core::core::FeeFields;
use libwallet::{ParticipantData, Slate, SlateVersion, VersionedSlate};
use util::secp::key::{PublicKey, SecretKey};
use util::static_secp_instance;

#[macro_use]
mod common;
use common::{clean_output_dir, create_wallet_proxy, setup};

/// A well-formed first-round (S1) slate as a sender's wallet would produce it
fn s1_slate_json(key_byte: u8) -> serde_json::Value {
	let mut s = Slate::blank(2, false);
	s.amount = 1_000_000_000;
	s.fee_fields = FeeFields::new(0, 23_500_000).unwrap();
	{
		// (the static secp instance must be released before the slate is serialized)
		let secp = static_secp_instance();
		let secp = secp.lock();
		let k1 = SecretKey::from_slice(&secp, &[key_byte; 32]).unwrap();
		let k2 = SecretKey::from_slice(&secp, &[key_byte + 1; 32]).unwrap();
		s.participant_data.push(ParticipantData {
			public_blind_excess: PublicKey::from_secret_key(&secp, &k1).unwrap(),
			public_nonce: PublicKey::from_secret_key(&secp, &k2).unwrap(),
			part_sig: None,
		});
	}
	let v = VersionedSlate::into_version(s, SlateVersion::V4).unwrap();
	serde_json::to_value(&v).unwrap()
}

fn panic_text(e: Box<dyn std::any::Any + Send>) -> String {
	if let Some(s) = e.downcast_ref::<String>() {
		s.clone()
	} else if let Some(s) = e.downcast_ref::<&str>() {
		s.to_string()
	} else {
		"<non-string panic payload>".to_owned()
	}
}

fn finding1_impl(test_dir: &'static str) -> Result<(), libwallet::Error> {
	let mut wallet_proxy = create_wallet_proxy(test_dir);
	let stopper = wallet_proxy.running.clone();
	create_wallet_and_add!(
		client1,
		wallet1,
		mask1_i,
		test_dir,
		"wallet1",
		None,
		&mut wallet_proxy,
		false
	);
	let mask1 = (&mask1_i).as_ref();
	thread::spawn(move || {
		if let Err(e) = wallet_proxy.run() {
			error!("Wallet Proxy error: {}", e);
		}
	});

	let count_txs = || -> Result<usize, libwallet::Error> {
		let mut n = 0;
		wallet::controller::owner_single_use(Some(wallet1.clone()), mask1, None, |api, m| {
			let (_, txs) = api.retrieve_txs(m, false, None, None, None)?;
			n = txs.len();
			Ok(())
		})?;
		Ok(n)
	};

	// the foreign API exactly as the foreign listener builds it for every request
	// (controller.rs: Foreign::new(wallet, mask, Some(check_middleware), test_mode))
	let foreign = Foreign::new(wallet1.clone(), mask1.cloned(), None, false);

	// Control: the same kind of request without a `dest` is answered normally
	let req = serde_json::json!({
		"jsonrpc": "2.0", "method": "receive_tx", "id": 1,
		"params": [s1_slate_json(0x11), null, null]
	});
	let reply = (&foreign as &dyn ForeignRpc)
		.handle_request(req)
		.as_option()
		.expect("a reply");
	assert!(
		reply["result"]["Ok"].is_object(),
		"control request should be accepted: {}",
		reply
	);
	let txs_before = count_txs()?;
	assert_eq!(txs_before, 1);

	// The input under test: same request, a different slate id, and a `dest` string that is
	// not a slatepack address (a single-field mutation of the valid request above)
	let mut failures: Vec<String> = vec![];
	for (n, dest) in [
		"this-is-not-a-slatepack-address",
		// a valid slatepack address: the listener has no Tor configuration set here, and
		// `tor_config.as_ref().unwrap()` (api/src/owner.rs) panics as well
		"tgrin1xtxavwfgs48ckf3gk8wwgcndmn0nt4tvkl8a7ltyejjcy2mc6nfs9gm2lp",
	]
	.iter()
	.enumerate()
	{
		let before = count_txs()?;
		let req = serde_json::json!({
			"jsonrpc": "2.0", "method": "receive_tx", "id": 1,
			"params": [s1_slate_json(0x21 + 2 * n as u8), null, dest]
		});
		let outcome = catch_unwind(AssertUnwindSafe(|| {
			(&foreign as &dyn ForeignRpc).handle_request(req).as_option()
		}));
		let after = count_txs()?;
		match outcome {
			Ok(reply) => {
				println!("reply for dest {:?}: {:?}", dest, reply);
				let reply = reply.expect("a reply");
				if reply["result"]["Err"].is_object() || reply["error"].is_object() {
					assert_eq!(
						before, after,
						"a rejected receive_tx request must leave the wallet untouched"
					);
				}
			}
			Err(e) => {
				failures.push(format!(
					"expected the foreign listener to answer receive_tx(dest = {:?}) with a result \
					 or an error; instead the request handler panicked with: {:?} - and the wallet's \
					 transaction log went from {} to {} entries (the payment was booked, the caller \
					 got no reply)",
					dest,
					panic_text(e),
					before,
					after
				));
			}
		}
	}

	stopper.store(false, Ordering::Relaxed);
	thread::sleep(Duration::from_millis(200));
	let _ = client1;
	assert!(failures.is_empty(), "\n{}", failures.join("\n"));
	Ok(())
}

#[test]
fn c09_foreign_receive_tx_dest_panics() {
	let test_dir = "test_output/c09_finding1";
	setup(test_dir);
	if let Err(e) = finding1_impl(test_dir) {
		panic!("Libwallet Error: {}", e);
	}
	clean_output_dir(test_dir);
}
