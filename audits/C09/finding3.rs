// C09 finding 3: an owner JSON-RPC `create_mwixnet_req` request whose hex parameters contain a
// non-ASCII character makes the request handler panic.
//
// api/src/owner_rpc.rs decodes `commitment` and every entry of `server_keys` with
// `grin_util::from_hex`, which slices the string two bytes at a time and panics inside a
// multi-byte character ("byte index 2 is not a char boundary"). Every other hex field of the
// RPC surface goes through the checked decoders in libwallet/src/slate_versions/ser.rs; these
// two do not.
//
// Place in controller/tests/c09_finding3.rs and run:
//   cargo test --offline -j 3 -p grin_wallet_controller --test c09_finding3 -- --nocapture

#[macro_use]
extern crate log;
extern crate grin_wallet_controller as wallet;
extern crate grin_wallet_impls as impls;

use grin_wallet_api as api;
use grin_wallet_libwallet as libwallet;

use easy_jsonrpc_mw::Handler;
use impls::test_framework::LocalWalletClient;
use std::panic::{catch_unwind, AssertUnwindSafe};
use std::sync::atomic::Ordering;
use std::thread;
use std::time::Duration;

use api::{Owner, OwnerRpc};

#[macro_use]
mod common;
use common::{clean_output_dir, create_wallet_proxy, setup};

fn panic_text(e: Box<dyn std::any::Any + Send>) -> String {
	if let Some(s) = e.downcast_ref::<String>() {
		s.clone()
	} else if let Some(s) = e.downcast_ref::<&str>() {
		s.to_string()
	} else {
		"<non-string panic payload>".to_owned()
	}
}

fn finding3_impl(test_dir: &'static str) -> Result<(), libwallet::Error> {
	let mut wallet_proxy = create_wallet_proxy(test_dir);
	let stopper = wallet_proxy.running.clone();
	create_wallet_and_add!(
		client1,
		wallet1,
		mask1_i,
		test_dir,
		"wallet1",
		None,
		&mut wallet_proxy,
		false
	);
	let _ = &mask1_i;
	thread::spawn(move || {
		if let Err(e) = wallet_proxy.run() {
			error!("Wallet Proxy error: {}", e);
		}
	});

	// the owner API as the owner listener dispatches (decrypted) requests to it
	let owner = Owner::new(wallet1.clone(), None);
	let good_commit = "08e1da9e6dc4d6e808a718b2f110a991dd775d65ce5ae408a4e1f002a4961aa9e7";
	let good_key = "97444ae673bb92c713c1a2f7b8882ffbfc1c67401a280a775dce1a8651584332";

	// Control: malformed but ASCII hex is refused with an error reply
	let req = serde_json::json!({
		"jsonrpc": "2.0", "method": "create_mwixnet_req", "id": 1,
		"params": {
			"token": null,
			"commitment": "zz",
			"fee_per_hop": "50000000",
			"lock_output": false,
			"server_keys": [good_key]
		}
	});
	let reply = (&owner as &dyn OwnerRpc)
		.handle_request(req)
		.as_option()
		.expect("a reply");
	assert!(
		reply["result"]["Err"].is_object() || reply["result"]["Err"].is_string(),
		"control: expected an error reply, got {}",
		reply
	);

	let mut failures: Vec<String> = vec![];
	// single-field mutations of a well-formed request: one character of a hex field replaced
	// by a two-byte character
	let cases = vec![
		("commitment", format!("0\u{e9}{}", &good_commit[3..]), good_key.to_owned()),
		("server_keys[0]", good_commit.to_owned(), format!("9\u{e9}{}", &good_key[3..])),
	];
	for (field, commitment, key) in cases {
		let req = serde_json::json!({
			"jsonrpc": "2.0", "method": "create_mwixnet_req", "id": 1,
			"params": {
				"token": null,
				"commitment": commitment,
				"fee_per_hop": "50000000",
				"lock_output": false,
				"server_keys": [key]
			}
		});
		let outcome = catch_unwind(AssertUnwindSafe(|| {
			(&owner as &dyn OwnerRpc).handle_request(req.clone()).as_option()
		}));
		match outcome {
			Ok(reply) => println!("reply for mutated {}: {:?}", field, reply),
			Err(e) => failures.push(format!(
				"create_mwixnet_req with a non-ASCII character in `{}`: expected a JSON-RPC error \
				 reply, but the handler panicked: {}",
				field,
				panic_text(e)
			)),
		}
	}

	stopper.store(false, Ordering::Relaxed);
	thread::sleep(Duration::from_millis(200));
	let _ = client1;
	assert!(
		failures.is_empty(),
		"a JSON-RPC request body must be answered with a result or an error, never a panic:\n{}",
		failures.join("\n")
	);
	Ok(())
}

#[test]
fn c09_owner_create_mwixnet_req_non_ascii_hex_panics() {
	let test_dir = "test_output/c09_finding3";
	setup(test_dir);
	if let Err(e) = finding3_impl(test_dir) {
		panic!("Libwallet Error: {}", e);
	}
	clean_output_dir(test_dir);
}
