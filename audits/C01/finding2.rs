// C01 finding 2: with very many change outputs the minimum fee exceeds what a kernel's fee
// field can hold (2^40 - 1 nanogrin). The wallet has the funds for amount + fee, so coin
// selection succeeds, and the wallet then panics on `fee.try_into().unwrap()` instead of
// returning an error (estimate and standard send; the late-lock path returns an error).
//
// Place in controller/tests/ and run with
//   cargo test --offline -j 2 -p grin_wallet_controller --test c01_finding2 -- --nocapture
#[macro_use]
extern crate log;
extern crate grin_wallet_controller as wallet;
extern crate grin_wallet_impls as impls;
extern crate grin_wallet_libwallet as libwallet;

use self::libwallet::InitTxArgs;
use grin_core::libtx::tx_fee;
use impls::test_framework::{self, LocalWalletClient};
use std::panic::{catch_unwind, AssertUnwindSafe};
use std::sync::atomic::Ordering;
use std::thread;
use std::time::Duration;

#[macro_use]
mod common;
use common::{clean_output_dir, create_wallet_proxy, setup};

fn panic_text(p: Box<dyn std::any::Any + Send>) -> String {
	if let Some(s) = p.downcast_ref::<String>() {
		s.clone()
	} else if let Some(s) = p.downcast_ref::<&str>() {
		s.to_string()
	} else {
		"<non-string panic payload>".to_owned()
	}
}

fn fee_overflow_impl(test_dir: &'static str) -> Result<(), libwallet::Error> {
	let mut wallet_proxy = create_wallet_proxy(test_dir);
	let chain = wallet_proxy.chain.clone();
	let stopper = wallet_proxy.running.clone();

	create_wallet_and_add!(
		client1,
		wallet1,
		mask1_i,
		test_dir,
		"wallet1",
		None,
		&mut wallet_proxy,
		false
	);
	let mask1 = (&mask1_i).as_ref();
	let _ = &client1;

	thread::spawn(move || {
		if let Err(e) = wallet_proxy.run() {
			error!("Wallet Proxy error: {}", e);
		}
	});

	// 30 blocks * 60 grin: enough for the amount plus a fee of ~1100 grin
	test_framework::award_blocks_to_wallet(&chain, wallet1.clone(), mask1, 30, false)?;

	let amount: u64 = 1_000_000_000;
	let num_change: u32 = 105_000;
	let fee_needed = tx_fee(30, num_change as usize + 1, 1);
	println!(
		"minimum fee for {} change outputs: {} (2^40 = {})",
		num_change,
		fee_needed,
		1u64 << 40
	);
	assert!(fee_needed > (1u64 << 40));

	let mut spendable = 0;
	wallet::controller::owner_single_use(Some(wallet1.clone()), mask1, None, |api, m| {
		let (_, info) = api.retrieve_summary_info(m, true, 1)?;
		spendable = info.amount_currently_spendable;
		Ok(())
	})?;
	println!("spendable: {}", spendable);
	assert!(
		spendable > amount + fee_needed,
		"test setup: wallet must be able to afford amount + fee"
	);

	let args = InitTxArgs {
		src_acct_name: None,
		amount,
		minimum_confirmations: 1,
		max_outputs: 500,
		num_change_outputs: num_change,
		selection_strategy_is_use_all: true,
		..Default::default()
	};

	// for contrast: the late-lock path reports the same situation as an error
	let mut late_args = args.clone();
	late_args.late_lock = Some(true);
	let late = catch_unwind(AssertUnwindSafe(|| {
		let mut r = None;
		let _ = wallet::controller::owner_single_use(
			Some(wallet1.clone()),
			mask1,
			None,
			|api, m| {
				r = Some(api.init_send_tx(m, late_args.clone()).map(|s| s.id));
				Ok(())
			},
		);
		r
	}));
	println!(
		"late-lock init_send_tx: {:?}",
		late.map_err(panic_text)
	);

	// estimate only (`grin-wallet send -e`, and any owner API client)
	let mut est_args = args.clone();
	est_args.estimate_only = Some(true);
	let est = catch_unwind(AssertUnwindSafe(|| {
		let mut r = None;
		let _ = wallet::controller::owner_single_use(
			Some(wallet1.clone()),
			mask1,
			None,
			|api, m| {
				r = Some(api.init_send_tx(m, est_args.clone()).map(|s| s.id));
				Ok(())
			},
		);
		r
	}))
	.map_err(panic_text);
	println!("estimate init_send_tx: {:?}", est);

	// the standard send itself (selection.rs, build_send_tx) has the same unwrap; it first
	// derives the 105000 change keys, which takes a while
	if std::env::var("C01_STANDARD_SEND").is_ok() {
		let t0 = std::time::Instant::now();
		let std_send = catch_unwind(AssertUnwindSafe(|| {
			let mut r = None;
			let _ = wallet::controller::owner_single_use(
				Some(wallet1.clone()),
				mask1,
				None,
				|api, m| {
					r = Some(api.init_send_tx(m, args.clone()).map(|s| s.id));
					Ok(())
				},
			);
			r
		}))
		.map_err(panic_text);
		println!(
			"standard init_send_tx ({:?}): {:?}",
			t0.elapsed(),
			std_send
		);
	}

	stopper.store(false, Ordering::Relaxed);
	thread::sleep(Duration::from_millis(200));

	match est {
		Ok(Some(Err(e))) => println!("refused with an error, as expected: {}", e),
		Ok(Some(Ok(id))) => panic!(
			"expected an error: a fee of {} cannot be represented, but init_send_tx returned slate {}",
			fee_needed, id
		),
		Ok(None) => panic!("init_send_tx was not called"),
		Err(p) => panic!(
			"expected init_send_tx (amount {}, {} change outputs, minimum fee {} > 2^40-1) to return \
			 an error rather than crash; it panicked with: {}",
			amount, num_change, fee_needed, p
		),
	}
	Ok(())
}

#[test]
fn c01_fee_beyond_fee_field_panics() {
	let test_dir = "test_output/c01_finding2";
	setup(test_dir);
	if let Err(e) = fee_overflow_impl(test_dir) {
		panic!("Libwallet Error: {}", e);
	}
	clean_output_dir(test_dir);
}
