// C01 finding 3: init_send_tx (and process_invoice_tx) asked to draw the inputs from a source
// account that does not exist silently falls back to whatever account is active and selects,
// and then reserves, that account's outputs.
//
// Place in controller/tests/ and run with
//   cargo test --offline -j 2 -p grin_wallet_controller --test c01_finding3 -- --nocapture
#[macro_use]
extern crate log;
extern crate grin_wallet_controller as wallet;
extern crate grin_wallet_impls as impls;
extern crate grin_wallet_libwallet as libwallet;

use self::libwallet::{InitTxArgs, IssueInvoiceTxArgs, OutputStatus};
use impls::test_framework::{self, LocalWalletClient};
use std::sync::atomic::Ordering;
use std::thread;
use std::time::Duration;

#[macro_use]
mod common;
use common::{clean_output_dir, create_wallet_proxy, setup};

fn unknown_src_account_impl(test_dir: &'static str) -> Result<(), libwallet::Error> {
	let mut wallet_proxy = create_wallet_proxy(test_dir);
	let chain = wallet_proxy.chain.clone();
	let stopper = wallet_proxy.running.clone();

	create_wallet_and_add!(
		client1,
		wallet1,
		mask1_i,
		test_dir,
		"wallet1",
		None,
		&mut wallet_proxy,
		false
	);
	let mask1 = (&mask1_i).as_ref();
	create_wallet_and_add!(
		client2,
		wallet2,
		mask2_i,
		test_dir,
		"wallet2",
		None,
		&mut wallet_proxy,
		false
	);
	let mask2 = (&mask2_i).as_ref();
	let _ = &client2;

	thread::spawn(move || {
		if let Err(e) = wallet_proxy.run() {
			error!("Wallet Proxy error: {}", e);
		}
	});

	// wallet1: accounts 'default' (active, holds the mined funds) and 'savings'
	wallet::controller::owner_single_use(Some(wallet1.clone()), mask1, None, |api, m| {
		api.create_account_path(m, "savings")?;
		Ok(())
	})?;
	test_framework::award_blocks_to_wallet(&chain, wallet1.clone(), mask1, 8, false)?;

	let amount: u64 = 5_000_000_000;
	let mut send_res: Option<Result<(), String>> = None;
	let mut invoice_res: Option<Result<(), String>> = None;
	let mut locked_default: Vec<(String, u64)> = vec![];

	// an invoice from wallet2, to be paid "from" the unknown account as well
	let mut invoice = None;
	wallet::controller::owner_single_use(Some(wallet2.clone()), mask2, None, |api, m| {
		let args = IssueInvoiceTxArgs {
			amount,
			..Default::default()
		};
		invoice = Some(api.issue_invoice_tx(m, args)?);
		Ok(())
	})?;
	let invoice = invoice.unwrap();

	wallet::controller::owner_single_use(Some(wallet1.clone()), mask1, None, |api, m| {
		// the accounts of this wallet
		let accts: Vec<String> = api.accounts(m)?.into_iter().map(|a| a.label).collect();
		println!("accounts: {:?}", accts);
		assert!(!accts.contains(&"saving".to_owned()));

		// 1. a send from 'saving' (a typo for 'savings'): no such account
		let args = InitTxArgs {
			src_acct_name: Some("saving".to_owned()),
			amount,
			minimum_confirmations: 2,
			max_outputs: 500,
			num_change_outputs: 1,
			selection_strategy_is_use_all: false,
			..Default::default()
		};
		match api.init_send_tx(m, args) {
			Err(e) => send_res = Some(Err(format!("{:?}", e))),
			Ok(slate_i) => {
				send_res = Some(Ok(()));
				let slate = client1.send_tx_slate_direct("wallet2", &slate_i)?;
				api.tx_lock_outputs(m, &slate)?;
			}
		}

		// 2. paying an invoice from 'saving'
		let args = InitTxArgs {
			src_acct_name: Some("saving".to_owned()),
			amount: invoice.amount,
			minimum_confirmations: 2,
			max_outputs: 500,
			num_change_outputs: 1,
			selection_strategy_is_use_all: false,
			..Default::default()
		};
		match api.process_invoice_tx(m, &invoice, args) {
			Err(e) => invoice_res = Some(Err(format!("{:?}", e))),
			Ok(slate) => {
				invoice_res = Some(Ok(()));
				api.tx_lock_outputs(m, &slate)?;
			}
		}

		// what has been reserved, and in which account (the active one is 'default')
		let (_, outputs) = api.retrieve_outputs(m, false, true, None)?;
		for o in outputs {
			if o.output.status == OutputStatus::Locked {
				locked_default.push((format!("{}", o.output.key_id), o.output.value));
			}
		}
		Ok(())
	})?;

	stopper.store(false, Ordering::Relaxed);
	thread::sleep(Duration::from_millis(200));

	println!("init_send_tx(src_acct_name = 'saving'): {:?}", send_res);
	println!("process_invoice_tx(src_acct_name = 'saving'): {:?}", invoice_res);
	println!("outputs of account 'default' now locked: {:?}", locked_default);

	assert!(
		send_res.as_ref().unwrap().is_err()
			&& invoice_res.as_ref().unwrap().is_err()
			&& locked_default.is_empty(),
		"expected a payment from source account 'saving', which does not exist, to be refused with an \
		 error and nothing to be reserved; instead init_send_tx returned {:?}, process_invoice_tx \
		 returned {:?}, and these outputs of account 'default' were selected as inputs and locked: {:?}",
		send_res,
		invoice_res,
		locked_default
	);
	Ok(())
}

#[test]
fn c01_unknown_source_account() {
	let test_dir = "test_output/c01_finding3";
	setup(test_dir);
	if let Err(e) = unknown_src_account_impl(test_dir) {
		panic!("Libwallet Error: {}", e);
	}
	clean_output_dir(test_dir);
}
