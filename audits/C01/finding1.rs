// C01 finding 1: a standard (not late-locked) send with "many change outputs" is accepted by
// init_send_tx although the transaction it describes exceeds the maximum transaction weight
// and can never be finalized; the inputs are then reserved by tx_lock_outputs and stay
// reserved when finalize_tx fails with TooHeavy.
//
// Place in controller/tests/ and run with
//   cargo test --offline -j 2 -p grin_wallet_controller --test c01_finding1 -- --nocapture
#[macro_use]
extern crate log;
extern crate grin_wallet_controller as wallet;
extern crate grin_wallet_impls as impls;
extern crate grin_wallet_libwallet as libwallet;

use self::libwallet::{InitTxArgs, Slate};
use grin_core::core::Transaction;
use grin_core::global;
use impls::test_framework::{self, LocalWalletClient};
use std::sync::atomic::Ordering;
use std::thread;
use std::time::Duration;

#[macro_use]
mod common;
use common::{clean_output_dir, create_wallet_proxy, setup};

fn too_heavy_send_impl(test_dir: &'static str) -> Result<(), libwallet::Error> {
	let mut wallet_proxy = create_wallet_proxy(test_dir);
	let chain = wallet_proxy.chain.clone();
	let stopper = wallet_proxy.running.clone();

	create_wallet_and_add!(
		client1,
		wallet1,
		mask1_i,
		test_dir,
		"wallet1",
		None,
		&mut wallet_proxy,
		false
	);
	let mask1 = (&mask1_i).as_ref();
	create_wallet_and_add!(
		client2,
		wallet2,
		mask2_i,
		test_dir,
		"wallet2",
		None,
		&mut wallet_proxy,
		false
	);
	let _mask2 = (&mask2_i).as_ref();
	let _ = &client2;
	let _ = &wallet2;

	thread::spawn(move || {
		if let Err(e) = wallet_proxy.run() {
			error!("Wallet Proxy error: {}", e);
		}
	});

	test_framework::award_blocks_to_wallet(&chain, wallet1.clone(), mask1, 10, false)?;

	let amount: u64 = 10_000_000_000;
	// 1 input + (1 recipient + N change) outputs + 1 kernel must exceed the maximum weight
	let max_weight = global::max_tx_weight();
	let mut num_change: u32 = 1;
	while Transaction::weight_by_iok(1, num_change as u64 + 1, 1) <= max_weight {
		num_change += 1;
	}
	println!(
		"max tx weight {}, using {} change outputs (weight {})",
		max_weight,
		num_change,
		Transaction::weight_by_iok(1, num_change as u64 + 1, 1)
	);

	let mut init_res: Option<Result<Slate, String>> = None;
	let mut lock_res: Option<Result<(), String>> = None;
	let mut fin_res: Option<Result<(), String>> = None;
	let mut locked_after: u64 = 0;

	wallet::controller::owner_single_use(Some(wallet1.clone()), mask1, None, |api, m| {
		let (_, before) = api.retrieve_summary_info(m, true, 1)?;
		assert_eq!(before.amount_locked, 0);

		let args = InitTxArgs {
			src_acct_name: None,
			amount,
			minimum_confirmations: 2,
			max_outputs: 500,
			num_change_outputs: num_change,
			selection_strategy_is_use_all: false,
			..Default::default()
		};
		let r = api.init_send_tx(m, args);
		match r {
			Err(e) => {
				init_res = Some(Err(format!("{}", e)));
			}
			Ok(slate_i) => {
				init_res = Some(Ok(slate_i.clone()));
				// the rest of the ordinary synchronous send (what `grin-wallet send` and
				// init_send_tx with send_args do)
				let slate = client1.send_tx_slate_direct("wallet2", &slate_i)?;
				let l = api.tx_lock_outputs(m, &slate);
				lock_res = Some(l.map_err(|e| format!("{}", e)));
				let f = api.finalize_tx(m, &slate);
				fin_res = Some(f.map(|_| ()).map_err(|e| format!("{:?}", e)));
			}
		}
		let (_, after) = api.retrieve_summary_info(m, true, 1)?;
		locked_after = after.amount_locked;
		Ok(())
	})?;

	stopper.store(false, Ordering::Relaxed);
	thread::sleep(Duration::from_millis(200));

	println!("init_send_tx: {:?}", init_res.as_ref().map(|r| r.as_ref().map(|s| s.id)));
	println!("tx_lock_outputs: {:?}", lock_res);
	println!("finalize_tx: {:?}", fin_res);
	println!("amount locked afterwards: {}", locked_after);

	let finalized = match fin_res {
		Some(Ok(())) => true,
		_ => false,
	};
	// Either the wallet refuses (an error, nothing reserved), or it builds a payment that
	// can be completed.
	assert!(
		init_res.as_ref().unwrap().is_err() || finalized,
		"expected init_send_tx to refuse a send with {} change outputs (transaction weight {} > max {}) \
		 with an error, reserving nothing; instead it agreed to build the payment, tx_lock_outputs \
		 returned {:?}, finalize_tx returned {:?} and {} nanogrin are left reserved (locked)",
		num_change,
		Transaction::weight_by_iok(1, num_change as u64 + 1, 1),
		max_weight,
		lock_res,
		fin_res,
		locked_after
	);
	assert_eq!(
		if finalized { 0 } else { locked_after },
		0,
		"a send that was refused must not leave funds reserved"
	);
	Ok(())
}

#[test]
fn c01_too_heavy_standard_send() {
	let test_dir = "test_output/c01_finding1";
	setup(test_dir);
	if let Err(e) = too_heavy_send_impl(test_dir) {
		panic!("Libwallet Error: {}", e);
	}
	clean_output_dir(test_dir);
}
