// Finding 2 (property C02, second audit): the transaction returned by finalize_tx for an
// invoice does not stay the transaction the wallet stores for re-posting: paying a later
// invoice that carries the same slate id replaces the stored, finalized transaction with the
// unsigned partial transaction of the new payment.
//
//  1. wallet2 issues invoice X; wallet1 pays it (process_invoice_tx, tx_lock_outputs);
//     wallet2 finalize_tx -> transaction T, stored as X.grintx. T is not mined yet.
//  2. wallet1 (who knows X) sends wallet2 an invoice of its own that carries the id X.
//  3. wallet2 pays it: process_invoice_tx accepts the id (it only looks for TxSent entries
//     and for a stored context - the context of X was deleted by finalize_tx), and
//     tx_lock_outputs writes the partial transaction of the new payment to X.grintx.
//  4. get_stored_tx (what `repost` uses) for wallet2's received entry no longer returns T.
//
// Place in controller/tests/finding2.rs, run with
//   cargo test --offline -j 2 -p grin_wallet_controller --test finding2 -- --nocapture

#[macro_use]
extern crate log;
extern crate grin_wallet_controller as wallet;
extern crate grin_wallet_impls as impls;
extern crate grin_wallet_libwallet as libwallet;

use grin_core as core;
use grin_util as util;

use self::core::ser;
use self::libwallet::{InitTxArgs, IssueInvoiceTxArgs, Slate, TxLogEntryType};
use impls::test_framework::{self, LocalWalletClient};
use std::sync::atomic::Ordering;
use std::thread;
use std::time::Duration;
use util::ToHex;

#[macro_use]
mod common;
use common::{clean_output_dir, create_wallet_proxy, setup};

fn stored_tx_replaced_impl(test_dir: &'static str) -> Result<(), libwallet::Error> {
	let mut wallet_proxy = create_wallet_proxy(test_dir);
	let chain = wallet_proxy.chain.clone();
	let stopper = wallet_proxy.running.clone();

	create_wallet_and_add!(
		client1,
		wallet1,
		mask1_i,
		test_dir,
		"wallet1",
		None,
		&mut wallet_proxy,
		false
	);
	let mask1 = (&mask1_i).as_ref();
	create_wallet_and_add!(
		client2,
		wallet2,
		mask2_i,
		test_dir,
		"wallet2",
		None,
		&mut wallet_proxy,
		false
	);
	let mask2 = (&mask2_i).as_ref();
	let _ = (&client1, &client2);

	thread::spawn(move || {
		if let Err(e) = wallet_proxy.run() {
			error!("Wallet Proxy error: {}", e);
		}
	});

	test_framework::award_blocks_to_wallet(&chain, wallet1.clone(), mask1, 4, false)?;
	test_framework::award_blocks_to_wallet(&chain, wallet2.clone(), mask2, 6, false)?;

	// 1. wallet2 invoices wallet1, wallet1 pays, wallet2 finalizes
	let amount = 5_000_000_000u64;
	let mut i1 = Slate::blank(2, true);
	let mut i2 = Slate::blank(2, true);
	let mut fin = Slate::blank(2, true);
	wallet::controller::owner_single_use(Some(wallet2.clone()), mask2, None, |api, m| {
		let args = IssueInvoiceTxArgs {
			amount,
			..Default::default()
		};
		i1 = api.issue_invoice_tx(m, args)?;
		Ok(())
	})?;
	wallet::controller::owner_single_use(Some(wallet1.clone()), mask1, None, |api, m| {
		let (_, _) = api.retrieve_summary_info(m, true, 1)?;
		let args = InitTxArgs {
			src_acct_name: None,
			amount,
			minimum_confirmations: 1,
			max_outputs: 500,
			num_change_outputs: 1,
			selection_strategy_is_use_all: false,
			..Default::default()
		};
		i2 = api.process_invoice_tx(m, &i1, args)?;
		api.tx_lock_outputs(m, &i2)?;
		Ok(())
	})?;
	wallet::controller::foreign_single_use(wallet2.clone(), mask2_i.clone(), |api| {
		fin = api.finalize_tx(&i2, false)?;
		Ok(())
	})?;
	let t_hex = ser::ser_vec(fin.tx_or_err()?, ser::ProtocolVersion(1))
		.unwrap()
		.to_hex();
	let t_kernel = fin.tx_or_err()?.kernels()[0].excess();
	println!(
		"wallet2 finalized invoice {}: transaction with kernel {:?}",
		i1.id, t_kernel
	);
	wallet::controller::owner_single_use(Some(wallet2.clone()), mask2, None, |api, m| {
		let stored = api.get_stored_tx(m, None, Some(&i1.id))?.unwrap();
		let s_hex = ser::ser_vec(stored.tx_or_err()?, ser::ProtocolVersion(1))
			.unwrap()
			.to_hex();
		assert_eq!(s_hex, t_hex, "right after finalization the stored tx is T");
		Ok(())
	})?;

	// 2. the former payer issues an invoice of its own and gives it the same id
	let mut j1 = Slate::blank(2, true);
	wallet::controller::owner_single_use(Some(wallet1.clone()), mask1, None, |api, m| {
		let args = IssueInvoiceTxArgs {
			amount: 1_000_000_000,
			..Default::default()
		};
		j1 = api.issue_invoice_tx(m, args)?;
		Ok(())
	})?;
	j1.id = i1.id;

	// 3. wallet2 pays that invoice
	let mut pay_res = None;
	wallet::controller::owner_single_use(Some(wallet2.clone()), mask2, None, |api, m| {
		let (_, _) = api.retrieve_summary_info(m, true, 1)?;
		let args = InitTxArgs {
			src_acct_name: None,
			amount: j1.amount,
			minimum_confirmations: 1,
			max_outputs: 500,
			num_change_outputs: 1,
			selection_strategy_is_use_all: false,
			..Default::default()
		};
		pay_res = Some(api.process_invoice_tx(m, &j1, args));
		if let Some(Ok(ref j2)) = pay_res {
			api.tx_lock_outputs(m, j2)?;
		}
		Ok(())
	})?;
	match pay_res.unwrap() {
		Err(e) => {
			// fine: the id is in use
			println!("process_invoice_tx refused the reused id: {}", e);
			stopper.store(false, Ordering::Relaxed);
			thread::sleep(Duration::from_millis(200));
			return Ok(());
		}
		Ok(_) => println!("process_invoice_tx + tx_lock_outputs accepted an invoice with the id of the finalized one"),
	}

	// 4. what does wallet2 hold for re-posting the payment it received?
	let mut same = true;
	let mut descr = String::new();
	wallet::controller::owner_single_use(Some(wallet2.clone()), mask2, None, |api, m| {
		let (_, txs) = api.retrieve_txs(m, false, None, Some(i1.id), None)?;
		let recv = txs
			.iter()
			.find(|t| t.tx_type == TxLogEntryType::TxReceived)
			.unwrap();
		println!(
			"wallet2's received entry {} (confirmed={}) for slate {}",
			recv.id, recv.confirmed, i1.id
		);
		// the way `grin-wallet repost -i <id>` fetches it
		let stored = api.get_stored_tx(m, Some(recv.id), None)?.unwrap();
		let stx = stored.tx_or_err()?;
		let s_hex = ser::ser_vec(stx, ser::ProtocolVersion(1)).unwrap().to_hex();
		same = s_hex == t_hex;
		descr = format!(
			"{} inputs, {} outputs, kernel {:?}, kernel signature verifies: {}",
			stx.inputs().len(),
			stx.outputs().len(),
			stx.kernels()[0].excess(),
			stx.kernels()[0].verify().is_ok()
		);
		println!("stored transaction for that entry now: {}", descr);
		Ok(())
	})?;

	stopper.store(false, Ordering::Relaxed);
	thread::sleep(Duration::from_millis(200));

	assert!(
		same,
		"the transaction wallet2 stores for re-posting the payment it received (slate {}) is no \
		 longer the transaction finalize_tx returned (kernel {:?}): it was replaced by the partial \
		 transaction of a later invoice carrying the same id ({}). Expected: the stored transaction \
		 stays byte-for-byte the finalized one (process_invoice_tx refuses an id the wallet already \
		 holds a transaction for)",
		i1.id,
		t_kernel,
		descr
	);
	Ok(())
}

#[test]
fn finding2_stored_finalized_tx_replaced_by_later_invoice_with_same_id() {
	let test_dir = "test_output/finding2";
	setup(test_dir);
	if let Err(e) = stored_tx_replaced_impl(test_dir) {
		panic!("Libwallet Error: {}", e);
	}
	clean_output_dir(test_dir);
}
