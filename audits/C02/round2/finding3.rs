// Finding 3 (property C02, second audit): invoice flow - finalize_tx returns (and stores) a
// transaction whose fee does NOT meet the minimum: the fee field of the reply is taken as it
// is, and `check_fees` only looks at its low 40 bits, not at the fee shift in the bits above.
//
// A node's pool requires `fee >> fee_shift >= weight * accept_fee_base`
// (grin_pool transaction_pool.rs: `if tx.shifted_fee() < tx.accept_fee() { LowFeeTransaction }`).
// With the minimum fee in the low bits and a non-zero shift the finalized transaction is
// refused by every node, while the wallet has finalized it, stored it for re-posting and
// deleted the context of the invoice.
//
//  1. wallet2 issues an invoice
//  2. the payer answers with an Invoice2 slate whose fee field is
//     (fee_shift = 3, fee = exact minimum for the transaction), signed accordingly.
//     (The stock wallet never sets a shift, so the payer's half is built here with the public
//     slate functions - the counterparty can run any software.)
//  3. wallet2 finalize_tx(reply) -> Ok
//
// Place in controller/tests/finding3.rs, run with
//   cargo test --offline -j 2 -p grin_wallet_controller --test finding3 -- --nocapture

#[macro_use]
extern crate log;
extern crate grin_wallet_controller as wallet;
extern crate grin_wallet_impls as impls;
extern crate grin_wallet_libwallet as libwallet;

use grin_core as core;
use grin_keychain as keychain;

use self::core::core::FeeFields;
use self::core::libtx::{build, proof::ProofBuilder, tx_fee};
use self::keychain::Keychain;
use self::libwallet::{
	Context, IssueInvoiceTxArgs, OutputStatus, Slate, SlateState,
};
use impls::test_framework::{self, LocalWalletClient};
use std::sync::atomic::Ordering;
use std::thread;
use std::time::Duration;

#[macro_use]
mod common;
use common::{clean_output_dir, create_wallet_proxy, setup};

fn invoice_fee_shift_impl(test_dir: &'static str) -> Result<(), libwallet::Error> {
	let mut wallet_proxy = create_wallet_proxy(test_dir);
	let chain = wallet_proxy.chain.clone();
	let stopper = wallet_proxy.running.clone();

	create_wallet_and_add!(
		client1,
		wallet1,
		mask1_i,
		test_dir,
		"wallet1",
		None,
		&mut wallet_proxy,
		false
	);
	let mask1 = (&mask1_i).as_ref();
	create_wallet_and_add!(
		client2,
		wallet2,
		mask2_i,
		test_dir,
		"wallet2",
		None,
		&mut wallet_proxy,
		false
	);
	let mask2 = (&mask2_i).as_ref();
	let _ = (&client1, &client2);

	thread::spawn(move || {
		if let Err(e) = wallet_proxy.run() {
			error!("Wallet Proxy error: {}", e);
		}
	});

	// the payer has some funds
	test_framework::award_blocks_to_wallet(&chain, wallet1.clone(), mask1, 6, false)?;

	// 1. the invoice
	let amount = 10_000_000_000u64;
	let mut i1 = Slate::blank(2, true);
	wallet::controller::owner_single_use(Some(wallet2.clone()), mask2, None, |api, m| {
		let args = IssueInvoiceTxArgs {
			amount,
			..Default::default()
		};
		i1 = api.issue_invoice_tx(m, args)?;
		Ok(())
	})?;

	// 2. the payer's half, built by hand: one input, one change output, fee field with a shift
	let mut input = None;
	wallet::controller::owner_single_use(Some(wallet1.clone()), mask1, None, |api, m| {
		let (_, outputs) = api.retrieve_outputs(m, false, true, None)?;
		let (_, info) = api.retrieve_summary_info(m, false, 1)?;
		input = outputs
			.into_iter()
			.map(|o| o.output)
			.find(|o| {
				o.status == OutputStatus::Unspent && o.lock_height <= info.last_confirmed_height
			});
		Ok(())
	})?;
	let input = input.expect("payer has a spendable output");
	let min_fee = tx_fee(1, 2, 1);
	let shift = 3u64;
	let fee_fields = FeeFields::new(shift, min_fee).unwrap();
	let change = input.value - amount - min_fee;

	let mut i2 = i1.clone();
	{
		wallet_inst!(wallet1, w);
		let keychain = w.keychain(mask1)?;
		let change_key = w.next_child(mask1)?;
		i2.tx = Some(Slate::empty_transaction());
		i2.fee_fields = fee_fields;
		let elems = vec![
			if input.is_coinbase {
				build::coinbase_input(input.value, input.key_id.clone())
			} else {
				build::input(input.value, input.key_id.clone())
			},
			build::output(change, change_key.clone()),
		];
		i2.add_transaction_elements(&keychain, &ProofBuilder::new(&keychain), elems)?;
		let mut context = Context::new(keychain.secp(), &input.root_key_id, false, false);
		context.add_input(&input.key_id, &input.mmr_index, input.value);
		context.add_output(&change_key, &None, change);
		i2.fill_round_1(&keychain, &mut context)?;
		context.initial_sec_key = context.sec_key.clone();
		i2.fill_round_2(&keychain, &context.sec_key, &context.sec_nonce)?;
		i2.adjust_offset(&keychain, &context)?;
		i2.tx_or_err_mut()?.offset = i2.offset.clone();
		i2.amount = 0;
		i2.state = SlateState::Invoice2;
	}
	println!(
		"reply: fee field {:?} = fee {} (the minimum for 1 input, 2 outputs, 1 kernel) with fee_shift {}",
		i2.fee_fields,
		i2.fee_fields.fee(),
		i2.fee_fields.fee_shift()
	);

	// 3. the invoicer finalizes
	let mut fin = None;
	wallet::controller::foreign_single_use(wallet2.clone(), mask2_i.clone(), |api| {
		fin = Some(api.finalize_tx(&i2, false));
		Ok(())
	})?;

	stopper.store(false, Ordering::Relaxed);
	thread::sleep(Duration::from_millis(200));

	let fin = match fin.unwrap() {
		Err(e) => {
			// fine: no transaction came out of finalization
			println!("finalize_tx refused the reply: {}", e);
			return Ok(());
		}
		Ok(s) => s,
	};
	let tx = fin.tx_or_err()?.clone();
	println!(
		"finalize_tx returned a transaction: {} inputs, {} outputs, kernel fee field {:?}",
		tx.inputs().len(),
		tx.outputs().len(),
		tx.kernels()[0].features
	);
	println!(
		"fee {} >> shift {} = {}; minimum (weight {} * base fee) = {}",
		tx.fee(),
		tx.body.fee_shift(),
		tx.shifted_fee(),
		tx.weight(),
		tx.accept_fee()
	);
	assert!(
		tx.shifted_fee() >= tx.accept_fee(),
		"finalize_tx returned a transaction whose fee does not meet the minimum: fee {} with \
		 fee_shift {} counts as {} against a minimum of {} (a node's pool refuses it: \
		 LowFeeTransaction). Expected: a reply whose fee field does not meet the minimum is \
		 refused by finalize_tx",
		tx.fee(),
		tx.body.fee_shift(),
		tx.shifted_fee(),
		tx.accept_fee()
	);
	Ok(())
}

#[test]
fn finding3_invoice_finalized_with_fee_below_minimum() {
	let test_dir = "test_output/finding3";
	setup(test_dir);
	if let Err(e) = invoice_fee_shift_impl(test_dir) {
		panic!("Libwallet Error: {}", e);
	}
	clean_output_dir(test_dir);
}
