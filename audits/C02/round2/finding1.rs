// Finding 1 (property C02, second audit): after an altered reply has been refused by
// finalize_tx, the pending send can NOT be cancelled any more - the wallet records it as
// confirmed although no transaction was ever produced, and its inputs stay locked.
//
// The reply is altered in the recipient's participant data only (public excess key and,
// necessarily, the partial signature): the public excess is set to the excess of a kernel
// that is already on chain (here: the coinbase kernel of the tip block, public data).
//
// Sequence (exactly what the wallet's own synchronous send does - `send` to an http/tor
// destination, or init_send_tx with send_args: api/src/owner.rs 695-715 and
// controller/src/command.rs - i.e. lock with the slate that came back, then finalize):
//  1. init_send_tx for the whole spendable balance (amount_includes_fee, use_all): a send
//     without change output
//  2. the recipient's reply comes back with the altered participant key
//  3. tx_lock_outputs(reply)   -> Ok; the TxSent entry's kernel_excess is computed from the
//                                 reply's participant data, i.e. it is the recipient's key
//  4. finalize_tx(reply)       -> Err (partial signature does not verify) - as required
//  5. cancel_tx(slate id)      -> required: Ok. Actual: TransactionNotCancellable, because the
//                                 refresh that cancel_tx runs first looks the entry's
//                                 kernel_excess up on chain (entries without change are
//                                 confirmed by kernel), finds the kernel the recipient pointed
//                                 it to, and marks the never-finalized send as confirmed.
//
// Place in controller/tests/finding1.rs, run with
//   cargo test --offline -j 2 -p grin_wallet_controller --test finding1 -- --nocapture

#[macro_use]
extern crate log;
extern crate grin_wallet_controller as wallet;
extern crate grin_wallet_impls as impls;
extern crate grin_wallet_libwallet as libwallet;

use grin_core::core::hash::Hashed;
use grin_util as util;

use self::libwallet::{InitTxArgs, OutputStatus, Slate, TxLogEntryType};
use impls::test_framework::{self, LocalWalletClient};
use std::sync::atomic::Ordering;
use std::thread;
use std::time::Duration;

#[macro_use]
mod common;
use common::{clean_output_dir, create_wallet_proxy, setup};

fn cancel_blocked_impl(test_dir: &'static str) -> Result<(), libwallet::Error> {
	let mut wallet_proxy = create_wallet_proxy(test_dir);
	let chain = wallet_proxy.chain.clone();
	let stopper = wallet_proxy.running.clone();

	create_wallet_and_add!(
		client1,
		wallet1,
		mask1_i,
		test_dir,
		"wallet1",
		None,
		&mut wallet_proxy,
		false
	);
	let mask1 = (&mask1_i).as_ref();
	create_wallet_and_add!(
		client2,
		wallet2,
		mask2_i,
		test_dir,
		"wallet2",
		None,
		&mut wallet_proxy,
		false
	);
	let _ = (&client2, &wallet2, &mask2_i);

	thread::spawn(move || {
		if let Err(e) = wallet_proxy.run() {
			error!("Wallet Proxy error: {}", e);
		}
	});

	test_framework::award_blocks_to_wallet(&chain, wallet1.clone(), mask1, 6, false)?;

	let mut spendable = 0;
	wallet::controller::owner_single_use(Some(wallet1.clone()), mask1, None, |api, m| {
		let (_, info) = api.retrieve_summary_info(m, true, 2)?;
		spendable = info.amount_currently_spendable;
		Ok(())
	})?;
	assert!(spendable > 0);

	// 1. a send without change: everything that is spendable, fee included
	let mut s1 = Slate::blank(2, false);
	wallet::controller::owner_single_use(Some(wallet1.clone()), mask1, None, |api, m| {
		let args = InitTxArgs {
			src_acct_name: None,
			amount: spendable,
			amount_includes_fee: Some(true),
			minimum_confirmations: 2,
			max_outputs: 500,
			num_change_outputs: 1,
			selection_strategy_is_use_all: true,
			..Default::default()
		};
		s1 = api.init_send_tx(m, args)?;
		Ok(())
	})?;
	println!(
		"send of {} (amount {} + fee {}) initiated",
		spendable,
		s1.amount,
		s1.fee_fields.fee()
	);

	// 2. the recipient's reply, with the recipient's public excess replaced by the excess of
	// a kernel that is on chain (the coinbase kernel of the tip block: public data)
	let mut s2 = client1.send_tx_slate_direct("wallet2", &s1)?;
	let tip = chain.head_header().unwrap();
	let tip_block = chain.get_block(&tip.hash()).unwrap();
	let onchain_excess = tip_block.kernels()[0].excess();
	{
		let secp = util::static_secp_instance();
		let secp = secp.lock();
		assert_eq!(s2.participant_data.len(), 1);
		s2.participant_data[0].public_blind_excess = onchain_excess.to_pubkey(&secp).unwrap();
	}
	println!(
		"reply altered: recipient's public excess := excess of the kernel of block {} ({:?})",
		tip.height, onchain_excess
	);

	// 3. + 4. lock with the slate that came back, then finalize (the synchronous send flow)
	let mut fin = None;
	wallet::controller::owner_single_use(Some(wallet1.clone()), mask1, None, |api, m| {
		api.tx_lock_outputs(m, &s2)?;
		fin = Some(api.finalize_tx(m, &s2));
		Ok(())
	})?;
	match fin.unwrap() {
		Ok(_) => panic!("finalize_tx accepted the altered reply (not what this test is about)"),
		Err(e) => println!("finalize_tx refused the altered reply, as required: {}", e),
	}

	// the send is pending: entry unconfirmed, inputs locked
	wallet::controller::owner_single_use(Some(wallet1.clone()), mask1, None, |api, m| {
		let (_, txs) = api.retrieve_txs(m, false, None, Some(s1.id), None)?;
		let sent = txs
			.iter()
			.find(|t| t.tx_type == TxLogEntryType::TxSent)
			.unwrap();
		println!(
			"after the refused finalization: entry {} confirmed={} inputs {} debited {} credited {} kernel_excess {:?}",
			sent.id, sent.confirmed, sent.num_inputs, sent.amount_debited, sent.amount_credited, sent.kernel_excess
		);
		assert!(!sent.confirmed);
		Ok(())
	})?;

	// 5. the owner gives the send up
	let mut cancel_res = None;
	wallet::controller::owner_single_use(Some(wallet1.clone()), mask1, None, |api, m| {
		cancel_res = Some(api.cancel_tx(m, None, Some(s1.id)));
		Ok(())
	})?;
	let cancel_res = cancel_res.unwrap();

	let mut confirmed = false;
	let mut locked = 0;
	let mut n_locked = 0;
	wallet::controller::owner_single_use(Some(wallet1.clone()), mask1, None, |api, m| {
		let (_, txs) = api.retrieve_txs(m, true, None, Some(s1.id), None)?;
		let sent = txs
			.iter()
			.find(|t| {
				t.tx_type == TxLogEntryType::TxSent || t.tx_type == TxLogEntryType::TxSentCancelled
			})
			.unwrap();
		confirmed = sent.confirmed;
		println!(
			"after cancel_tx: entry {} type {:?} confirmed={}",
			sent.id, sent.tx_type, sent.confirmed
		);
		let (_, outputs) = api.retrieve_outputs(m, false, true, Some(sent.id))?;
		n_locked = outputs
			.iter()
			.filter(|o| o.output.status == OutputStatus::Locked)
			.count();
		let (_, info) = api.retrieve_summary_info(m, true, 2)?;
		locked = info.amount_locked;
		println!(
			"wallet reports {} locked ({} outputs locked by the entry), {} spendable",
			info.amount_locked, n_locked, info.amount_currently_spendable
		);
		Ok(())
	})?;

	stopper.store(false, Ordering::Relaxed);
	thread::sleep(Duration::from_millis(200));

	assert!(
		cancel_res.is_ok(),
		"finalize_tx refused the altered reply, but the pending send can not be cancelled: \
		 cancel_tx returned `{}`; the wallet now records the send as confirmed={} although no \
		 transaction was ever produced, and {} ({} outputs) stay locked. Expected: after a \
		 refused reply the pending transaction can still be cancelled",
		cancel_res.as_ref().err().unwrap(),
		confirmed,
		locked,
		n_locked
	);
	Ok(())
}

#[test]
fn finding1_refused_reply_leaves_send_uncancellable() {
	let test_dir = "test_output/finding1";
	setup(test_dir);
	if let Err(e) = cancel_blocked_impl(test_dir) {
		panic!("Libwallet Error: {}", e);
	}
	clean_output_dir(test_dir);
}
