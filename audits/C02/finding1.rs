// Finding 1 (property C02): a reply to a standard send whose `state` was changed from
// Standard2 to Invoice2 is finalized through the invoice branch of `finalize_tx`, which
// takes the fee from the reply instead of from the sender's stored context (and never
// verifies the payment proof). All the branch needs is a `TxReceived` log entry carrying
// the same slate id, which the counterparty can plant through the sender's foreign
// `receive_tx`. The sender's wallet then returns (and stores) a finalized transaction that
// pays a fee other than the one fixed at initiation.
//
// Place in controller/tests/finding1.rs, run with
//   cargo test --offline -j 2 -p grin_wallet_controller --test finding1 -- --nocapture

#[macro_use]
extern crate log;
extern crate grin_wallet_controller as wallet;
extern crate grin_wallet_impls as impls;
extern crate grin_wallet_libwallet as libwallet;

use grin_core as core;

use self::core::core::FeeFields;
use self::libwallet::{InitTxArgs, Slate, SlateState, TxLogEntryType};
use impls::test_framework::{self, LocalWalletClient};
use std::sync::atomic::Ordering;
use std::thread;
use std::time::Duration;

#[macro_use]
mod common;
use common::{clean_output_dir, create_wallet_proxy, setup};

fn state_confusion_impl(test_dir: &'static str) -> Result<(), libwallet::Error> {
	let mut wallet_proxy = create_wallet_proxy(test_dir);
	let chain = wallet_proxy.chain.clone();
	let stopper = wallet_proxy.running.clone();

	// wallet1 is the sender (victim), wallet2 the recipient (attacker)
	create_wallet_and_add!(
		client1,
		wallet1,
		mask1_i,
		test_dir,
		"wallet1",
		None,
		&mut wallet_proxy,
		false
	);
	let mask1 = (&mask1_i).as_ref();
	create_wallet_and_add!(
		client2,
		wallet2,
		mask2_i,
		test_dir,
		"wallet2",
		None,
		&mut wallet_proxy,
		false
	);
	let mask2 = (&mask2_i).as_ref();
	let _ = (&client1, &client2);

	thread::spawn(move || {
		if let Err(e) = wallet_proxy.run() {
			error!("Wallet Proxy error: {}", e);
		}
	});

	// both wallets get some funds
	test_framework::award_blocks_to_wallet(&chain, wallet2.clone(), mask2, 4, false)?;
	test_framework::award_blocks_to_wallet(&chain, wallet1.clone(), mask1, 10, false)?;

	let amount: u64 = 10_000_000_000;
	let delta: u64 = 7_000_000; // the attacker moves this much from its output into the fee

	// 1. the sender initiates an ordinary send and reserves its inputs
	let mut s1 = Slate::blank(2, false);
	wallet::controller::owner_single_use(Some(wallet1.clone()), mask1, None, |api, m| {
		let args = InitTxArgs {
			src_acct_name: None,
			amount,
			minimum_confirmations: 2,
			max_outputs: 500,
			num_change_outputs: 1,
			selection_strategy_is_use_all: false,
			..Default::default()
		};
		s1 = api.init_send_tx(m, args)?;
		api.tx_lock_outputs(m, &s1)?;
		Ok(())
	})?;
	let agreed_fee = s1.fee_fields.fee();
	assert!(agreed_fee > 0);
	println!("agreed amount {} fee {}", amount, agreed_fee);

	// 2. the recipient, who now knows the slate id, sends the sender some unrelated payment
	//    that carries the same slate id. The sender's foreign API accepts it and records a
	//    TxReceived entry with that id.
	let mut plant = Slate::blank(2, false);
	wallet::controller::owner_single_use(Some(wallet2.clone()), mask2, None, |api, m| {
		let args = InitTxArgs {
			src_acct_name: None,
			amount: 1_000_000_000,
			minimum_confirmations: 2,
			max_outputs: 500,
			num_change_outputs: 1,
			selection_strategy_is_use_all: false,
			..Default::default()
		};
		plant = api.init_send_tx(m, args)?;
		Ok(())
	})?;
	plant.id = s1.id;
	wallet::controller::foreign_single_use(wallet1.clone(), mask1_i.clone(), |api| {
		api.receive_tx(&plant, None, None)?;
		Ok(())
	})?;

	// 3. the recipient answers the real send with a reply that was built for another fee
	//    (its own output is smaller by `delta`, the kernel fee larger by `delta`, so the
	//    sums still balance) and that claims to be the reply of an invoice (Invoice2)
	let mut tampered_s1 = s1.clone();
	tampered_s1.fee_fields = FeeFields::new(0, agreed_fee + delta).unwrap();
	tampered_s1.amount = amount - delta;
	let mut reply = Slate::blank(2, false);
	wallet::controller::foreign_single_use(wallet2.clone(), mask2_i.clone(), |api| {
		reply = api.receive_tx(&tampered_s1, None, None)?;
		Ok(())
	})?;
	assert_eq!(reply.state, SlateState::Standard2);
	reply.state = SlateState::Invoice2;
	reply.fee_fields = FeeFields::new(0, agreed_fee + delta).unwrap();

	// 4. the sender finalizes the reply
	let mut res = None;
	wallet::controller::owner_single_use(Some(wallet1.clone()), mask1, None, |api, m| {
		res = Some(api.finalize_tx(m, &reply));
		Ok(())
	})?;

	match res.unwrap() {
		Err(e) => {
			// what the property asks for: refusal, and the send can still be cancelled
			println!("finalize_tx refused the altered reply: {}", e);
			wallet::controller::owner_single_use(Some(wallet1.clone()), mask1, None, |api, m| {
				api.cancel_tx(m, None, Some(s1.id))?;
				Ok(())
			})?;
		}
		Ok(fin) => {
			let tx = fin.tx_or_err()?.clone();
			println!(
				"finalize_tx returned a transaction: state {}, kernel fee {}, {} inputs, {} outputs",
				fin.state,
				tx.fee(),
				tx.inputs().len(),
				tx.outputs().len()
			);
			// it is also what the wallet now stores for re-posting
			wallet::controller::owner_single_use(Some(wallet1.clone()), mask1, None, |api, m| {
				let stored = api.get_stored_tx(m, None, Some(&s1.id))?.unwrap();
				assert_eq!(stored.tx_or_err()?, &tx);
				let (_, txs) = api.retrieve_txs(m, false, None, Some(s1.id), None)?;
				let sent = txs
					.iter()
					.find(|t| t.tx_type == TxLogEntryType::TxSent)
					.unwrap();
				println!(
					"sender's log entry for the send records fee {:?}",
					sent.fee.map(|f| f.fee())
				);
				Ok(())
			})?;
			assert_eq!(
				tx.fee(),
				agreed_fee,
				"finalize_tx returned a transaction whose fee ({}) is not the fee fixed at \
				 initiation ({}): expected the altered reply (state changed to Invoice2, fee \
				 changed) to be refused",
				tx.fee(),
				agreed_fee
			);
		}
	}

	stopper.store(false, Ordering::Relaxed);
	thread::sleep(Duration::from_millis(200));
	Ok(())
}

#[test]
fn finding1_reply_state_changed_to_invoice_takes_fee_from_reply() {
	let test_dir = "test_output/finding1";
	setup(test_dir);
	if let Err(e) = state_confusion_impl(test_dir) {
		panic!("Libwallet Error: {}", e);
	}
	clean_output_dir(test_dir);
}
