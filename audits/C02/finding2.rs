// Finding 2 (property C02): the transaction the wallet hands out for re-posting a
// finalized send is not the transaction finalization returned when the wallet has more
// than one account. Transaction log ids are numbered per account, but
// `owner::get_stored_tx` (which is what the `repost` command uses: get_stored_tx(Some(id)))
// resolves the log id with `tx_log_iter().find(|t| t.id == id)` over the entries of ALL
// accounts, so for an entry of any account but the first it picks the entry with the same
// number of another account and returns that entry's stored transaction.
//
// Place in controller/tests/finding2.rs, run with
//   cargo test --offline -j 2 -p grin_wallet_controller --test finding2 -- --nocapture

#[macro_use]
extern crate log;
extern crate grin_wallet_controller as wallet;
extern crate grin_wallet_impls as impls;
extern crate grin_wallet_libwallet as libwallet;

use self::libwallet::{InitTxArgs, Slate, TxLogEntryType};
use impls::test_framework::{self, LocalWalletClient};
use std::sync::atomic::Ordering;
use std::thread;
use std::time::Duration;

#[macro_use]
mod common;
use common::{clean_output_dir, create_wallet_proxy, setup};

fn repost_wrong_account_impl(test_dir: &'static str) -> Result<(), libwallet::Error> {
	let mut wallet_proxy = create_wallet_proxy(test_dir);
	let chain = wallet_proxy.chain.clone();
	let stopper = wallet_proxy.running.clone();

	create_wallet_and_add!(
		client1,
		wallet1,
		mask1_i,
		test_dir,
		"wallet1",
		None,
		&mut wallet_proxy,
		false
	);
	let mask1 = (&mask1_i).as_ref();
	create_wallet_and_add!(
		client2,
		wallet2,
		mask2_i,
		test_dir,
		"wallet2",
		None,
		&mut wallet_proxy,
		false
	);
	let _ = (&client2, &wallet2, &mask2_i);

	thread::spawn(move || {
		if let Err(e) = wallet_proxy.run() {
			error!("Wallet Proxy error: {}", e);
		}
	});

	wallet::controller::owner_single_use(Some(wallet1.clone()), mask1, None, |api, m| {
		api.create_account_path(m, "account1")?;
		Ok(())
	})?;

	let send = |amount: u64| -> Result<Slate, libwallet::Error> {
		let mut fin = Slate::blank(2, false);
		wallet::controller::owner_single_use(Some(wallet1.clone()), mask1, None, |api, m| {
			let args = InitTxArgs {
				src_acct_name: None,
				amount,
				minimum_confirmations: 2,
				max_outputs: 500,
				num_change_outputs: 1,
				selection_strategy_is_use_all: false,
				..Default::default()
			};
			let s1 = api.init_send_tx(m, args)?;
			let s2 = client1.send_tx_slate_direct("wallet2", &s1)?;
			api.tx_lock_outputs(m, &s2)?;
			fin = api.finalize_tx(m, &s2)?;
			Ok(())
		})?;
		Ok(fin)
	};

	// the default account mines 5 blocks (log ids 0..4) and makes a send (log id 5),
	// which is posted and mined
	test_framework::award_blocks_to_wallet(&chain, wallet1.clone(), mask1, 5, false)?;
	let fin_a = send(3_000_000_000)?;
	wallet::controller::owner_single_use(Some(wallet1.clone()), mask1, None, |api, m| {
		api.post_tx(m, &fin_a, true)?;
		Ok(())
	})?;

	// account1 becomes the active account, mines 5 blocks (its log ids 0..4) and makes
	// its own send (its log id 5), which is finalized but not posted yet
	{
		wallet_inst!(wallet1, w);
		w.set_parent_key_id_by_name("account1")?;
	}
	test_framework::award_blocks_to_wallet(&chain, wallet1.clone(), mask1, 5, false)?;
	let fin_b = send(7_000_000_000)?;
	let tx_b = fin_b.tx_or_err()?.clone();

	wallet::controller::owner_single_use(Some(wallet1.clone()), mask1, None, |api, m| {
		// the log entry of the send just finalized, in the active account
		let (_, txs) = api.retrieve_txs(m, true, None, Some(fin_b.id), None)?;
		assert_eq!(txs.len(), 1);
		let entry = &txs[0];
		assert_eq!(entry.tx_type, TxLogEntryType::TxSent);
		assert!(!entry.confirmed);
		println!(
			"active account: log entry {} is the unconfirmed send {}",
			entry.id, fin_b.id
		);

		// fetched by slate id the stored transaction is the finalized one ...
		let by_uuid = api.get_stored_tx(m, None, Some(&fin_b.id))?.unwrap();
		assert_eq!(by_uuid.tx_or_err()?, &tx_b);

		// ... but `repost -i <id>` fetches it by the entry's log id
		let by_id = api.get_stored_tx(m, Some(entry.id), None)?.unwrap();
		println!(
			"get_stored_tx(Some({})) returned the transaction of slate {} (kernel {:?})",
			entry.id,
			by_id.id,
			by_id.tx_or_err()?.kernels()[0].excess
		);
		println!(
			"finalization had returned slate {} (kernel {:?})",
			fin_b.id,
			tx_b.kernels()[0].excess
		);
		assert!(
			by_id.tx_or_err()? == &tx_b,
			"the transaction the wallet returns for re-posting log entry {} of the active \
			 account is not the transaction finalize_tx returned for that entry (it is the \
			 stored transaction of slate {}, entry {} of another account)",
			entry.id,
			by_id.id,
			entry.id
		);
		Ok(())
	})?;

	stopper.store(false, Ordering::Relaxed);
	thread::sleep(Duration::from_millis(200));
	Ok(())
}

#[test]
fn finding2_stored_tx_for_repost_is_another_accounts_transaction() {
	let test_dir = "test_output/finding2";
	setup(test_dir);
	if let Err(e) = repost_wrong_account_impl(test_dir) {
		panic!("Libwallet Error: {}", e);
	}
	clean_output_dir(test_dir);
}
