// Finding 3 (property C02): a late-locked send can be finalized into a transaction that
// spends inputs the wallet never reserved.
//
// Sequence (re-ordered / repeated protocol steps, no altered data, no modified source):
//  1. init_send_tx with late_lock (here the whole spendable balance, amount_includes_fee,
//     so that there is no change output)
//  2. the owner calls tx_lock_outputs for the slate, as the API documentation of
//     tx_lock_outputs/finalize_tx prescribes for every send. For a late-locked context this
//     "succeeds": it locks nothing and writes a TxSent entry with 0 inputs.
//  3. finalize_tx(reply): the late-lock branch selects the inputs, REWRITES the stored
//     context (inputs filled in, late_lock_args dropped) and only then calls
//     tx_lock_outputs, which refuses because of the entry of step 2 -> error
//  4. finalize_tx(reply) again: the context no longer says 'late lock', so the standard
//     branch builds, signs, stores and returns the transaction from the context's inputs,
//     which were never locked.
//
// Place in controller/tests/finding3.rs, run with
//   cargo test --offline -j 2 -p grin_wallet_controller --test finding3 -- --nocapture

#[macro_use]
extern crate log;
extern crate grin_wallet_controller as wallet;
extern crate grin_wallet_impls as impls;
extern crate grin_wallet_libwallet as libwallet;

use self::libwallet::{InitTxArgs, OutputStatus, Slate, TxLogEntryType};
use impls::test_framework::{self, LocalWalletClient};
use std::sync::atomic::Ordering;
use std::thread;
use std::time::Duration;

#[macro_use]
mod common;
use common::{clean_output_dir, create_wallet_proxy, setup};

fn late_lock_unreserved_impl(test_dir: &'static str) -> Result<(), libwallet::Error> {
	let mut wallet_proxy = create_wallet_proxy(test_dir);
	let chain = wallet_proxy.chain.clone();
	let stopper = wallet_proxy.running.clone();

	create_wallet_and_add!(
		client1,
		wallet1,
		mask1_i,
		test_dir,
		"wallet1",
		None,
		&mut wallet_proxy,
		false
	);
	let mask1 = (&mask1_i).as_ref();
	create_wallet_and_add!(
		client2,
		wallet2,
		mask2_i,
		test_dir,
		"wallet2",
		None,
		&mut wallet_proxy,
		false
	);
	let _ = (&client2, &wallet2, &mask2_i);

	thread::spawn(move || {
		if let Err(e) = wallet_proxy.run() {
			error!("Wallet Proxy error: {}", e);
		}
	});

	test_framework::award_blocks_to_wallet(&chain, wallet1.clone(), mask1, 6, false)?;

	let mut spendable = 0;
	wallet::controller::owner_single_use(Some(wallet1.clone()), mask1, None, |api, m| {
		let (_, info) = api.retrieve_summary_info(m, true, 2)?;
		spendable = info.amount_currently_spendable;
		Ok(())
	})?;
	assert!(spendable > 0);

	// 1. + 2.
	let mut s1 = Slate::blank(2, false);
	wallet::controller::owner_single_use(Some(wallet1.clone()), mask1, None, |api, m| {
		let args = InitTxArgs {
			src_acct_name: None,
			amount: spendable,
			amount_includes_fee: Some(true),
			minimum_confirmations: 2,
			max_outputs: 500,
			num_change_outputs: 1,
			selection_strategy_is_use_all: true,
			late_lock: Some(true),
			..Default::default()
		};
		s1 = api.init_send_tx(m, args)?;
		api.tx_lock_outputs(m, &s1)?;
		Ok(())
	})?;
	println!(
		"late-locked send of {} (amount {} + fee {}) initiated, tx_lock_outputs accepted",
		spendable,
		s1.amount,
		s1.fee_fields.fee()
	);

	// the recipient's genuine, unaltered reply
	let s2 = client1.send_tx_slate_direct("wallet2", &s1)?;

	// 3. + 4.
	let mut first = None;
	let mut second = None;
	wallet::controller::owner_single_use(Some(wallet1.clone()), mask1, None, |api, m| {
		first = Some(api.finalize_tx(m, &s2));
		second = Some(api.finalize_tx(m, &s2));
		Ok(())
	})?;
	match first.unwrap() {
		Ok(_) => println!("first finalize_tx: ok"),
		Err(e) => println!("first finalize_tx: error: {}", e),
	}
	let fin = match second.unwrap() {
		Err(e) => {
			// fine: no transaction came out of finalization
			println!("second finalize_tx: error: {}", e);
			stopper.store(false, Ordering::Relaxed);
			thread::sleep(Duration::from_millis(200));
			return Ok(());
		}
		Ok(s) => s,
	};
	let tx = fin.tx_or_err()?.clone();
	let input_commits: Vec<_> = {
		let inputs: Vec<_> = tx.inputs().into();
		inputs.iter().map(|i| i.commitment()).collect()
	};
	println!(
		"second finalize_tx returned a transaction with {} inputs, {} outputs, fee {}",
		input_commits.len(),
		tx.outputs().len(),
		tx.fee()
	);

	wallet::controller::owner_single_use(Some(wallet1.clone()), mask1, None, |api, m| {
		let (_, txs) = api.retrieve_txs(m, false, None, Some(s1.id), None)?;
		let sent = txs
			.iter()
			.find(|t| t.tx_type == TxLogEntryType::TxSent)
			.unwrap();
		println!(
			"sender's log entry: num_inputs {}, amount_debited {}",
			sent.num_inputs, sent.amount_debited
		);
		let (_, info) = api.retrieve_summary_info(m, false, 2)?;
		println!(
			"wallet still reports {} as currently spendable, {} locked",
			info.amount_currently_spendable, info.amount_locked
		);

		let (_, outputs) = api.retrieve_outputs(m, true, false, None)?;
		for c in input_commits.iter() {
			let o = outputs
				.iter()
				.find(|o| &o.commit == c)
				.expect("input of the finalized transaction is not a wallet output");
			assert!(
				o.output.status == OutputStatus::Locked && o.output.tx_log_entry == Some(sent.id),
				"finalize_tx returned a transaction that spends output {:?} (value {}), which \
				 the wallet has not reserved for it: its status is {} and its tx_log_entry is \
				 {:?} (expected Locked by entry {}); the send's log entry records {} inputs",
				c,
				o.output.value,
				o.output.status,
				o.output.tx_log_entry,
				sent.id,
				sent.num_inputs
			);
		}
		Ok(())
	})?;

	stopper.store(false, Ordering::Relaxed);
	thread::sleep(Duration::from_millis(200));
	Ok(())
}

#[test]
fn finding3_late_lock_finalizes_with_unreserved_inputs() {
	let test_dir = "test_output/finding3";
	setup(test_dir);
	if let Err(e) = late_lock_unreserved_impl(test_dir) {
		panic!("Libwallet Error: {}", e);
	}
	clean_output_dir(test_dir);
}
