// Finding 3 (borderline, see findings.md): proof fields on the reply of an INVOICE are stored
// unchecked and counter-signed. The payer of an invoice adds a `proof` to its Invoice2 reply that
// names the invoicer's own address as "sender" and a key of the payer as "recipient", with the
// payer's signature over (amount, final excess, invoicer's address). `finalize_tx` takes the
// invoice path, which never calls `verify_slate_payment_proof`; `update_stored_tx` then stores
// the proof in the invoicer's RECEIVED entry and signs it with the invoicer's proof key. The
// invoicer, who requested no proof and sent nothing, can afterwards export a payment proof that
// verifies and says that it PAID `amount` to the payer.
//
// Place in controller/tests/ and run:
//   cargo test --offline -j 2 -p grin_wallet_controller --test finding3

#[macro_use]
extern crate log;
extern crate grin_wallet_controller as wallet;
extern crate grin_wallet_impls as impls;
extern crate grin_wallet_util;

use ed25519_dalek::Keypair as DalekKeypair;
use ed25519_dalek::Signer;
use grin_util as util;
use grin_wallet_libwallet as libwallet;
use impls::test_framework::{self, LocalWalletClient};
use libwallet::slate_versions::v4::{PaymentInfoV4, SlateV4};
use libwallet::{InitTxArgs, IssueInvoiceTxArgs, Slate, SlateState, TxLogEntryType};
use std::sync::atomic::Ordering;
use std::thread;
use std::time::Duration;

#[macro_use]
mod common;
use common::{clean_output_dir, create_wallet_proxy, setup};

fn invoice_reply_with_proof_impl(test_dir: &'static str) -> Result<(), libwallet::Error> {
	let mut wallet_proxy = create_wallet_proxy(test_dir);
	let chain = wallet_proxy.chain.clone();
	let stopper = wallet_proxy.running.clone();

	// wallet1: the payer (has the funds); wallet2: the invoicer
	create_wallet_and_add!(
		client1,
		wallet1,
		mask1_i,
		test_dir,
		"wallet1",
		None,
		&mut wallet_proxy,
		false
	);
	let mask1 = (&mask1_i).as_ref();
	create_wallet_and_add!(
		client2,
		wallet2,
		mask2_i,
		test_dir,
		"wallet2",
		None,
		&mut wallet_proxy,
		false
	);
	let mask2 = (&mask2_i).as_ref();

	thread::spawn(move || {
		if let Err(e) = wallet_proxy.run() {
			error!("Wallet Proxy error: {}", e);
		}
	});

	let _ = test_framework::award_blocks_to_wallet(&chain, wallet1.clone(), mask1, 10, false);

	// the invoicer's public slatepack address, and a key pair of the payer
	let mut invoicer_address = None;
	wallet::controller::owner_single_use(Some(wallet2.clone()), mask2, None, |api, m| {
		invoicer_address = Some(api.get_slatepack_address(m, 0)?);
		Ok(())
	})?;
	let invoicer_address = invoicer_address.unwrap();
	let mut payer_address = None;
	let mut payer_secret = None;
	wallet::controller::owner_single_use(Some(wallet1.clone()), mask1, None, |api, m| {
		payer_address = Some(api.get_slatepack_address(m, 0)?);
		payer_secret = Some(api.get_slatepack_secret_key(m, 0)?);
		Ok(())
	})?;
	let payer_address = payer_address.unwrap();
	let payer_keypair = DalekKeypair {
		public: payer_address.pub_key,
		secret: payer_secret.unwrap(),
	};

	let amount = 60_000_000_000u64;

	// the invoicer asks to be paid; it requests no payment proof (an invoice cannot)
	let mut invoice = Slate::blank(2, true);
	wallet::controller::owner_single_use(Some(wallet2.clone()), mask2, None, |api, m| {
		let args = IssueInvoiceTxArgs {
			amount,
			..Default::default()
		};
		invoice = api.issue_invoice_tx(m, args)?;
		Ok(())
	})?;
	assert_eq!(invoice.state, SlateState::Invoice1);
	assert!(invoice.payment_proof.is_none());

	// the payer pays, and decorates its reply with proof fields
	let mut reply = Slate::blank(2, true);
	wallet::controller::owner_single_use(Some(wallet1.clone()), mask1, None, |api, m| {
		let args = InitTxArgs {
			src_acct_name: None,
			amount,
			minimum_confirmations: 2,
			max_outputs: 500,
			num_change_outputs: 1,
			selection_strategy_is_use_all: true,
			..Default::default()
		};
		reply = api.process_invoice_tx(m, &invoice, args)?;
		api.tx_lock_outputs(m, &reply)?;
		Ok(())
	})?;
	assert_eq!(reply.state, SlateState::Invoice2);
	{
		// final kernel excess: sum of both participants' public excesses
		let excess = {
			let mut both = reply.clone();
			both.participant_data
				.push(invoice.participant_data[0].clone());
			let secp = util::static_secp_instance();
			let secp = secp.lock();
			both.calc_excess(&secp)?
		};
		let mut msg = Vec::new();
		msg.extend_from_slice(&amount.to_be_bytes());
		msg.extend_from_slice(&excess.0);
		msg.extend_from_slice(&invoicer_address.pub_key.to_bytes());
		let sig = payer_keypair.sign(&msg);

		let mut v4 = SlateV4::from(&reply);
		v4.proof = Some(PaymentInfoV4 {
			saddr: invoicer_address.pub_key,
			raddr: payer_address.pub_key,
			rsig: Some(sig),
		});
		reply = Slate::from(v4);
	}

	// the invoicer finalizes (foreign API, as the listener does), the transaction is posted
	let mut final_slate = Slate::blank(2, true);
	wallet::controller::foreign_single_use(wallet2.clone(), mask2_i.clone(), |api| {
		final_slate = api.finalize_tx(&reply, false)?;
		Ok(())
	})?;
	assert_eq!(final_slate.state, SlateState::Invoice3);
	wallet::controller::owner_single_use(Some(wallet1.clone()), mask1, None, |api, m| {
		api.post_tx(m, &final_slate, false)?;
		Ok(())
	})?;
	let _ = test_framework::award_blocks_to_wallet(&chain, wallet1.clone(), mask1, 3, false);

	// what the invoicer's wallet now holds and exports
	let mut export = None;
	let mut verified = None;
	wallet::controller::owner_single_use(Some(wallet2.clone()), mask2, None, |api, m| {
		let (_, txs) = api.retrieve_txs(m, true, None, Some(invoice.id), None)?;
		assert_eq!(txs.len(), 1);
		assert_eq!(txs[0].tx_type, TxLogEntryType::TxReceived);
		assert_eq!(txs[0].amount_credited, amount);
		assert_eq!(txs[0].amount_debited, 0);
		match api.retrieve_payment_proof(m, true, None, Some(invoice.id)) {
			Ok(pp) => {
				verified = Some(api.verify_payment_proof(m, &pp));
				export = Some(pp);
			}
			Err(e) => println!("no proof exported: {}", e),
		}
		Ok(())
	})?;

	stopper.store(false, Ordering::Relaxed);
	thread::sleep(Duration::from_millis(200));

	let holds_valid_proof = match (&export, &verified) {
		(Some(_), Some(Ok(_))) => true,
		_ => false,
	};
	assert!(
		!holds_valid_proof,
		"expected the invoicer (who requested no proof and only RECEIVED {} in this transaction) \
		 to hold no verifying payment proof for it; instead it exports a proof that verifies \
		 ({:?} = (sender is this wallet, recipient is this wallet)) and states: sender {} paid \
		 {} to recipient {}",
		amount,
		verified.as_ref().unwrap().as_ref().unwrap(),
		export.as_ref().unwrap().sender_address,
		export.as_ref().unwrap().amount,
		export.as_ref().unwrap().recipient_address,
	);
	Ok(())
}

#[test]
fn invoice_reply_proof_fields_stored_and_countersigned() {
	let test_dir = "test_output/finding3_invoice";
	setup(test_dir);
	if let Err(e) = invoice_reply_with_proof_impl(test_dir) {
		panic!("Libwallet Error: {}", e);
	}
	clean_output_dir(test_dir);
}
