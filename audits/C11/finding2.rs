// Finding 2: `verify_slate_payment_proof` reads the expected proof from the OLDEST log entry of
// the account that carries the slate id (`tx_vec[0]`), whatever its type. The recipient of a
// proof-carrying send can put a received entry with that slate id into the sender's log (the
// sender's foreign API accepts its own slate back, exactly as in a self-send). When the sender then
// locks its outputs (with its OWN initial slate, in the order the `tx_lock_outputs` documentation
// shows: init, send, lock, finalize) the sent entry holding the requested proof is the younger
// one, the planted received entry (no proof) is consulted instead, and a reply with the proof
// stripped is finalized.
//
// Place in controller/tests/ and run:
//   cargo test --offline -j 2 -p grin_wallet_controller --test finding2

#[macro_use]
extern crate log;
extern crate grin_wallet_controller as wallet;
extern crate grin_wallet_impls as impls;
extern crate grin_wallet_util;

use grin_wallet_libwallet as libwallet;
use impls::test_framework::{self, LocalWalletClient};
use libwallet::InitTxArgs;
use std::sync::atomic::Ordering;
use std::thread;
use std::time::Duration;

#[macro_use]
mod common;
use common::{clean_output_dir, create_wallet_proxy, setup};

fn planted_receipt_impl(test_dir: &'static str) -> Result<(), libwallet::Error> {
	let mut wallet_proxy = create_wallet_proxy(test_dir);
	let chain = wallet_proxy.chain.clone();
	let stopper = wallet_proxy.running.clone();

	create_wallet_and_add!(
		client1,
		wallet1,
		mask1_i,
		test_dir,
		"wallet1",
		None,
		&mut wallet_proxy,
		false
	);
	let mask1 = (&mask1_i).as_ref();
	create_wallet_and_add!(
		client2,
		wallet2,
		mask2_i,
		test_dir,
		"wallet2",
		None,
		&mut wallet_proxy,
		false
	);
	let mask2 = (&mask2_i).as_ref();

	thread::spawn(move || {
		if let Err(e) = wallet_proxy.run() {
			error!("Wallet Proxy error: {}", e);
		}
	});

	let _ = test_framework::award_blocks_to_wallet(&chain, wallet1.clone(), mask1, 10, false);

	let mut address = None;
	wallet::controller::owner_single_use(Some(wallet2.clone()), mask2, None, |api, m| {
		address = Some(api.get_slatepack_address(m, 0)?);
		Ok(())
	})?;

	let mut control_res = None;
	let mut planted_res = None;
	wallet::controller::owner_single_use(Some(wallet1.clone()), mask1, None, |sender_api, m| {
		let args = InitTxArgs {
			src_acct_name: None,
			amount: 10_000_000_000,
			minimum_confirmations: 2,
			max_outputs: 500,
			num_change_outputs: 1,
			selection_strategy_is_use_all: false,
			payment_proof_recipient_address: address.clone(),
			..Default::default()
		};

		// Control: same order of calls, nothing planted. The stripped reply is refused.
		{
			let slate_i = sender_api.init_send_tx(m, args.clone())?;
			let mut reply = client1.send_tx_slate_direct("wallet2", &slate_i)?;
			sender_api.tx_lock_outputs(m, &slate_i)?;
			reply.payment_proof = None;
			control_res = Some(sender_api.finalize_tx(m, &reply));
		}

		// The same, except that the recipient also bounces the sender's slate to the sender's
		// own foreign API before the sender has locked.
		{
			let slate_i = sender_api.init_send_tx(m, args.clone())?;
			assert!(slate_i.payment_proof.is_some(), "a proof was requested");
			let mut reply = client1.send_tx_slate_direct("wallet2", &slate_i)?;
			assert!(reply
				.payment_proof
				.as_ref()
				.unwrap()
				.receiver_signature
				.is_some());

			// recipient -> sender's listener (foreign API): the sender's own slate
			wallet::controller::foreign_single_use(wallet1.clone(), mask1_i.clone(), |api| {
				api.receive_tx(&slate_i, None, None)?;
				Ok(())
			})?;

			// sender: "lock our outputs if we're happy the slate was (or is being) sent",
			// with the slate it created itself
			sender_api.tx_lock_outputs(m, &slate_i)?;

			// the sent entry does hold the requested proof information
			let (_, txs) = sender_api.retrieve_txs(m, false, None, Some(slate_i.id), None)?;
			assert!(txs.iter().any(|t| t.tx_type == libwallet::TxLogEntryType::TxSent
				&& t.payment_proof.as_ref().map(|p| p.receiver_address)
					== Some(address.as_ref().unwrap().pub_key)));

			// the reply comes back with the proof stripped
			reply.payment_proof = None;
			planted_res = Some(sender_api.finalize_tx(m, &reply));
		}
		Ok(())
	})?;

	stopper.store(false, Ordering::Relaxed);
	thread::sleep(Duration::from_millis(200));

	let control_res = control_res.unwrap();
	assert!(
		control_res.is_err(),
		"control: a stripped reply is refused when nothing was planted"
	);
	println!("control refused with: {}", control_res.err().unwrap());

	let planted_res = planted_res.unwrap();
	assert!(
		planted_res.is_err(),
		"expected finalize_tx to refuse a reply whose payment proof was stripped (the sender \
		 requested a proof and its sent entry records the requested recipient), but with a \
		 received entry of the same slate id planted in the sender's log it succeeded"
	);
	Ok(())
}

#[test]
fn proof_stripped_from_reply_after_planted_receipt() {
	let test_dir = "test_output/finding2_planted";
	setup(test_dir);
	if let Err(e) = planted_receipt_impl(test_dir) {
		panic!("Libwallet Error: {}", e);
	}
	clean_output_dir(test_dir);
}
