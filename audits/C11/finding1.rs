// Finding 1: the payment proof the sender expects is taken from whatever slate is handed to
// `tx_lock_outputs`. In the call order used by the command line's synchronous send
// (controller/src/command.rs: `api.tx_lock_outputs(m, &s)?; api.finalize_tx(m, &s)?` with `s` the
// REPLY), by `init_send_tx` with `send_args` (api/src/owner.rs) and by the project's own
// controller/tests/payment_proofs.rs, that slate is the recipient's reply. A reply with the proof
// stripped, or with the proof re-addressed to and signed by another key, is then accepted.
//
// Place in controller/tests/ and run:
//   cargo test --offline -j 2 -p grin_wallet_controller --test finding1 -- --test-threads 1

#[macro_use]
extern crate log;
extern crate grin_wallet_controller as wallet;
extern crate grin_wallet_impls as impls;
extern crate grin_wallet_util;

use ed25519_dalek::Keypair as DalekKeypair;
use ed25519_dalek::PublicKey as DalekPublicKey;
use ed25519_dalek::Signer;
use grin_util as util;
use grin_wallet_libwallet as libwallet;
use impls::test_framework::{self, LocalWalletClient};
use libwallet::{InitTxArgs, Slate};
use std::sync::atomic::Ordering;
use std::thread;
use std::time::Duration;

#[macro_use]
mod common;
use common::{clean_output_dir, create_wallet_proxy, setup};

/// A proof-carrying send whose reply comes back with the `payment_proof` field removed.
fn stripped_reply_impl(test_dir: &'static str) -> Result<(), libwallet::Error> {
	let mut wallet_proxy = create_wallet_proxy(test_dir);
	let chain = wallet_proxy.chain.clone();
	let stopper = wallet_proxy.running.clone();

	create_wallet_and_add!(
		client1,
		wallet1,
		mask1_i,
		test_dir,
		"wallet1",
		None,
		&mut wallet_proxy,
		false
	);
	let mask1 = (&mask1_i).as_ref();
	create_wallet_and_add!(
		client2,
		wallet2,
		mask2_i,
		test_dir,
		"wallet2",
		None,
		&mut wallet_proxy,
		false
	);
	let mask2 = (&mask2_i).as_ref();

	thread::spawn(move || {
		if let Err(e) = wallet_proxy.run() {
			error!("Wallet Proxy error: {}", e);
		}
	});

	let _ = test_framework::award_blocks_to_wallet(&chain, wallet1.clone(), mask1, 10, false);

	let mut address = None;
	wallet::controller::owner_single_use(Some(wallet2.clone()), mask2, None, |api, m| {
		address = Some(api.get_slatepack_address(m, 0)?);
		Ok(())
	})?;

	let mut finalize_res = None;
	wallet::controller::owner_single_use(Some(wallet1.clone()), mask1, None, |sender_api, m| {
		let args = InitTxArgs {
			src_acct_name: None,
			amount: 60_000_000_000,
			minimum_confirmations: 2,
			max_outputs: 500,
			num_change_outputs: 1,
			selection_strategy_is_use_all: true,
			payment_proof_recipient_address: address.clone(),
			..Default::default()
		};
		let slate_i = sender_api.init_send_tx(m, args)?;
		assert!(slate_i.payment_proof.is_some(), "a proof was requested");

		// the recipient processes the slate normally ...
		let mut reply = client1.send_tx_slate_direct("wallet2", &slate_i)?;
		assert!(reply
			.payment_proof
			.as_ref()
			.unwrap()
			.receiver_signature
			.is_some());
		// ... and hands it back without the proof
		reply.payment_proof = None;

		// the command line's order: lock with the reply, then finalize the reply
		sender_api.tx_lock_outputs(m, &reply)?;
		finalize_res = Some(sender_api.finalize_tx(m, &reply));
		Ok(())
	})?;

	stopper.store(false, Ordering::Relaxed);
	thread::sleep(Duration::from_millis(200));

	let finalize_res = finalize_res.unwrap();
	assert!(
		finalize_res.is_err(),
		"expected finalize_tx to refuse a reply whose payment proof was stripped (the sender \
		 requested a proof from {}), but it succeeded and produced a transaction to post",
		address.as_ref().unwrap()
	);
	Ok(())
}

/// A proof-carrying send whose reply names another recipient address and carries that other
/// key's (valid) signature over amount, excess and sender address.
fn substituted_reply_impl(test_dir: &'static str) -> Result<(), libwallet::Error> {
	let mut wallet_proxy = create_wallet_proxy(test_dir);
	let chain = wallet_proxy.chain.clone();
	let stopper = wallet_proxy.running.clone();

	create_wallet_and_add!(
		client1,
		wallet1,
		mask1_i,
		test_dir,
		"wallet1",
		None,
		&mut wallet_proxy,
		false
	);
	let mask1 = (&mask1_i).as_ref();
	create_wallet_and_add!(
		client2,
		wallet2,
		mask2_i,
		test_dir,
		"wallet2",
		None,
		&mut wallet_proxy,
		false
	);
	let mask2 = (&mask2_i).as_ref();

	thread::spawn(move || {
		if let Err(e) = wallet_proxy.run() {
			error!("Wallet Proxy error: {}", e);
		}
	});

	let _ = test_framework::award_blocks_to_wallet(&chain, wallet1.clone(), mask1, 10, false);

	// the address the sender asks a proof from, and an unrelated key pair (here simply another
	// derivation index of the recipient's wallet, the sender never hears of it)
	let mut address = None;
	let mut other_address = None;
	let mut other_secret = None;
	wallet::controller::owner_single_use(Some(wallet2.clone()), mask2, None, |api, m| {
		address = Some(api.get_slatepack_address(m, 0)?);
		other_address = Some(api.get_slatepack_address(m, 7)?);
		other_secret = Some(api.get_slatepack_secret_key(m, 7)?);
		Ok(())
	})?;
	let requested: DalekPublicKey = address.as_ref().unwrap().pub_key;
	let other_pub: DalekPublicKey = other_address.as_ref().unwrap().pub_key;
	assert_ne!(requested, other_pub);
	let other_keypair = DalekKeypair {
		public: other_pub,
		secret: other_secret.unwrap(),
	};

	let amount = 60_000_000_000u64;
	let mut finalize_ok = false;
	let mut slate = Slate::blank(1, false);
	wallet::controller::owner_single_use(Some(wallet1.clone()), mask1, None, |sender_api, m| {
		let args = InitTxArgs {
			src_acct_name: None,
			amount,
			minimum_confirmations: 2,
			max_outputs: 500,
			num_change_outputs: 1,
			selection_strategy_is_use_all: true,
			payment_proof_recipient_address: address.clone(),
			..Default::default()
		};
		let slate_i = sender_api.init_send_tx(m, args)?;
		let mut reply = client1.send_tx_slate_direct("wallet2", &slate_i)?;

		// final kernel excess: sum of both participants' public excesses
		let excess = {
			let mut both = reply.clone();
			both.participant_data
				.push(slate_i.participant_data[0].clone());
			let secp = util::static_secp_instance();
			let secp = secp.lock();
			both.calc_excess(&secp)?
		};
		// message as in libwallet/src/internal/tx.rs payment_proof_message
		let sender_address = slate_i.payment_proof.as_ref().unwrap().sender_address;
		let mut msg = Vec::new();
		msg.extend_from_slice(&amount.to_be_bytes());
		msg.extend_from_slice(&excess.0);
		msg.extend_from_slice(&sender_address.to_bytes());
		let sig = other_keypair.sign(&msg);

		// re-address the proof to the other key, signed by the other key
		{
			let p = reply.payment_proof.as_mut().unwrap();
			p.receiver_address = other_pub;
			p.receiver_signature = Some(sig);
		}

		sender_api.tx_lock_outputs(m, &reply)?;
		match sender_api.finalize_tx(m, &reply) {
			Ok(s) => {
				finalize_ok = true;
				slate = s;
				sender_api.post_tx(m, &slate, true)?;
			}
			Err(e) => println!("finalize_tx refused the reply: {}", e),
		}
		Ok(())
	})?;

	let mut exported = None;
	let mut verified = None;
	if finalize_ok {
		let _ = test_framework::award_blocks_to_wallet(&chain, wallet1.clone(), mask1, 2, false);
		wallet::controller::owner_single_use(Some(wallet1.clone()), mask1, None, |sender_api, m| {
			let pp = sender_api.retrieve_payment_proof(m, true, None, Some(slate.id))?;
			verified = Some(sender_api.verify_payment_proof(m, &pp).is_ok());
			exported = Some(pp);
			Ok(())
		})?;
	}

	stopper.store(false, Ordering::Relaxed);
	thread::sleep(Duration::from_millis(200));

	assert!(
		!finalize_ok,
		"expected finalize_tx to refuse a reply whose proof is signed by a key other than the \
		 requested recipient's; it succeeded. requested recipient: {}; recipient named by the \
		 proof the sender then exported: {:?}; verify_payment_proof on that export succeeded: {:?}",
		address.as_ref().unwrap(),
		exported.as_ref().map(|p| format!("{}", p.recipient_address)),
		verified
	);
	Ok(())
}

#[test]
fn proof_stripped_from_reply_locked_with_reply() {
	let test_dir = "test_output/finding1_stripped";
	setup(test_dir);
	if let Err(e) = stripped_reply_impl(test_dir) {
		panic!("Libwallet Error: {}", e);
	}
	clean_output_dir(test_dir);
}

#[test]
fn proof_signed_by_other_key_locked_with_reply() {
	let test_dir = "test_output/finding1_substituted";
	setup(test_dir);
	if let Err(e) = substituted_reply_impl(test_dir) {
		panic!("Libwallet Error: {}", e);
	}
	clean_output_dir(test_dir);
}
