// Audit C04 (second pass), finding 3.
//
// Place this file at controller/tests/finding3.rs and run
//   cargo test --offline -j 2 -p grin_wallet_controller --test finding3 -- --nocapture
//
// Property: after a successful refresh the outputs recorded as unspent or reserved are
// exactly the account's outputs in the UTXO set (each once), and total + locked is their
// summed value.
//
// Scenario (no reorganisation, no cancellation):
//  1. wallet2 issues an invoice, wallet1 processes it (process_invoice_tx) and sends the reply
//     back; it has not called tx_lock_outputs yet (the API documentation shows the lock after
//     the slate has been sent)
//  2. wallet2 finalizes, the transaction is posted and mined
//  3. wallet1 refreshes. (First failure: the three inputs are gone from the UTXO set but are
//     still recorded Unspent - they are never asked about - while the change output found
//     by the scan is booked as a separate receipt.)
//  4. wallet1 now calls tx_lock_outputs and refreshes again. The change output is written a
//     second time (the record restored by the scan is stored under key id + MMR index and is
//     not seen), both records become Unspent and the total counts the change twice
#[macro_use]
extern crate log;
extern crate grin_wallet_controller as wallet;
extern crate grin_wallet_impls as impls;

use grin_core as core;
use grin_wallet_libwallet as libwallet;
use impls::test_framework::{self, LocalWalletClient};
use libwallet::{InitTxArgs, IssueInvoiceTxArgs, OutputStatus, Slate, SlateState};
use std::collections::HashSet;
use std::sync::atomic::Ordering;
use std::thread;
use std::time::Duration;

#[macro_use]
mod common;
use common::{clean_output_dir, create_wallet_proxy, setup};

fn finding3_impl(test_dir: &'static str) -> Result<(), libwallet::Error> {
	let mut wallet_proxy = create_wallet_proxy(test_dir);
	let chain = wallet_proxy.chain.clone();
	let stopper = wallet_proxy.running.clone();

	create_wallet_and_add!(
		client1,
		wallet1,
		mask1_i,
		test_dir,
		"wallet1",
		None,
		&mut wallet_proxy,
		false
	);
	let mask1 = (&mask1_i).as_ref();
	create_wallet_and_add!(
		client2,
		wallet2,
		mask2_i,
		test_dir,
		"wallet2",
		None,
		&mut wallet_proxy,
		false
	);
	let mask2 = (&mask2_i).as_ref();
	let _ = (&client1, &client2);

	thread::spawn(move || {
		if let Err(e) = wallet_proxy.run() {
			error!("Wallet Proxy error: {}", e);
		}
	});

	let reward = core::consensus::REWARD;
	test_framework::award_blocks_to_wallet(&chain, wallet1.clone(), mask1, 10, false)?;
	wallet::controller::owner_single_use(Some(wallet1.clone()), mask1, None, |api, m| {
		let (refreshed, info) = api.retrieve_summary_info(m, true, 1)?;
		assert!(refreshed);
		assert_eq!(info.total, 10 * reward);
		Ok(())
	})?;

	// 1. invoice, processed by wallet1, reply sent, outputs not locked yet
	let mut slate = Slate::blank(2, true);
	wallet::controller::owner_single_use(Some(wallet2.clone()), mask2, None, |api, m| {
		let args = IssueInvoiceTxArgs {
			amount: reward * 2,
			..Default::default()
		};
		slate = api.issue_invoice_tx(m, args)?;
		Ok(())
	})?;
	let mut reply = Slate::blank(2, true);
	wallet::controller::owner_single_use(Some(wallet1.clone()), mask1, None, |api, m| {
		let args = InitTxArgs {
			src_acct_name: None,
			amount: slate.amount,
			minimum_confirmations: 2,
			max_outputs: 500,
			num_change_outputs: 1,
			selection_strategy_is_use_all: false,
			..Default::default()
		};
		reply = api.process_invoice_tx(m, &slate, args)?;
		Ok(())
	})?;
	assert_eq!(reply.state, SlateState::Invoice2);

	// 2. wallet2 finalizes and posts
	wallet::controller::foreign_single_use(wallet2.clone(), mask2_i.clone(), |api| {
		slate = api.finalize_tx(&reply, false)?;
		Ok(())
	})?;
	wallet::controller::owner_single_use(Some(wallet2.clone()), mask2, None, |api, m| {
		api.post_tx(m, &slate, false)?;
		Ok(())
	})?;

	// 3. wallet1 refreshes (e.g. its updater thread), 4. then locks, then refreshes
	let mut check = |label: &str| -> Result<Vec<String>, libwallet::Error> {
		let mut failures: Vec<String> = vec![];
		wallet::controller::owner_single_use(Some(wallet1.clone()), mask1, None, |api, m| {
			let (refreshed, info) = api.retrieve_summary_info(m, true, 1)?;
			assert!(refreshed, "the refresh must succeed");
			let (_, outputs) = api.retrieve_outputs(m, false, false, None)?;
			let mut on_chain_value = 0;
			let mut seen = HashSet::new();
			for o in outputs.iter() {
				let in_utxo = chain.get_unspent(o.commit).unwrap().is_some();
				let booked = o.output.status == OutputStatus::Unspent
					|| o.output.status == OutputStatus::Locked;
				if !booked {
					continue;
				}
				if !in_utxo {
					failures.push(format!(
						"{}: output {} ({} nanogrin) is recorded {} but is not in the node's UTXO set",
						label, o.output.key_id, o.output.value, o.output.status
					));
				} else if seen.insert(o.commit) {
					on_chain_value += o.output.value;
				} else {
					failures.push(format!(
						"{}: output {} ({} nanogrin, one output in the UTXO set) is recorded twice as {}",
						label, o.output.key_id, o.output.value, o.output.status
					));
				}
			}
			println!(
				"{}: wallet1 reports total {} + locked {}, its outputs in the UTXO set are worth {}",
				label, info.total, info.amount_locked, on_chain_value
			);
			if info.total + info.amount_locked != on_chain_value {
				failures.push(format!(
					"{}: total + locked = {} but the account's outputs in the UTXO set are worth {}",
					label,
					info.total + info.amount_locked,
					on_chain_value
				));
			}
			Ok(())
		})?;
		Ok(failures)
	};

	let before_lock = check("before tx_lock_outputs")?;
	for f in before_lock.iter() {
		println!("FAILURE {}", f);
	}

	wallet::controller::owner_single_use(Some(wallet1.clone()), mask1, None, |api, m| {
		api.tx_lock_outputs(m, &reply)?;
		Ok(())
	})?;
	let after_lock = check("after tx_lock_outputs")?;
	for f in after_lock.iter() {
		println!("FAILURE {}", f);
	}

	stopper.store(false, Ordering::Relaxed);
	thread::sleep(Duration::from_millis(200));

	assert!(
		after_lock.is_empty(),
		"after a successful refresh every output of the account in the UTXO set must be recorded \
		 exactly once and total + locked must be their value, but: {:#?}",
		after_lock
	);
	assert!(
		before_lock.is_empty(),
		"after a successful refresh the outputs recorded as unspent must be in the UTXO set, \
		 but: {:#?}",
		before_lock
	);
	Ok(())
}

#[test]
fn finding3_invoice_paid_and_mined_before_payer_locks() {
	let test_dir = "test_output/audit_c04_finding3";
	setup(test_dir);
	if let Err(e) = finding3_impl(test_dir) {
		panic!("Libwallet Error: {}", e);
	}
	clean_output_dir(test_dir);
}
