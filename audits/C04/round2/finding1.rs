// Audit C04 (second pass), finding 1.
//
// Place this file at controller/tests/finding1.rs and run
//   cargo test --offline -j 2 -p grin_wallet_controller --test finding1 -- --nocapture
//
// Property: after a successful refresh of an account, the outputs the wallet records as
// unspent or reserved are exactly that account's outputs in the node's unspent set.
//
// Scenario (no reorganisation, nothing is cancelled after it has been broadcast):
//  1. wallet1 mines, wallet2 issues an invoice
//  2. wallet1 pays it (process_invoice_tx with ttl_blocks = 2, tx_lock_outputs) and sends the
//     reply to wallet2
//  3. three blocks go by; wallet1 refreshes: the TTL has expired, so the refresh itself
//     cancels the payment (inputs back to Unspent, change record deleted)
//  4. wallet2 has not refreshed in the meantime. Its finalize_tx checks the TTL against the
//     heights it has recorded (all stale), accepts the reply, and the transaction is posted
//     and mined
//  5. wallet1 refreshes (successfully). The three coinbase outputs the payment spent are
//     still reported Unspent/spendable, although they are no longer in the UTXO set
#[macro_use]
extern crate log;
extern crate grin_wallet_controller as wallet;
extern crate grin_wallet_impls as impls;

use grin_core as core;
use grin_wallet_libwallet as libwallet;
use impls::test_framework::{self, LocalWalletClient};
use libwallet::{InitTxArgs, IssueInvoiceTxArgs, OutputStatus, Slate, SlateState, TxLogEntryType};
use std::sync::atomic::Ordering;
use std::thread;
use std::time::Duration;

#[macro_use]
mod common;
use common::{clean_output_dir, create_wallet_proxy, setup};

fn finding1_impl(test_dir: &'static str) -> Result<(), libwallet::Error> {
	let mut wallet_proxy = create_wallet_proxy(test_dir);
	let chain = wallet_proxy.chain.clone();
	let stopper = wallet_proxy.running.clone();

	create_wallet_and_add!(
		client1,
		wallet1,
		mask1_i,
		test_dir,
		"wallet1",
		None,
		&mut wallet_proxy,
		false
	);
	let mask1 = (&mask1_i).as_ref();
	create_wallet_and_add!(
		client2,
		wallet2,
		mask2_i,
		test_dir,
		"wallet2",
		None,
		&mut wallet_proxy,
		false
	);
	let mask2 = (&mask2_i).as_ref();
	let _ = (&client1, &client2);

	thread::spawn(move || {
		if let Err(e) = wallet_proxy.run() {
			error!("Wallet Proxy error: {}", e);
		}
	});

	let reward = core::consensus::REWARD;

	// 1. wallet1 mines 10 blocks
	test_framework::award_blocks_to_wallet(&chain, wallet1.clone(), mask1, 10, false)?;
	wallet::controller::owner_single_use(Some(wallet1.clone()), mask1, None, |api, m| {
		let (refreshed, info) = api.retrieve_summary_info(m, true, 1)?;
		assert!(refreshed);
		assert_eq!(info.total, 10 * reward);
		Ok(())
	})?;

	// wallet2 issues an invoice
	let mut slate = Slate::blank(2, true);
	wallet::controller::owner_single_use(Some(wallet2.clone()), mask2, None, |api, m| {
		let args = IssueInvoiceTxArgs {
			amount: reward * 2,
			..Default::default()
		};
		slate = api.issue_invoice_tx(m, args)?;
		Ok(())
	})?;
	assert_eq!(slate.state, SlateState::Invoice1);

	// 2. wallet1 pays it, with a TTL of 2 blocks
	wallet::controller::owner_single_use(Some(wallet1.clone()), mask1, None, |api, m| {
		let args = InitTxArgs {
			src_acct_name: None,
			amount: slate.amount,
			minimum_confirmations: 2,
			max_outputs: 500,
			num_change_outputs: 1,
			selection_strategy_is_use_all: false,
			ttl_blocks: Some(2),
			..Default::default()
		};
		slate = api.process_invoice_tx(m, &slate, args)?;
		api.tx_lock_outputs(m, &slate)?;
		Ok(())
	})?;
	assert_eq!(slate.state, SlateState::Invoice2);
	let slate_id = slate.id;

	// 3. three blocks go by, wallet1 refreshes: the payment has expired and is cancelled
	//    by the refresh
	test_framework::award_blocks_to_wallet(&chain, wallet1.clone(), mask1, 3, false)?;
	wallet::controller::owner_single_use(Some(wallet1.clone()), mask1, None, |api, m| {
		let (refreshed, txs) = api.retrieve_txs(m, true, None, Some(slate_id), None)?;
		assert!(refreshed);
		assert_eq!(txs.len(), 1);
		assert_eq!(txs[0].tx_type, TxLogEntryType::TxSentCancelled);
		Ok(())
	})?;

	// 4. wallet2 (which has not refreshed since) finalizes; the transaction is posted and mined
	wallet::controller::foreign_single_use(wallet2.clone(), mask2_i.clone(), |api| {
		slate = api.finalize_tx(&slate, false)?;
		Ok(())
	})?;
	assert_eq!(slate.state, SlateState::Invoice3);
	wallet::controller::owner_single_use(Some(wallet2.clone()), mask2, None, |api, m| {
		api.post_tx(m, &slate, false)?;
		Ok(())
	})?;

	// 5. wallet1 refreshes, successfully
	let mut failures: Vec<String> = vec![];
	wallet::controller::owner_single_use(Some(wallet1.clone()), mask1, None, |api, m| {
		let (refreshed, info) = api.retrieve_summary_info(m, true, 1)?;
		assert!(refreshed, "the refresh must succeed");
		let (_, outputs) = api.retrieve_outputs(m, false, false, None)?;
		let mut on_chain_value = 0;
		for o in outputs.iter() {
			let in_utxo = chain.get_unspent(o.commit).unwrap().is_some();
			if in_utxo {
				on_chain_value += o.output.value;
			}
			if (o.output.status == OutputStatus::Unspent
				|| o.output.status == OutputStatus::Locked)
				&& !in_utxo
			{
				failures.push(format!(
					"output {} ({} nanogrin) is recorded {} but is not in the node's UTXO set",
					o.output.key_id, o.output.value, o.output.status
				));
			}
		}
		println!(
			"wallet1 reports total {} + locked {}, its outputs in the UTXO set are worth {}",
			info.total, info.amount_locked, on_chain_value
		);
		if info.total + info.amount_locked != on_chain_value {
			failures.push(format!(
				"total + locked = {} but the account's outputs in the UTXO set are worth {}",
				info.total + info.amount_locked,
				on_chain_value
			));
		}
		Ok(())
	})?;

	stopper.store(false, Ordering::Relaxed);
	thread::sleep(Duration::from_millis(200));

	assert!(
		failures.is_empty(),
		"after a successful refresh the outputs recorded as unspent or reserved must be exactly \
		 the account's outputs in the UTXO set, but: {:#?}",
		failures
	);
	Ok(())
}

#[test]
fn finding1_expired_invoice_payment_finalized_by_invoicer() {
	let test_dir = "test_output/audit_c04_finding1";
	setup(test_dir);
	if let Err(e) = finding1_impl(test_dir) {
		panic!("Libwallet Error: {}", e);
	}
	clean_output_dir(test_dir);
}
