// Audit C04 (second pass), finding 2.
//
// Place this file at controller/tests/finding2.rs and run
//   cargo test --offline -j 2 -p grin_wallet_controller --test finding2 -- --nocapture
//
// Property: after a successful refresh the outputs recorded as unspent or reserved are
// exactly the account's outputs in the UTXO set, and the confirmed entries of the log sum
// to total + locked.
//
// Scenario (no reorganisation, the user cancels nothing):
//  1. wallet1 pays wallet2 (T1). T1 is finalized and waits to be mined
//  2. wallet2 spends the still unconfirmed output O of T1 (minimum_confirmations = 0) in a
//     payment T2 to wallet1; T2 is finalized and waits to be mined behind T1
//  3. wallet2 refreshes. O is reserved by T2 and not (yet) in the UTXO set: the refresh
//     records it as Spent, although nothing has been mined
//  4. T1 is mined. wallet2 refreshes: O is in the UTXO set but recorded Spent, so the scan
//     step of the refresh "repairs" it - O back to Unspent and the entry of T2, which is
//     waiting to be mined, marked cancelled
//  5. T2 is mined. wallet2 refreshes: O (now really spent) is not looked at any more and
//     stays Unspent, the change of T2 is never recorded as unspent, T2 stays cancelled
#[macro_use]
extern crate log;
extern crate grin_wallet_controller as wallet;
extern crate grin_wallet_impls as impls;

use grin_core as core;
use grin_wallet_libwallet as libwallet;
use impls::test_framework::{self, LocalWalletClient};
use libwallet::{InitTxArgs, OutputStatus, Slate, TxLogEntryType};
use std::sync::atomic::Ordering;
use std::thread;
use std::time::Duration;

#[macro_use]
mod common;
use common::{clean_output_dir, create_wallet_proxy, setup};

fn finding2_impl(test_dir: &'static str) -> Result<(), libwallet::Error> {
	let mut wallet_proxy = create_wallet_proxy(test_dir);
	let chain = wallet_proxy.chain.clone();
	let stopper = wallet_proxy.running.clone();

	create_wallet_and_add!(
		client1,
		wallet1,
		mask1_i,
		test_dir,
		"wallet1",
		None,
		&mut wallet_proxy,
		false
	);
	let mask1 = (&mask1_i).as_ref();
	create_wallet_and_add!(
		client2,
		wallet2,
		mask2_i,
		test_dir,
		"wallet2",
		None,
		&mut wallet_proxy,
		false
	);
	let mask2 = (&mask2_i).as_ref();

	thread::spawn(move || {
		if let Err(e) = wallet_proxy.run() {
			error!("Wallet Proxy error: {}", e);
		}
	});

	let reward = core::consensus::REWARD;
	test_framework::award_blocks_to_wallet(&chain, wallet1.clone(), mask1, 10, false)?;

	// 1. T1: wallet1 -> wallet2, finalized, waiting to be mined
	let mut t1 = Slate::blank(2, false);
	wallet::controller::owner_single_use(Some(wallet1.clone()), mask1, None, |api, m| {
		let args = InitTxArgs {
			src_acct_name: None,
			amount: reward,
			minimum_confirmations: 2,
			max_outputs: 500,
			num_change_outputs: 1,
			selection_strategy_is_use_all: false,
			..Default::default()
		};
		let s = api.init_send_tx(m, args)?;
		let s = client1.send_tx_slate_direct("wallet2", &s)?;
		api.tx_lock_outputs(m, &s)?;
		t1 = api.finalize_tx(m, &s)?;
		Ok(())
	})?;

	// 2. T2: wallet2 -> wallet1, spending the unconfirmed output of T1
	let mut t2 = Slate::blank(2, false);
	wallet::controller::owner_single_use(Some(wallet2.clone()), mask2, None, |api, m| {
		let args = InitTxArgs {
			src_acct_name: None,
			amount: reward / 3,
			minimum_confirmations: 0,
			max_outputs: 500,
			num_change_outputs: 1,
			selection_strategy_is_use_all: false,
			..Default::default()
		};
		let s = api.init_send_tx(m, args)?;
		let s = client2.send_tx_slate_direct("wallet1", &s)?;
		api.tx_lock_outputs(m, &s)?;
		t2 = api.finalize_tx(m, &s)?;
		Ok(())
	})?;
	let t2_id = t2.id;

	// 3. wallet2 refreshes while both transactions wait to be mined
	wallet::controller::owner_single_use(Some(wallet2.clone()), mask2, None, |api, m| {
		let (refreshed, _) = api.retrieve_summary_info(m, true, 1)?;
		assert!(refreshed);
		let (_, outputs) = api.retrieve_outputs(m, true, false, None)?;
		for o in outputs.iter() {
			println!(
				"step 3: wallet2 output {} value {} status {}",
				o.output.key_id, o.output.value, o.output.status
			);
		}
		Ok(())
	})?;

	// 4. T1 is mined (by wallet1), wallet2 refreshes
	test_framework::award_block_to_wallet(
		&chain,
		&[t1.tx_or_err()?.clone()],
		wallet1.clone(),
		mask1,
	)?;
	wallet::controller::owner_single_use(Some(wallet2.clone()), mask2, None, |api, m| {
		let (refreshed, txs) = api.retrieve_txs(m, true, None, Some(t2_id), None)?;
		assert!(refreshed);
		println!(
			"step 4: wallet2's entry of T2 (waiting to be mined) is now {:?}",
			txs[0].tx_type
		);
		Ok(())
	})?;

	// 5. T2 is mined (by wallet1), wallet2 refreshes
	test_framework::award_block_to_wallet(
		&chain,
		&[t2.tx_or_err()?.clone()],
		wallet1.clone(),
		mask1,
	)?;
	test_framework::award_blocks_to_wallet(&chain, wallet1.clone(), mask1, 2, false)?;

	let mut failures: Vec<String> = vec![];
	wallet::controller::owner_single_use(Some(wallet2.clone()), mask2, None, |api, m| {
		let (refreshed, info) = api.retrieve_summary_info(m, true, 1)?;
		assert!(refreshed, "the refresh must succeed");
		let (_, outputs) = api.retrieve_outputs(m, true, false, None)?;
		let (_, txs) = api.retrieve_txs(m, false, None, None, None)?;
		let mut on_chain_value = 0;
		for o in outputs.iter() {
			let in_utxo = chain.get_unspent(o.commit).unwrap().is_some();
			let booked =
				o.output.status == OutputStatus::Unspent || o.output.status == OutputStatus::Locked;
			if in_utxo {
				on_chain_value += o.output.value;
			}
			if booked && !in_utxo {
				failures.push(format!(
					"output {} ({} nanogrin) is recorded {} but is not in the node's UTXO set",
					o.output.key_id, o.output.value, o.output.status
				));
			}
			if !booked && in_utxo {
				failures.push(format!(
					"output {} ({} nanogrin) is in the node's UTXO set but recorded {}",
					o.output.key_id, o.output.value, o.output.status
				));
			}
		}
		if info.total + info.amount_locked != on_chain_value {
			failures.push(format!(
				"total + locked = {} but the account's outputs in the UTXO set are worth {}",
				info.total + info.amount_locked,
				on_chain_value
			));
		}
		let mut log_sum: i128 = 0;
		for t in txs.iter() {
			println!(
				"wallet2 log entry {}: {:?} confirmed {} credited {} debited {}",
				t.id, t.tx_type, t.confirmed, t.amount_credited, t.amount_debited
			);
			if t.confirmed {
				log_sum += t.amount_credited as i128 - t.amount_debited as i128;
			}
			if t.tx_slate_id == Some(t2_id) && t.tx_type != TxLogEntryType::TxSent {
				failures.push(format!(
					"the payment T2 was mined and never cancelled by the user, but its entry is {:?} \
					 (confirmed: {})",
					t.tx_type, t.confirmed
				));
			}
		}
		if log_sum != on_chain_value as i128 {
			failures.push(format!(
				"confirmed credits minus debits = {} but the account's outputs in the UTXO set are \
				 worth {}",
				log_sum, on_chain_value
			));
		}
		Ok(())
	})?;

	stopper.store(false, Ordering::Relaxed);
	thread::sleep(Duration::from_millis(200));

	assert!(
		failures.is_empty(),
		"after a successful refresh wallet2's books must equal the chain's truth, but: {:#?}",
		failures
	);
	Ok(())
}

#[test]
fn finding2_unconfirmed_output_reserved_then_marked_spent() {
	let test_dir = "test_output/audit_c04_finding2";
	setup(test_dir);
	if let Err(e) = finding2_impl(test_dir) {
		panic!("Libwallet Error: {}", e);
	}
	clean_output_dir(test_dir);
}
