// C04 audit: after refresh the wallet's books equal the chain's truth.
//
// Scenario: wallet1 sends to wallet2 (tx1, with a change output). Before tx1 is mined
// it sends again with minimum_confirmations = 0 (tx2), which legitimately selects the
// still unconfirmed change output of tx1 as its input. tx1 is mined, then tx2 is mined,
// the wallet refreshes after each.
//
// Expected: confirmed credits - confirmed debits of the tx log == total + locked
// == summed value of the account's outputs in the node's UTXO set.

#[macro_use]
extern crate log;
extern crate grin_wallet_controller as wallet;
extern crate grin_wallet_impls as impls;

use grin_core as core;
use grin_wallet_libwallet as libwallet;

use impls::test_framework::{self, LocalWalletClient};
use libwallet::{InitTxArgs, OutputStatus, Slate};
use std::sync::atomic::Ordering;
use std::thread;
use std::time::Duration;

#[macro_use]
mod common;
use common::{clean_output_dir, create_wallet_proxy, setup};

/// refresh the active account and compare its books with the chain
macro_rules! check_books {
	($api:ident, $m:ident, $chain:ident, $what:expr) => {{
		let (refreshed, _) = $api.retrieve_summary_info($m, true, 1)?;
		assert!(refreshed);
		let (refreshed, info) = $api.retrieve_summary_info($m, true, 1)?;
		assert!(refreshed);
		let (_, outputs) = $api.retrieve_outputs($m, false, false, None)?;
		let mut on_chain_value = 0u64;
		for o in outputs.iter().filter(|o| {
			o.output.status == OutputStatus::Unspent || o.output.status == OutputStatus::Locked
		}) {
			assert!(
				$chain.get_unspent(o.commit).unwrap().is_some(),
				"{}: output {:?} recorded as {} is not in the node's UTXO set",
				$what,
				o.commit,
				o.output.status
			);
			on_chain_value += o.output.value;
		}
		println!("{}: summary info: {:?}", $what, info);
		assert_eq!(
			info.total + info.amount_locked,
			on_chain_value,
			"{}: total + locked must be the summed value of the recorded unspent/reserved outputs",
			$what
		);
		let (_, txs) = $api.retrieve_txs($m, false, None, None, None)?;
		let mut credits = 0u64;
		let mut debits = 0u64;
		for t in txs.iter() {
			println!(
				"{}: log entry {} {:?} confirmed={}: credited {}, debited {}",
				$what, t.id, t.tx_type, t.confirmed, t.amount_credited, t.amount_debited
			);
			if t.confirmed {
				credits += t.amount_credited;
				debits += t.amount_debited;
			}
		}
		assert_eq!(
			credits - debits,
			info.total + info.amount_locked,
			"{}: expected confirmed credits - confirmed debits of the tx log ({}) to equal total + locked ({})",
			$what,
			credits - debits,
			info.total + info.amount_locked
		);
	}};
}

fn spend_unconfirmed_change_impl(test_dir: &'static str) -> Result<(), libwallet::Error> {
	let mut wallet_proxy = create_wallet_proxy(test_dir);
	let chain = wallet_proxy.chain.clone();
	let stopper = wallet_proxy.running.clone();

	create_wallet_and_add!(
		client1,
		wallet1,
		mask1_i,
		test_dir,
		"wallet1",
		None,
		&mut wallet_proxy,
		true
	);
	let mask1 = (&mask1_i).as_ref();
	create_wallet_and_add!(
		client2,
		wallet2,
		mask2_i,
		test_dir,
		"wallet2",
		None,
		&mut wallet_proxy,
		true
	);
	let mask2 = (&mask2_i).as_ref();
	let _ = &client2;

	thread::spawn(move || {
		if let Err(e) = wallet_proxy.run() {
			error!("Wallet Proxy error: {}", e);
		}
	});

	let reward = core::consensus::REWARD;

	// wallet1 mines 8 blocks and refreshes
	let _ = test_framework::award_blocks_to_wallet(&chain, wallet1.clone(), mask1, 8, false);
	wallet::controller::owner_single_use(Some(wallet1.clone()), mask1, None, |api, m| {
		check_books!(api, m, chain, "after mining");
		Ok(())
	})?;

	// tx1: wallet1 -> wallet2, half a reward, one input, one change output. Finalized, not yet mined.
	let mut slate1 = Slate::blank(2, false);
	wallet::controller::owner_single_use(Some(wallet1.clone()), mask1, None, |api, m| {
		let args = InitTxArgs {
			src_acct_name: None,
			amount: reward / 2,
			minimum_confirmations: 1,
			max_outputs: 500,
			num_change_outputs: 1,
			selection_strategy_is_use_all: false,
			..Default::default()
		};
		slate1 = api.init_send_tx(m, args)?;
		slate1 = client1.send_tx_slate_direct("wallet2", &slate1)?;
		api.tx_lock_outputs(m, &slate1)?;
		slate1 = api.finalize_tx(m, &slate1)?;
		Ok(())
	})?;

	// tx2: wallet1 -> wallet2 with minimum_confirmations 0: the smallest eligible output is
	// the unconfirmed change of tx1, which is selected as the input
	let mut slate2 = Slate::blank(2, false);
	wallet::controller::owner_single_use(Some(wallet1.clone()), mask1, None, |api, m| {
		let args = InitTxArgs {
			src_acct_name: None,
			amount: reward / 4,
			minimum_confirmations: 0,
			max_outputs: 500,
			num_change_outputs: 1,
			selection_strategy_is_use_all: false,
			..Default::default()
		};
		slate2 = api.init_send_tx(m, args)?;
		slate2 = client1.send_tx_slate_direct("wallet2", &slate2)?;
		api.tx_lock_outputs(m, &slate2)?;
		slate2 = api.finalize_tx(m, &slate2)?;
		// make sure the scenario is the intended one: tx2 spends tx1's change
		let tx1_change = slate1
			.tx_or_err()?
			.outputs()
			.iter()
			.map(|o| o.commitment())
			.collect::<Vec<_>>();
		let tx2_inputs: Vec<_> = slate2.tx_or_err()?.inputs().into();
		assert_eq!(tx2_inputs.len(), 1);
		assert!(tx1_change.contains(&tx2_inputs[0].commitment()));
		Ok(())
	})?;

	// tx1 is mined (reward to wallet2); wallet1 refreshes
	test_framework::award_block_to_wallet(
		&chain,
		&[slate1.tx_or_err()?.clone()],
		wallet2.clone(),
		mask2,
	)?;
	wallet::controller::owner_single_use(Some(wallet1.clone()), mask1, None, |api, m| {
		let (refreshed, txs) = api.retrieve_txs(m, true, None, Some(slate1.id), None)?;
		assert!(refreshed);
		println!(
			"tx1 is on chain (kernel found: {}), after the refresh its log entry has confirmed = {}",
			chain
				.get_kernel_height(&txs[0].kernel_excess.unwrap(), None, None)
				.unwrap()
				.is_some(),
			txs[0].confirmed
		);
		Ok(())
	})?;

	// tx2 is mined (reward to wallet2), some more blocks; wallet1 refreshes
	test_framework::award_block_to_wallet(
		&chain,
		&[slate2.tx_or_err()?.clone()],
		wallet2.clone(),
		mask2,
	)?;
	let _ = test_framework::award_blocks_to_wallet(&chain, wallet2.clone(), mask2, 3, false);
	wallet::controller::owner_single_use(Some(wallet1.clone()), mask1, None, |api, m| {
		check_books!(api, m, chain, "after tx1 and tx2 were mined");
		Ok(())
	})?;

	stopper.store(false, Ordering::Relaxed);
	thread::sleep(Duration::from_millis(200));
	Ok(())
}

#[test]
fn c04_spend_unconfirmed_change_books() -> Result<(), libwallet::Error> {
	let test_dir = "test_output/c04_finding2";
	setup(test_dir);
	spend_unconfirmed_change_impl(test_dir)?;
	clean_output_dir(test_dir);
	Ok(())
}
