// C04 audit: after refresh the wallet's books equal the chain's truth.
//
// Scenario: a freshly created wallet has a second account "mining" which is the active
// account while blocks are mined to the wallet (a mining node requesting coinbases). Nobody
// refreshes the wallet for a little more than 100 blocks. Then the default account is made
// active and refreshed, after which the "mining" account is made active and refreshed.
//
// Expected: after its successful refresh the "mining" account records as unspent exactly its
// outputs in the node's UTXO set, i.e. every coinbase that was mined to it.

#[macro_use]
extern crate log;
extern crate grin_wallet_controller as wallet;
extern crate grin_wallet_impls as impls;

use grin_core as core;
use grin_core::core::hash::Hashed;
use grin_wallet_libwallet as libwallet;

use impls::test_framework::{self, LocalWalletClient};
use libwallet::OutputStatus;
use std::sync::atomic::Ordering;
use std::thread;
use std::time::Duration;

#[macro_use]
mod common;
use common::{clean_output_dir, create_wallet_proxy, setup};

fn mining_account_impl(test_dir: &'static str) -> Result<(), libwallet::Error> {
	let mut wallet_proxy = create_wallet_proxy(test_dir);
	let chain = wallet_proxy.chain.clone();
	let stopper = wallet_proxy.running.clone();

	create_wallet_and_add!(
		client1,
		wallet1,
		mask1_i,
		test_dir,
		"wallet1",
		None,
		&mut wallet_proxy,
		true
	);
	let mask1 = (&mask1_i).as_ref();
	let _ = &client1;

	thread::spawn(move || {
		if let Err(e) = wallet_proxy.run() {
			error!("Wallet Proxy error: {}", e);
		}
	});

	let reward = core::consensus::REWARD;
	let blocks: u64 = 106;

	// the wallet mines into its account "mining"
	wallet::controller::owner_single_use(Some(wallet1.clone()), mask1, None, |api, m| {
		api.create_account_path(m, "mining")?;
		api.set_active_account(m, "mining")?;
		Ok(())
	})?;
	let _ = test_framework::award_blocks_to_wallet(
		&chain,
		wallet1.clone(),
		mask1,
		blocks as usize,
		false,
	);
	assert_eq!(chain.head().unwrap().height, blocks);

	// the coinbase outputs on chain, all of which belong to the account "mining"
	let mut coinbases = vec![];
	for h in 1..=blocks {
		let b = chain.get_block(&chain.get_header_by_height(h).unwrap().hash()).unwrap();
		assert_eq!(b.outputs().len(), 1);
		let c = b.outputs()[0].commitment();
		assert!(chain.get_unspent(c).unwrap().is_some());
		coinbases.push((h, c));
	}

	// first the default account is refreshed ...
	wallet::controller::owner_single_use(Some(wallet1.clone()), mask1, None, |api, m| {
		api.set_active_account(m, "default")?;
		let (refreshed, info) = api.retrieve_summary_info(m, true, 1)?;
		assert!(refreshed);
		assert_eq!(info.total, 0);
		Ok(())
	})?;

	// ... then the mining account
	wallet::controller::owner_single_use(Some(wallet1.clone()), mask1, None, |api, m| {
		api.set_active_account(m, "mining")?;
		let (refreshed, _) = api.retrieve_summary_info(m, true, 1)?;
		assert!(refreshed);
		let (refreshed, info) = api.retrieve_summary_info(m, true, 1)?;
		assert!(refreshed);
		println!("mining account: {:?}", info);

		let (_, outputs) = api.retrieve_outputs(m, false, false, None)?;
		let recorded: Vec<_> = outputs
			.iter()
			.filter(|o| {
				o.output.status == OutputStatus::Unspent || o.output.status == OutputStatus::Locked
			})
			.map(|o| o.commit)
			.collect();
		// nothing recorded that is not on chain
		for c in recorded.iter() {
			assert!(chain.get_unspent(*c).unwrap().is_some());
		}
		let missing: Vec<u64> = coinbases
			.iter()
			.filter(|(_, c)| !recorded.contains(c))
			.map(|(h, _)| *h)
			.collect();
		println!(
			"coinbases of the mining account in the UTXO set: {}, recorded by the wallet: {}, missing (block heights): {:?}",
			coinbases.len(),
			recorded.len(),
			missing
		);
		assert!(
			missing.is_empty(),
			"after a successful refresh the account 'mining' must record every one of its {} outputs in the node's UTXO set as unspent, but the coinbases of blocks {:?} are not in the wallet at all (recorded total {} instead of {})",
			coinbases.len(),
			missing,
			info.total,
			blocks * reward
		);
		assert_eq!(info.total, blocks * reward);
		Ok(())
	})?;

	stopper.store(false, Ordering::Relaxed);
	thread::sleep(Duration::from_millis(200));
	Ok(())
}

#[test]
fn c04_mining_account_late_refresh() -> Result<(), libwallet::Error> {
	let test_dir = "test_output/c04_finding3";
	setup(test_dir);
	mining_account_impl(test_dir)?;
	clean_output_dir(test_dir);
	Ok(())
}
