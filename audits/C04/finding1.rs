// C04 audit: after refresh the wallet's books equal the chain's truth.
//
// Scenario: a wallet pays an invoice that it issued itself (invoice self-send,
// same account), the transaction is mined, the wallet refreshes.
//
// Expected: confirmed credits - confirmed debits of the tx log == total + locked
// == summed value of the account's outputs in the node's UTXO set.

#[macro_use]
extern crate log;
extern crate grin_wallet_controller as wallet;
extern crate grin_wallet_impls as impls;

use grin_core as core;
use grin_wallet_libwallet as libwallet;

use impls::test_framework::{self, LocalWalletClient};
use libwallet::{InitTxArgs, IssueInvoiceTxArgs, OutputStatus, Slate};
use std::sync::atomic::Ordering;
use std::thread;
use std::time::Duration;

#[macro_use]
mod common;
use common::{clean_output_dir, create_wallet_proxy, setup};

fn self_invoice_impl(test_dir: &'static str) -> Result<(), libwallet::Error> {
	let mut wallet_proxy = create_wallet_proxy(test_dir);
	let chain = wallet_proxy.chain.clone();
	let stopper = wallet_proxy.running.clone();

	create_wallet_and_add!(
		client1,
		wallet1,
		mask1_i,
		test_dir,
		"wallet1",
		None,
		&mut wallet_proxy,
		true
	);
	let mask1 = (&mask1_i).as_ref();
	// a second wallet, only used to collect the mining reward of the block that
	// carries the transaction, so that wallet1's balance is easy to follow
	create_wallet_and_add!(
		client2,
		wallet2,
		mask2_i,
		test_dir,
		"wallet2",
		None,
		&mut wallet_proxy,
		true
	);
	let mask2 = (&mask2_i).as_ref();
	let _ = &client1;
	let _ = &client2;

	thread::spawn(move || {
		if let Err(e) = wallet_proxy.run() {
			error!("Wallet Proxy error: {}", e);
		}
	});

	let reward = core::consensus::REWARD;

	// wallet1 mines 5 blocks and refreshes
	let _ = test_framework::award_blocks_to_wallet(&chain, wallet1.clone(), mask1, 5, false);
	wallet::controller::owner_single_use(Some(wallet1.clone()), mask1, None, |api, m| {
		let (refreshed, info) = api.retrieve_summary_info(m, true, 1)?;
		assert!(refreshed);
		assert_eq!(info.total, 5 * reward);
		Ok(())
	})?;

	// wallet1 issues an invoice and pays it itself
	let mut slate = Slate::blank(2, true);
	wallet::controller::owner_single_use(Some(wallet1.clone()), mask1, None, |api, m| {
		let args = IssueInvoiceTxArgs {
			amount: reward / 2,
			..Default::default()
		};
		slate = api.issue_invoice_tx(m, args)?;
		let args = InitTxArgs {
			src_acct_name: None,
			amount: slate.amount,
			minimum_confirmations: 1,
			max_outputs: 500,
			num_change_outputs: 1,
			selection_strategy_is_use_all: false,
			..Default::default()
		};
		slate = api.process_invoice_tx(m, &slate, args)?;
		api.tx_lock_outputs(m, &slate)?;
		slate = api.finalize_tx(m, &slate)?;
		Ok(())
	})?;

	// the transaction is mined (reward to wallet2), a few more blocks follow
	test_framework::award_block_to_wallet(
		&chain,
		&[slate.tx_or_err()?.clone()],
		wallet2.clone(),
		mask2,
	)?;
	let _ = test_framework::award_blocks_to_wallet(&chain, wallet2.clone(), mask2, 3, false);

	// wallet1 refreshes (twice, for good measure) and its books are compared with the chain
	wallet::controller::owner_single_use(Some(wallet1.clone()), mask1, None, |api, m| {
		let (refreshed, _) = api.retrieve_summary_info(m, true, 1)?;
		assert!(refreshed);
		let (refreshed, info) = api.retrieve_summary_info(m, true, 1)?;
		assert!(refreshed);

		let (_, outputs) = api.retrieve_outputs(m, false, false, None)?;
		let mut on_chain_value = 0u64;
		for o in outputs.iter().filter(|o| {
			o.output.status == OutputStatus::Unspent || o.output.status == OutputStatus::Locked
		}) {
			assert!(
				chain.get_unspent(o.commit).unwrap().is_some(),
				"output {:?} recorded as {} is not in the node's UTXO set",
				o.commit,
				o.output.status
			);
			on_chain_value += o.output.value;
		}
		println!("summary info: {:?}", info);
		assert_eq!(
			info.total + info.amount_locked,
			on_chain_value,
			"total + locked must be the summed value of the recorded unspent/reserved outputs"
		);

		let (_, txs) = api.retrieve_txs(m, false, None, None, None)?;
		let mut credits = 0u64;
		let mut debits = 0u64;
		for t in txs.iter().filter(|t| t.confirmed) {
			println!(
				"confirmed log entry {} {:?}: credited {}, debited {}",
				t.id, t.tx_type, t.amount_credited, t.amount_debited
			);
			credits += t.amount_credited;
			debits += t.amount_debited;
		}
		for t in txs.iter().filter(|t| !t.confirmed) {
			println!(
				"UNCONFIRMED log entry {} {:?}: credited {}, debited {}",
				t.id, t.tx_type, t.amount_credited, t.amount_debited
			);
		}
		assert_eq!(
			credits - debits,
			info.total + info.amount_locked,
			"expected confirmed credits - confirmed debits of the tx log ({}) to equal total + locked ({}) after a self-paid invoice was mined and the wallet refreshed",
			credits - debits,
			info.total + info.amount_locked
		);
		Ok(())
	})?;

	stopper.store(false, Ordering::Relaxed);
	thread::sleep(Duration::from_millis(200));
	Ok(())
}

#[test]
fn c04_self_invoice_books() -> Result<(), libwallet::Error> {
	let test_dir = "test_output/c04_finding1";
	setup(test_dir);
	self_invoice_impl(test_dir)?;
	clean_output_dir(test_dir);
	Ok(())
}
