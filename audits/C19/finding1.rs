// C19 finding 1: the look-up of a stored transaction by transaction-log id
// (`Owner::get_stored_tx(mask, Some(tx_id), None)`) does not restrict the search to the
// active account. Log ids are per account, so with several accounts the first entry of
// *any* account carrying that id is used (iteration is in key order, i.e. the account
// with the lowest path wins) and the transaction of another account is returned.

#[macro_use]
extern crate log;
extern crate grin_wallet_controller as wallet;
extern crate grin_wallet_impls as impls;

use grin_keychain as keychain;

use self::keychain::{ExtKeychain, Keychain};
use grin_wallet_libwallet as libwallet;
use impls::test_framework::{self, LocalWalletClient};
use libwallet::{InitTxArgs, Slate, TxLogEntryType};
use std::sync::atomic::Ordering;
use std::thread;
use std::time::Duration;

#[macro_use]
mod common;
use common::{clean_output_dir, create_wallet_proxy, setup};

fn stored_tx_lookup_impl(test_dir: &'static str) -> Result<(), libwallet::Error> {
	let mut wallet_proxy = create_wallet_proxy(test_dir);
	let chain = wallet_proxy.chain.clone();
	let stopper = wallet_proxy.running.clone();

	create_wallet_and_add!(
		client1,
		wallet1,
		mask1_i,
		test_dir,
		"wallet1",
		None,
		&mut wallet_proxy,
		false
	);
	let mask1 = (&mask1_i).as_ref();
	create_wallet_and_add!(
		client2,
		wallet2,
		mask2_i,
		test_dir,
		"wallet2",
		None,
		&mut wallet_proxy,
		false
	);
	let _mask2 = (&mask2_i).as_ref();
	let _ = &client2;
	let _ = &wallet2;

	thread::spawn(move || {
		if let Err(e) = wallet_proxy.run() {
			error!("Wallet Proxy error: {}", e);
		}
	});

	wallet::controller::owner_single_use(Some(wallet1.clone()), mask1, None, |api, m| {
		let new_path = api.create_account_path(m, "account1")?;
		assert_eq!(new_path, ExtKeychain::derive_key_id(2, 1, 0, 0, 0));
		Ok(())
	})?;

	// the same history in both accounts of wallet 1: 4 coinbases (log ids 0..3), then one
	// send to wallet 2 (log id 4), finalized but not posted
	let mut slate_ids = vec![];
	let mut sent_ids = vec![];
	for acct in &["default", "account1"] {
		{
			wallet_inst!(wallet1, w);
			w.set_parent_key_id_by_name(acct)?;
		}
		let _ = test_framework::award_blocks_to_wallet(&chain, wallet1.clone(), mask1, 4, false);
		let mut slate = Slate::blank(2, false);
		wallet::controller::owner_single_use(Some(wallet1.clone()), mask1, None, |api, m| {
			let (refreshed, _) = api.retrieve_summary_info(m, true, 1)?;
			assert!(refreshed);
			let args = InitTxArgs {
				src_acct_name: None,
				amount: 1_000_000_000,
				minimum_confirmations: 1,
				max_outputs: 500,
				num_change_outputs: 1,
				selection_strategy_is_use_all: false,
				..Default::default()
			};
			slate = api.init_send_tx(m, args)?;
			slate = client1.send_tx_slate_direct("wallet2", &slate)?;
			api.tx_lock_outputs(m, &slate)?;
			slate = api.finalize_tx(m, &slate)?;
			// the log entry of this send, looked up by slate id in the active account
			let (_, txs) = api.retrieve_txs(m, false, None, Some(slate.id), None)?;
			assert_eq!(txs.len(), 1);
			assert_eq!(txs[0].tx_type, TxLogEntryType::TxSent);
			sent_ids.push(txs[0].id);
			Ok(())
		})?;
		slate_ids.push(slate.id);
	}
	// precondition of the scenario: both sends have the same log id in their accounts
	assert_eq!(sent_ids[0], sent_ids[1]);
	assert_ne!(slate_ids[0], slate_ids[1]);
	let log_id = sent_ids[1];

	// "account1" is the active account now
	wallet::controller::owner_single_use(Some(wallet1.clone()), mask1, None, |api, m| {
		// the log entry with this id in the active account is the send with slate_ids[1]
		let (_, txs) = api.retrieve_txs(m, false, Some(log_id), None, None)?;
		assert_eq!(txs.len(), 1);
		assert_eq!(txs[0].parent_key_id, ExtKeychain::derive_key_id(2, 1, 0, 0, 0));
		assert_eq!(txs[0].tx_slate_id, Some(slate_ids[1]));

		// look up the stored transaction by the same log id
		let stored = api
			.get_stored_tx(m, Some(log_id), None)?
			.expect("a stored transaction for the send of the active account");
		let by_slate_id = api
			.get_stored_tx(m, None, Some(&slate_ids[1]))?
			.expect("stored transaction by slate id");
		assert_eq!(
			stored.id, slate_ids[1],
			"get_stored_tx(tx_id = {}) with account1 active must return the stored transaction of \
			 account1's log entry {} (slate {}), but it returned the one of slate {} - which is the \
			 default account's entry {} (slate {})",
			log_id, log_id, slate_ids[1], stored.id, log_id, slate_ids[0]
		);
		assert_eq!(
			stored.tx.as_ref().unwrap().kernels()[0].excess,
			by_slate_id.tx.as_ref().unwrap().kernels()[0].excess,
			"stored transaction looked up by log id differs from the one of the entry's slate"
		);
		Ok(())
	})?;

	stopper.store(false, Ordering::Relaxed);
	thread::sleep(Duration::from_millis(200));
	Ok(())
}

#[test]
fn c19_stored_tx_lookup_by_log_id_uses_active_account() {
	let test_dir = "test_output/c19_finding1";
	setup(test_dir);
	if let Err(e) = stored_tx_lookup_impl(test_dir) {
		panic!("Libwallet Error: {}", e);
	}
	clean_output_dir(test_dir);
}
