// C19 finding 2: the confirmation-time criteria of a transaction-log query
// (`min_confirmed_timestamp` / `max_confirmed_timestamp`) do not filter out entries that
// have no confirmation time at all (pending or cancelled transactions): such entries
// are returned for every confirmation-time range, including ranges that lie entirely in
// the future or entirely in the past.

#[macro_use]
extern crate log;
extern crate grin_wallet_controller as wallet;
extern crate grin_wallet_impls as impls;

use grin_wallet_libwallet as libwallet;
use impls::test_framework::{self, LocalWalletClient};
use libwallet::{InitTxArgs, RetrieveTxQueryArgs, TxLogEntry};
use std::sync::atomic::Ordering;
use std::thread;
use std::time::Duration;

#[macro_use]
mod common;
use common::{clean_output_dir, create_wallet_proxy, setup};

fn describe(txs: &[TxLogEntry]) -> String {
	txs.iter()
		.map(|t| {
			format!(
				"[id {} {:?} confirmed={} confirmation_ts={:?}]",
				t.id, t.tx_type, t.confirmed, t.confirmation_ts
			)
		})
		.collect::<Vec<_>>()
		.join(", ")
}

fn confirmed_ts_range_impl(test_dir: &'static str) -> Result<(), libwallet::Error> {
	let mut wallet_proxy = create_wallet_proxy(test_dir);
	let chain = wallet_proxy.chain.clone();
	let stopper = wallet_proxy.running.clone();

	create_wallet_and_add!(
		client1,
		wallet1,
		mask1_i,
		test_dir,
		"wallet1",
		None,
		&mut wallet_proxy,
		false
	);
	let mask1 = (&mask1_i).as_ref();
	create_wallet_and_add!(
		client2,
		wallet2,
		mask2_i,
		test_dir,
		"wallet2",
		None,
		&mut wallet_proxy,
		false
	);
	let mask2 = (&mask2_i).as_ref();
	let _ = &client2;

	thread::spawn(move || {
		if let Err(e) = wallet_proxy.run() {
			error!("Wallet Proxy error: {}", e);
		}
	});

	// 6 confirmed coinbases in wallet 1 (log ids 0..5)
	let _ = test_framework::award_blocks_to_wallet(&chain, wallet1.clone(), mask1, 6, false);

	let before_sends = chrono::Utc::now();

	// two sends to wallet 2, neither posted; the second one is cancelled by the sender
	wallet::controller::owner_single_use(Some(wallet1.clone()), mask1, None, |api, m| {
		let (refreshed, _) = api.retrieve_summary_info(m, true, 1)?;
		assert!(refreshed);
		for i in 0..2 {
			let args = InitTxArgs {
				src_acct_name: None,
				amount: 1_000_000_000,
				minimum_confirmations: 1,
				max_outputs: 500,
				num_change_outputs: 1,
				selection_strategy_is_use_all: false,
				..Default::default()
			};
			let mut slate = api.init_send_tx(m, args)?;
			slate = client1.send_tx_slate_direct("wallet2", &slate)?;
			api.tx_lock_outputs(m, &slate)?;
			if i == 1 {
				api.cancel_tx(m, None, Some(slate.id))?;
			}
		}
		Ok(())
	})?;

	wallet::controller::owner_single_use(Some(wallet1.clone()), mask1, None, |api, m| {
		// the log as it is: 6 confirmed coinbases, one pending send, one cancelled send
		let (_, all) = api.retrieve_txs(m, true, None, None, None)?;
		assert_eq!(all.len(), 8, "{}", describe(&all));
		assert_eq!(all.iter().filter(|t| t.confirmation_ts.is_some()).count(), 6);
		assert_eq!(all.iter().filter(|t| t.confirmation_ts.is_none()).count(), 2);
		let now = chrono::Utc::now();

		// (a) a confirmation-time range that contains all confirmations so far
		let mut q = RetrieveTxQueryArgs::default();
		q.min_confirmed_timestamp = Some(now - chrono::Duration::days(1));
		q.max_confirmed_timestamp = Some(now + chrono::Duration::days(1));
		let (_, res) = api.retrieve_txs(m, false, None, None, Some(q))?;
		println!("range around now: {}", describe(&res));
		let res_a = res.clone();

		// (b) a confirmation-time range entirely in the future: nothing was confirmed then
		let mut q = RetrieveTxQueryArgs::default();
		q.min_confirmed_timestamp = Some(now + chrono::Duration::days(1));
		q.max_confirmed_timestamp = Some(now + chrono::Duration::days(2));
		let (_, res) = api.retrieve_txs(m, false, None, None, Some(q))?;
		println!("range in the future: {}", describe(&res));
		let res_b = res.clone();

		// (c) a confirmation-time range that ended before the sends were even created
		let mut q = RetrieveTxQueryArgs::default();
		q.max_confirmed_timestamp = Some(before_sends - chrono::Duration::days(1));
		let (_, res) = api.retrieve_txs(m, false, None, None, Some(q))?;
		println!("range in the past: {}", describe(&res));
		let res_c = res.clone();

		assert!(
			res_b.is_empty(),
			"a query for entries confirmed between tomorrow and the day after must return \
			 nothing, but returned: {}",
			describe(&res_b)
		);
		assert!(
			res_c.is_empty(),
			"a query for entries confirmed up to yesterday must return nothing, but returned: {}",
			describe(&res_c)
		);
		assert!(
			res_a.iter().all(|t| t.confirmation_ts.is_some()),
			"every entry returned for a confirmation-time range must have a confirmation time \
			 inside it, but returned: {}",
			describe(&res_a)
		);
		assert_eq!(res_a.len(), 6);
		Ok(())
	})?;

	// same on the receiving side: wallet 2 only has never-confirmed entries
	wallet::controller::owner_single_use(Some(wallet2.clone()), mask2, None, |api, m| {
		let now = chrono::Utc::now();
		let mut q = RetrieveTxQueryArgs::default();
		q.min_confirmed_timestamp = Some(now + chrono::Duration::days(1));
		let (_, res) = api.retrieve_txs(m, true, None, None, Some(q))?;
		assert!(res.is_empty(), "wallet2: {}", describe(&res));
		Ok(())
	})?;

	stopper.store(false, Ordering::Relaxed);
	thread::sleep(Duration::from_millis(200));
	Ok(())
}

#[test]
fn c19_confirmation_time_range_excludes_unconfirmed_entries() {
	let test_dir = "test_output/c19_finding2";
	setup(test_dir);
	if let Err(e) = confirmed_ts_range_impl(test_dir) {
		panic!("Libwallet Error: {}", e);
	}
	clean_output_dir(test_dir);
}
