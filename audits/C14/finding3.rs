// Finding 3 (property C14, "A masked wallet does nothing without the right token").
//
// `Owner::delete_wallet` (JSON-RPC: `delete_wallet`, params: name only) takes neither the
// token nor the password. On an open, masked wallet a caller holding no token at all can
// make the wallet remove its whole top-level directory - seed file, LMDB database, stored
// transactions - i.e. it "writes wallet state" in the most drastic way, and succeeds.
// (`impls/src/lifecycle/default.rs`, `delete_wallet`: `fs::remove_dir_all(self.data_dir)`,
// reached from `api/src/owner.rs` `delete_wallet` without any `keychain(mask)` test.)
//
// Place this file in controller/tests/ and run:
//   cargo test --offline -j 2 -p grin_wallet_controller --test finding3 -- --test-threads=1

#[macro_use]
extern crate log;
extern crate grin_wallet_api as api;
extern crate grin_wallet_controller as wallet;
extern crate grin_wallet_impls as impls;
extern crate grin_wallet_libwallet as libwallet;

use impls::test_framework::{self, LocalWalletClient};
use std::path::Path;
use std::sync::atomic::Ordering;
use std::thread;
use std::time::Duration;

#[macro_use]
mod common;
use common::{clean_output_dir, create_wallet_proxy, setup};

fn delete_without_token_impl(
	test_dir: &'static str,
) -> Result<(Result<(), libwallet::Error>, bool, bool, bool), libwallet::Error> {
	let mut wallet_proxy = create_wallet_proxy(test_dir);
	let chain = wallet_proxy.chain.clone();
	let stopper = wallet_proxy.running.clone();

	create_wallet_and_add!(
		client1,
		wallet1,
		mask1_i,
		test_dir,
		"wallet1",
		None,
		&mut wallet_proxy,
		true
	);
	let mask1 = (&mask1_i).as_ref();
	assert!(mask1.is_some(), "wallet1 must be a masked wallet");

	thread::spawn(move || {
		if let Err(e) = wallet_proxy.run() {
			error!("Wallet Proxy error: {}", e);
		}
	});

	test_framework::award_blocks_to_wallet(&chain, wallet1.clone(), mask1, 3, false)?;

	let owner_api = api::Owner::new(wallet1.clone(), None);
	let (_, info) = owner_api.retrieve_summary_info(mask1, true, 1)?;
	assert!(info.total > 0);

	let top = format!("{}/wallet1", test_dir);
	let seed = format!("{}/wallet_data/wallet.seed", top);
	let db = format!("{}/wallet_data/db", top);
	assert!(Path::new(&seed).exists());
	assert!(Path::new(&db).exists());

	// sanity: without the token the masked wallet refuses an ordinary state-writing call
	match owner_api.create_account_path(None, "acct") {
		Err(libwallet::Error::InvalidKeychainMask) => {}
		r => panic!("create_account_path without token: {:?}", r),
	}

	// the call under test: no token, no password
	let res = owner_api.delete_wallet(None);

	let out = (
		res,
		Path::new(&top).exists(),
		Path::new(&seed).exists(),
		Path::new(&db).exists(),
	);
	stopper.store(false, Ordering::Relaxed);
	thread::sleep(Duration::from_millis(500));
	Ok(out)
}

#[test]
fn masked_wallet_is_not_deleted_without_the_token() {
	let test_dir = "test_output/finding3";
	setup(test_dir);
	let (res, top_exists, seed_exists, db_exists) = delete_without_token_impl(test_dir).unwrap();
	clean_output_dir(test_dir);
	assert!(
		res.is_err() && top_exists && seed_exists && db_exists,
		"expected an owner operation invoked without the token on an open masked wallet to fail \
		 and leave the stored state unchanged; delete_wallet returned {:?}, and afterwards: \
		 wallet directory exists = {}, seed file exists = {}, database exists = {}",
		res,
		top_exists,
		seed_exists,
		db_exists
	);
}
