// Finding 1 (property C14, "A masked wallet does nothing without the right token").
//
// `Owner::start_updater` never checks the token it is given: with a wrong token it returns
// `Ok(())`. The updater thread it spawned then dies on its first `update_wallet_state`
// (InvalidKeychainMask), but `Updater::run` has already set the shared `updater_running`
// flag and nothing resets it. From then on every `retrieve_*` call made with the RIGHT token
// and `refresh_from_node = true` has its refresh silently turned off
// (`api/src/owner.rs`: `match self.updater_running.load(..) { true => false, .. }`), so the
// masked wallet stops following the chain. The same latch is hit without any wrong call
// when a masked wallet is closed and reopened while its updater runs (the reopened wallet
// has a new token, the updater still holds the old one), which an unmasked wallet with the
// same seed survives.
//
// Place this file in controller/tests/ and run:
//   cargo test --offline -j 2 -p grin_wallet_controller --test finding1 -- --test-threads=1

#[macro_use]
extern crate log;
extern crate grin_wallet_api as api;
extern crate grin_wallet_controller as wallet;
extern crate grin_wallet_impls as impls;
extern crate grin_wallet_libwallet as libwallet;

use grin_core as core;
use grin_util as util;

use impls::test_framework::{self, LocalWalletClient};
use std::sync::atomic::Ordering;
use std::thread;
use std::time::Duration;
use util::secp::key::SecretKey;
use util::ZeroingString;

#[macro_use]
mod common;
use common::{clean_output_dir, create_wallet_proxy, setup};

const SEED: &str = "fat twenty mean degree forget shell check candy immense awful \
	 flame next during february bulb bike sun wink theory day kiwi embrace peace lunch";

fn global_setup(test_dir: &str) {
	// the updater runs in its own thread, which needs the global chain type
	core::global::set_global_chain_type(core::global::ChainTypes::AutomatedTesting);
	setup(test_dir);
}

/// the right token with its lowest bit flipped
fn off_by_one_bit(token: &SecretKey) -> SecretKey {
	let mut t = token.clone();
	t.0[31] ^= 1;
	t
}

/// A masked wallet with 3 mined blocks. `start_updater` is called with a wrong token, two
/// more blocks are mined, and the wallet is then refreshed with the right token.
/// Returns (result of start_updater(wrong token), refreshed flag, wallet height, chain height)
fn wrong_token_updater(
	test_dir: &'static str,
) -> Result<(Result<(), libwallet::Error>, bool, u64, u64), libwallet::Error> {
	let mut wallet_proxy = create_wallet_proxy(test_dir);
	let chain = wallet_proxy.chain.clone();
	let stopper = wallet_proxy.running.clone();

	create_wallet_and_add!(
		client1,
		wallet1,
		mask1_i,
		test_dir,
		"wallet1",
		Some(ZeroingString::from(SEED)),
		&mut wallet_proxy,
		true
	);
	let mask1 = (&mask1_i).as_ref();
	assert!(mask1.is_some(), "wallet1 must be a masked wallet");

	thread::spawn(move || {
		if let Err(e) = wallet_proxy.run() {
			error!("Wallet Proxy error: {}", e);
		}
	});

	test_framework::award_blocks_to_wallet(&chain, wallet1.clone(), mask1, 3, false)?;

	let owner_api = api::Owner::new(wallet1.clone(), None);

	// sanity: with the right token a refresh works and sees the 3 blocks
	let (refreshed, info) = owner_api.retrieve_summary_info(mask1, true, 1)?;
	assert!(refreshed);
	assert_eq!(info.last_confirmed_height, 3);

	// sanity: the wrong token is really refused by an operation that checks it
	let wrong = off_by_one_bit(mask1.unwrap());
	match owner_api.accounts(Some(&wrong)) {
		Err(libwallet::Error::InvalidKeychainMask) => {}
		r => panic!("accounts() with a wrong token: {:?}", r),
	}

	// the call under test
	let start_res = owner_api.start_updater(Some(&wrong), Duration::from_millis(200));
	// give the updater thread time to run (and fail)
	thread::sleep(Duration::from_secs(2));

	test_framework::award_blocks_to_wallet(&chain, wallet1.clone(), mask1, 2, false)?;
	let chain_height = chain.head_header().unwrap().height;

	// the owner, with the right token, asks for a refresh from the node
	let (refreshed, info) = owner_api.retrieve_summary_info(mask1, true, 1)?;

	let _ = owner_api.stop_updater();
	stopper.store(false, Ordering::Relaxed);
	thread::sleep(Duration::from_millis(500));
	Ok((
		start_res,
		refreshed,
		info.last_confirmed_height,
		chain_height,
	))
}

#[test]
fn start_updater_with_wrong_token_is_refused() {
	let test_dir = "test_output/finding1_a";
	global_setup(test_dir);
	let (start_res, _, _, _) = wrong_token_updater(test_dir).unwrap();
	clean_output_dir(test_dir);
	match start_res {
		Err(libwallet::Error::InvalidKeychainMask) => {}
		r => panic!(
			"expected start_updater (an owner operation that refreshes and rewrites the wallet's \
			 state) to fail with InvalidKeychainMask when given a wrong token on a masked wallet, \
			 but it returned {:?}",
			r
		),
	}
}

#[test]
fn wrong_token_call_leaves_right_token_behaviour_unchanged() {
	let test_dir = "test_output/finding1_b";
	global_setup(test_dir);
	let (_, refreshed, wallet_height, chain_height) = wrong_token_updater(test_dir).unwrap();
	clean_output_dir(test_dir);
	assert!(
		refreshed && wallet_height == chain_height,
		"expected a call made with a wrong token to change nothing, so that \
		 retrieve_summary_info(right token, refresh_from_node = true) still refreshes the wallet \
		 to the chain height {}; got refreshed = {}, wallet height = {} (the failed updater left \
		 `updater_running` set, which turns every later refresh off)",
		chain_height,
		refreshed,
		wallet_height
	);
}

/// start the updater with the right token, close the wallet, reopen it, mine two blocks,
/// give the updater time, then ask for the wallet's height with the (new) right token
fn height_after_reopen(test_dir: &'static str, masked: bool) -> Result<(u64, u64), libwallet::Error> {
	let mut wallet_proxy = create_wallet_proxy(test_dir);
	let chain = wallet_proxy.chain.clone();
	let stopper = wallet_proxy.running.clone();

	create_wallet_and_add!(
		client1,
		wallet1,
		mask1_i,
		test_dir,
		"wallet1",
		Some(ZeroingString::from(SEED)),
		&mut wallet_proxy,
		masked
	);
	let mask1 = (&mask1_i).as_ref();
	assert_eq!(mask1.is_some(), masked);

	thread::spawn(move || {
		if let Err(e) = wallet_proxy.run() {
			error!("Wallet Proxy error: {}", e);
		}
	});

	test_framework::award_blocks_to_wallet(&chain, wallet1.clone(), mask1, 3, false)?;

	let owner_api = api::Owner::new(wallet1.clone(), None);
	owner_api.start_updater(mask1, Duration::from_millis(200))?;
	thread::sleep(Duration::from_secs(2));
	let (_, info) = owner_api.retrieve_summary_info(mask1, true, 1)?;
	assert_eq!(
		info.last_confirmed_height, 3,
		"the updater follows the chain"
	);

	// close and reopen (a masked wallet gets a fresh token)
	owner_api.close_wallet(None)?;
	let mask2_i = owner_api.open_wallet(None, ZeroingString::from(""), masked)?;
	let mask2 = (&mask2_i).as_ref();
	assert_eq!(mask2.is_some(), masked);

	test_framework::award_blocks_to_wallet(&chain, wallet1.clone(), mask2, 2, false)?;
	let chain_height = chain.head_header().unwrap().height;
	thread::sleep(Duration::from_secs(2));

	// the owner, with the right (current) token, asks for a refresh from the node
	let (_, info) = owner_api.retrieve_summary_info(mask2, true, 1)?;

	let _ = owner_api.stop_updater();
	stopper.store(false, Ordering::Relaxed);
	thread::sleep(Duration::from_millis(500));
	Ok((info.last_confirmed_height, chain_height))
}

#[test]
fn reopened_masked_wallet_follows_the_chain_like_an_unmasked_one() {
	let dir_u = "test_output/finding1_c_unmasked";
	let dir_m = "test_output/finding1_c_masked";
	global_setup(dir_u);
	let (unmasked_height, chain_height_u) = height_after_reopen(dir_u, false).unwrap();
	clean_output_dir(dir_u);
	setup(dir_m);
	let (masked_height, chain_height_m) = height_after_reopen(dir_m, true).unwrap();
	clean_output_dir(dir_m);
	assert_eq!(chain_height_u, chain_height_m);
	assert_eq!(
		unmasked_height, chain_height_u,
		"the unmasked wallet is at the chain height after the same sequence"
	);
	assert_eq!(
		masked_height, unmasked_height,
		"expected a masked wallet used with the right token to behave exactly like an unmasked \
		 wallet with the same seed: after start_updater / close_wallet / open_wallet / 2 blocks / \
		 retrieve_summary_info(refresh_from_node = true) the unmasked wallet is at height {}, the \
		 masked one is still at height {} (chain height {})",
		unmasked_height, masked_height, chain_height_m
	);
}
