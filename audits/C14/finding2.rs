// Finding 2 (property C14, "A masked wallet does nothing without the right token").
//
// `retrieve_summary_info`, `retrieve_txs` (and `retrieve_payment_proof`, built on it) never
// look at the token unless they refresh from the node: with `refresh_from_node = false`
// (or with the updater running, or with the node unreachable - `update_outputs` turns the
// node error into `Ok(false)` before the mask is ever examined) they hand the balances and
// the whole transaction log of a masked wallet to a caller with a wrong token, another
// wallet's token, or no token at all. Their siblings `accounts`, `get_stored_tx`,
// `node_height`, `post_tx`, `set_active_account` all test the mask first ("to keep API
// consistent"), and `retrieve_outputs` fails with InvalidKeychainMask in the same situation.
//
// Place this file in controller/tests/ and run:
//   cargo test --offline -j 2 -p grin_wallet_controller --test finding2 -- --test-threads=1

#[macro_use]
extern crate log;
extern crate grin_wallet_api as api;
extern crate grin_wallet_controller as wallet;
extern crate grin_wallet_impls as impls;
extern crate grin_wallet_libwallet as libwallet;

use grin_util as util;

use impls::test_framework::{self, LocalWalletClient};
use std::sync::atomic::Ordering;
use std::thread;
use std::time::Duration;
use util::secp::key::SecretKey;
use util::static_secp_instance;

#[macro_use]
mod common;
use common::{clean_output_dir, create_wallet_proxy, setup};

fn is_invalid_mask<T>(r: &Result<T, libwallet::Error>) -> bool {
	match r {
		Err(libwallet::Error::InvalidKeychainMask) => true,
		_ => false,
	}
}

fn reads_without_token_impl(test_dir: &'static str) -> Result<Vec<String>, libwallet::Error> {
	let mut wallet_proxy = create_wallet_proxy(test_dir);
	let chain = wallet_proxy.chain.clone();
	let stopper = wallet_proxy.running.clone();

	// two masked wallets
	create_wallet_and_add!(
		client1,
		wallet1,
		mask1_i,
		test_dir,
		"wallet1",
		None,
		&mut wallet_proxy,
		true
	);
	let mask1 = (&mask1_i).as_ref();
	create_wallet_and_add!(
		client2,
		wallet2,
		mask2_i,
		test_dir,
		"wallet2",
		None,
		&mut wallet_proxy,
		true
	);
	assert!(mask1.is_some() && mask2_i.is_some());
	assert_ne!(mask1_i, mask2_i);
	let _ = wallet2;

	thread::spawn(move || {
		if let Err(e) = wallet_proxy.run() {
			error!("Wallet Proxy error: {}", e);
		}
	});

	test_framework::award_blocks_to_wallet(&chain, wallet1.clone(), mask1, 5, false)?;

	let owner_api = api::Owner::new(wallet1.clone(), None);
	let (refreshed, info) = owner_api.retrieve_summary_info(mask1, true, 1)?;
	assert!(refreshed);
	assert!(info.total > 0);
	let (_, txs) = owner_api.retrieve_txs(mask1, false, None, None, None)?;
	assert!(!txs.is_empty());

	let random = {
		let secp_inst = static_secp_instance();
		let secp = secp_inst.lock();
		SecretKey::from_slice(&secp, &rand::random::<[u8; 32]>()).unwrap()
	};
	let mut one_bit = mask1_i.clone().unwrap();
	one_bit.0[0] ^= 0x80;
	let wrong_tokens: Vec<(&str, Option<SecretKey>)> = vec![
		("absent token", None),
		("random token", Some(random)),
		("off-by-one-bit token", Some(one_bit)),
		("another wallet's token", mask2_i.clone()),
	];

	let mut violations = vec![];
	for (name, t) in wrong_tokens.iter() {
		let t = t.as_ref();
		// sanity: the token really is wrong for this wallet, and operations that check say so
		assert!(is_invalid_mask(&owner_api.accounts(t)), "{}", name);
		assert!(
			is_invalid_mask(&owner_api.retrieve_outputs(t, false, false, None)),
			"{}",
			name
		);
		assert!(is_invalid_mask(&owner_api.node_height(t)), "{}", name);

		match owner_api.retrieve_summary_info(t, false, 1) {
			Ok((_, i)) => violations.push(format!(
				"retrieve_summary_info({}) -> Ok, total = {}, spendable = {}",
				name, i.total, i.amount_currently_spendable
			)),
			Err(libwallet::Error::InvalidKeychainMask) => {}
			Err(e) => violations.push(format!("retrieve_summary_info({}) -> {:?}", name, e)),
		}
		match owner_api.retrieve_txs(t, false, None, None, None) {
			Ok((_, l)) => violations.push(format!(
				"retrieve_txs({}) -> Ok, {} log entries",
				name,
				l.len()
			)),
			Err(libwallet::Error::InvalidKeychainMask) => {}
			Err(e) => violations.push(format!("retrieve_txs({}) -> {:?}", name, e)),
		}
	}

	// after the wallet is closed nothing succeeds (this part holds)
	owner_api.close_wallet(None)?;
	assert!(owner_api.retrieve_summary_info(mask1, false, 1).is_err());
	assert!(owner_api.retrieve_txs(mask1, false, None, None, None).is_err());

	stopper.store(false, Ordering::Relaxed);
	thread::sleep(Duration::from_millis(500));
	Ok(violations)
}

#[test]
fn masked_wallet_reads_need_the_right_token() {
	let test_dir = "test_output/finding2";
	setup(test_dir);
	let violations = reads_without_token_impl(test_dir).unwrap();
	clean_output_dir(test_dir);
	assert!(
		violations.is_empty(),
		"expected every owner call on a masked wallet made with a wrong or missing token to fail \
		 with InvalidKeychainMask (as accounts, retrieve_outputs and node_height do), but:\n  {}",
		violations.join("\n  ")
	);
}
