// Property C10: a slatepack encrypted to a set of recipient addresses decrypts to the
// original slate and sender address with each recipient's key.
//
// The armored slatepack that create_slatepack_message produces for a perfectly valid
// invoice payment with several change outputs is refused by slate_from_slatepack_message /
// decode_slatepack_message of the recipient ("Data invalid length"): the reader bounds the
// message by max_tx_weight * 32 bytes, the writer does not bound it at all, and an output
// costs ~1045 armored characters for 21 weight units (~50 per unit), an input ~51 for 1.
// The payer has already locked his outputs at that point; the invoicer can never read the reply.

#[macro_use]
extern crate log;
extern crate grin_wallet_controller as wallet;
extern crate grin_wallet_impls as impls;

use grin_core as core;
use grin_wallet_libwallet as libwallet;

use core::core::transaction::Weighting;
use impls::test_framework::{self, LocalWalletClient};
use libwallet::{InitTxArgs, IssueInvoiceTxArgs, Slate, SlateState};
use std::sync::atomic::Ordering;
use std::thread;
use std::time::Duration;

#[macro_use]
mod common;
use common::{clean_output_dir, create_wallet_proxy, setup};

fn invoice_reply_with_change_outputs(
	test_dir: &'static str,
	num_change_outputs: u32,
	encrypt: bool,
) -> Result<(), libwallet::Error> {
	let mut wallet_proxy = create_wallet_proxy(test_dir);
	let chain = wallet_proxy.chain.clone();
	let stopper = wallet_proxy.running.clone();

	create_wallet_and_add!(
		client1,
		wallet1,
		mask1_i,
		test_dir,
		"wallet1",
		None,
		&mut wallet_proxy,
		false
	);
	let mask1 = (&mask1_i).as_ref();
	create_wallet_and_add!(
		client2,
		wallet2,
		mask2_i,
		test_dir,
		"wallet2",
		None,
		&mut wallet_proxy,
		false
	);
	let mask2 = (&mask2_i).as_ref();

	thread::spawn(move || {
		if let Err(e) = wallet_proxy.run() {
			error!("Wallet Proxy error: {}", e);
		}
	});

	let reward = core::consensus::REWARD;
	let _ = test_framework::award_blocks_to_wallet(&chain, wallet1.clone(), mask1, 10, false);

	let mut addr1 = None;
	let mut addr2 = None;
	wallet::controller::owner_single_use(Some(wallet1.clone()), mask1, None, |api, m| {
		addr1 = Some(api.get_slatepack_address(m, 0)?);
		Ok(())
	})?;
	wallet::controller::owner_single_use(Some(wallet2.clone()), mask2, None, |api, m| {
		addr2 = Some(api.get_slatepack_address(m, 0)?);
		Ok(())
	})?;
	let addr1 = addr1.unwrap();
	let addr2 = addr2.unwrap();

	// wallet 2 issues an invoice, sends it to wallet 1 in a slatepack
	let mut i1_msg = String::new();
	wallet::controller::owner_single_use(Some(wallet2.clone()), mask2, None, |api, m| {
		let args = IssueInvoiceTxArgs {
			amount: reward * 2,
			..Default::default()
		};
		let slate = api.issue_invoice_tx(m, args)?;
		assert_eq!(slate.state, SlateState::Invoice1);
		i1_msg = api.create_slatepack_message(
			m,
			&slate,
			Some(0),
			if encrypt { vec![addr1.clone()] } else { vec![] },
		)?;
		Ok(())
	})?;

	// wallet 1 pays it, asking for some change outputs, locks, and replies in a slatepack
	let mut i2 = Slate::blank(2, true);
	let mut i2_msg = String::new();
	wallet::controller::owner_single_use(Some(wallet1.clone()), mask1, None, |api, m| {
		let i1 = api.slate_from_slatepack_message(m, i1_msg.clone(), vec![0])?;
		let args = InitTxArgs {
			src_acct_name: None,
			amount: i1.amount,
			minimum_confirmations: 2,
			max_outputs: 500,
			num_change_outputs,
			selection_strategy_is_use_all: false,
			..Default::default()
		};
		i2 = api.process_invoice_tx(m, &i1, args)?;
		assert_eq!(i2.state, SlateState::Invoice2);
		api.tx_lock_outputs(m, &i2)?;
		i2_msg = api.create_slatepack_message(
			m,
			&i2,
			Some(0),
			if encrypt { vec![addr2.clone()] } else { vec![] },
		)?;
		Ok(())
	})?;
	println!(
		"reply slate: {} inputs, {} outputs; armored slatepack: {} bytes; reader's bound: {} bytes",
		i2.tx.as_ref().unwrap().inputs().len(),
		i2.tx.as_ref().unwrap().outputs().len(),
		i2_msg.len(),
		libwallet::slatepack::max_size()
	);

	// wallet 2 reads the reply with its key
	let mut read = None;
	let mut decoded = None;
	wallet::controller::owner_single_use(Some(wallet2.clone()), mask2, None, |api, m| {
		read = Some(api.slate_from_slatepack_message(m, i2_msg.clone(), vec![0]));
		decoded = Some(api.decode_slatepack_message(m, i2_msg.clone(), vec![0]));
		Ok(())
	})?;
	let read = read.unwrap();
	let decoded = decoded.unwrap();
	println!(
		"slate_from_slatepack_message: {:?}",
		read.as_ref().map(|s| s.id)
	);
	println!(
		"decode_slatepack_message: {:?}",
		decoded.as_ref().map(|s| s.sender.clone())
	);

	// control: the very same slate, handed over directly, is fine: wallet 2 finalizes it
	// into a valid transaction (within the transaction weight limit)
	let mut i3 = None;
	wallet::controller::foreign_single_use(wallet2.clone(), mask2_i.clone(), |api| {
		i3 = Some(api.finalize_tx(&i2, false)?);
		Ok(())
	})?;
	let i3 = i3.unwrap();
	assert_eq!(i3.state, SlateState::Invoice3);
	let tx = i3.tx.clone().unwrap();
	tx.validate(Weighting::AsTransaction)
		.expect("the invoice payment is a valid transaction");
	println!(
		"the slate handed over directly finalizes into a valid transaction: {} inputs, {} outputs, weight {} (max {})",
		tx.inputs().len(),
		tx.outputs().len(),
		tx.weight(),
		core::global::max_tx_weight()
	);

	let read = match read {
		Ok(s) => s,
		Err(e) => panic!(
			"expected: the slatepack produced by create_slatepack_message for a valid slate \
			 decrypts to that slate with the recipient's key; got error: {}",
			e
		),
	};
	assert_eq!(
		serde_json::to_value(&i2).unwrap(),
		serde_json::to_value(&read).unwrap(),
		"expected: the original slate"
	);
	let decoded = match decoded {
		Ok(s) => s,
		Err(e) => panic!(
			"expected: decode_slatepack_message reads the slatepack; got error: {}",
			e
		),
	};
	assert_eq!(decoded.sender, Some(addr1.clone()), "expected: the sender address");

	stopper.store(false, Ordering::Relaxed);
	thread::sleep(Duration::from_millis(200));
	Ok(())
}

/// control: one change output, everything is fine
#[test]
fn c10_invoice_reply_one_change_output_encrypted() {
	let test_dir = "test_output/c10_finding1_1";
	setup(test_dir);
	if let Err(e) = invoice_reply_with_change_outputs(test_dir, 1, true) {
		panic!("Libwallet Error: {}", e);
	}
	clean_output_dir(test_dir);
}

/// eight change outputs: the recipient cannot read the slatepack
#[test]
fn c10_invoice_reply_eight_change_outputs_encrypted() {
	let test_dir = "test_output/c10_finding1_8";
	setup(test_dir);
	if let Err(e) = invoice_reply_with_change_outputs(test_dir, 8, true) {
		panic!("Libwallet Error: {}", e);
	}
	clean_output_dir(test_dir);
}

/// same without encryption
#[test]
fn c10_invoice_reply_eight_change_outputs_plain() {
	let test_dir = "test_output/c10_finding1_8p";
	setup(test_dir);
	if let Err(e) = invoice_reply_with_change_outputs(test_dir, 8, false) {
		panic!("Libwallet Error: {}", e);
	}
	clean_output_dir(test_dir);
}
