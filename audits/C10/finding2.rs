// Property C10: an encrypted slatepack decrypts, with the recipient's key, to the
// original slate.
//
// A finalized (S3) slate is handed over inside an encrypted slatepack so that the
// other party can post it. For a plain kernel the transaction that comes out of the
// slatepack is the one that went in. For a height-locked kernel (slate field feat = 2,
// feat_args.lock_hgt = N) the slate that comes out carries a *different* transaction:
// its kernel is a Plain kernel, while the signature was made for the HeightLocked one,
// so the transaction no longer validates and cannot be posted.

#[macro_use]
extern crate log;
extern crate grin_wallet_controller as wallet;
extern crate grin_wallet_impls as impls;

use grin_core as core;
use grin_wallet_libwallet as libwallet;

use core::core::transaction::{KernelFeatures, Weighting};
use impls::test_framework::{self, LocalWalletClient};
use libwallet::slate_versions::v4::{KernelFeaturesArgsV4, SlateV4};
use libwallet::{InitTxArgs, Slate, SlateState};
use std::sync::atomic::Ordering;
use std::thread;
use std::time::Duration;

#[macro_use]
mod common;
use common::{clean_output_dir, create_wallet_proxy, setup};

fn finalized_slate_through_slatepack(
	test_dir: &'static str,
	lock_height: Option<u64>,
) -> Result<(), libwallet::Error> {
	let mut wallet_proxy = create_wallet_proxy(test_dir);
	let chain = wallet_proxy.chain.clone();
	let stopper = wallet_proxy.running.clone();

	create_wallet_and_add!(
		client1,
		wallet1,
		mask1_i,
		test_dir,
		"wallet1",
		None,
		&mut wallet_proxy,
		false
	);
	let mask1 = (&mask1_i).as_ref();
	create_wallet_and_add!(
		client2,
		wallet2,
		mask2_i,
		test_dir,
		"wallet2",
		None,
		&mut wallet_proxy,
		false
	);
	let mask2 = (&mask2_i).as_ref();

	thread::spawn(move || {
		if let Err(e) = wallet_proxy.run() {
			error!("Wallet Proxy error: {}", e);
		}
	});

	let reward = core::consensus::REWARD;
	let bh = 10u64;
	let _ =
		test_framework::award_blocks_to_wallet(&chain, wallet1.clone(), mask1, bh as usize, false);

	// slatepack addresses of both wallets
	let mut addr1 = None;
	let mut addr2 = None;
	wallet::controller::owner_single_use(Some(wallet1.clone()), mask1, None, |api, m| {
		addr1 = Some(api.get_slatepack_address(m, 0)?);
		Ok(())
	})?;
	wallet::controller::owner_single_use(Some(wallet2.clone()), mask2, None, |api, m| {
		addr2 = Some(api.get_slatepack_address(m, 0)?);
		Ok(())
	})?;
	let addr1 = addr1.unwrap();
	let addr2 = addr2.unwrap();

	// wallet 1 starts a payment; the S1 slate goes out in a slatepack encrypted to wallet 2
	let mut s1_msg = String::new();
	wallet::controller::owner_single_use(Some(wallet1.clone()), mask1, None, |api, m| {
		let args = InitTxArgs {
			src_acct_name: None,
			amount: reward * 2,
			minimum_confirmations: 2,
			max_outputs: 500,
			num_change_outputs: 1,
			selection_strategy_is_use_all: true,
			..Default::default()
		};
		let mut slate = api.init_send_tx(m, args)?;
		if let Some(h) = lock_height {
			// the payment is to be height-locked: kernel features 2 with a lock height,
			// as the slate format provides for
			let mut v4 = SlateV4::from(&slate);
			v4.feat = 2;
			v4.feat_args = Some(KernelFeaturesArgsV4 { lock_hgt: h });
			slate = Slate::from(v4);
		}
		s1_msg = api.create_slatepack_message(m, &slate, Some(0), vec![addr2.clone()])?;
		api.tx_lock_outputs(m, &slate)?;
		Ok(())
	})?;

	// wallet 2 decrypts, receives, replies in a slatepack encrypted to wallet 1
	let mut s1 = None;
	wallet::controller::owner_single_use(Some(wallet2.clone()), mask2, None, |api, m| {
		s1 = Some(api.slate_from_slatepack_message(m, s1_msg.clone(), vec![0])?);
		Ok(())
	})?;
	let s1 = s1.unwrap();
	let mut s2 = None;
	wallet::controller::foreign_single_use(wallet2.clone(), mask2_i.clone(), |api| {
		s2 = Some(api.receive_tx(&s1, None, None)?);
		Ok(())
	})?;
	let s2 = s2.unwrap();
	let mut s2_msg = String::new();
	wallet::controller::owner_single_use(Some(wallet2.clone()), mask2, None, |api, m| {
		s2_msg = api.create_slatepack_message(m, &s2, Some(0), vec![addr1.clone()])?;
		Ok(())
	})?;

	// wallet 1 finalizes, and hands the finalized slate to wallet 2 in an encrypted slatepack
	let mut s3 = None;
	let mut s3_msg = String::new();
	wallet::controller::owner_single_use(Some(wallet1.clone()), mask1, None, |api, m| {
		let s2 = api.slate_from_slatepack_message(m, s2_msg.clone(), vec![0])?;
		let slate = api.finalize_tx(m, &s2)?;
		assert_eq!(slate.state, SlateState::Standard3);
		s3_msg = api.create_slatepack_message(m, &slate, Some(0), vec![addr2.clone()])?;
		s3 = Some(slate);
		Ok(())
	})?;
	let s3 = s3.unwrap();
	let orig_tx = s3.tx.clone().unwrap();

	// the finalized transaction that went into the slatepack is a valid one
	orig_tx
		.validate(Weighting::AsTransaction)
		.expect("the finalized transaction put into the slatepack is valid");
	match (lock_height, orig_tx.kernels()[0].features) {
		(None, KernelFeatures::Plain { .. }) => {}
		(Some(h), KernelFeatures::HeightLocked { lock_height, .. }) => assert_eq!(h, lock_height),
		(_, f) => panic!("unexpected kernel in the finalized transaction: {:?}", f),
	}

	// wallet 2 decrypts the slatepack with its key
	let mut decoded = None;
	let mut sender = None;
	wallet::controller::owner_single_use(Some(wallet2.clone()), mask2, None, |api, m| {
		decoded = Some(api.slate_from_slatepack_message(m, s3_msg.clone(), vec![0])?);
		sender = api
			.decode_slatepack_message(m, s3_msg.clone(), vec![0])?
			.sender;
		Ok(())
	})?;
	let decoded = decoded.unwrap();
	assert_eq!(sender, Some(addr1.clone()), "sender address is recovered");

	// slate fields as serialized
	assert_eq!(
		serde_json::to_value(&s3).unwrap(),
		serde_json::to_value(&decoded).unwrap(),
		"slate fields survive the slatepack"
	);

	let decoded_tx = decoded.tx.clone().unwrap();
	println!("kernel put in : {:?}", orig_tx.kernels()[0]);
	println!("kernel got out: {:?}", decoded_tx.kernels()[0]);

	let valid = decoded_tx.validate(Weighting::AsTransaction);
	println!("validation of the transaction taken out: {:?}", valid);

	assert_eq!(
		orig_tx.kernels(),
		decoded_tx.kernels(),
		"expected: the slate decrypted from the slatepack carries the same transaction kernel \
		 as the slate that was packed"
	);
	assert!(
		orig_tx == decoded_tx,
		"expected: the slate decrypted from the slatepack carries the transaction that was packed"
	);
	assert!(
		valid.is_ok(),
		"expected: the finalized transaction taken out of the slatepack is still valid, got {:?}",
		valid
	);

	// and it can be posted by the party that got it
	wallet::controller::owner_single_use(Some(wallet2.clone()), mask2, None, |api, m| {
		api.post_tx(m, &decoded, false)?;
		Ok(())
	})?;
	wallet::controller::owner_single_use(Some(wallet2.clone()), mask2, None, |api, m| {
		let (refreshed, info) = api.retrieve_summary_info(m, true, 1)?;
		assert!(refreshed);
		assert_eq!(
			info.amount_currently_spendable,
			reward * 2,
			"the posted payment is confirmed in wallet 2"
		);
		Ok(())
	})?;

	stopper.store(false, Ordering::Relaxed);
	thread::sleep(Duration::from_millis(200));
	Ok(())
}

/// control: with a plain kernel the finalized slate survives the slatepack
#[test]
fn c10_plain_finalized_slate_survives_encrypted_slatepack() {
	let test_dir = "test_output/c10_finding2_plain";
	setup(test_dir);
	if let Err(e) = finalized_slate_through_slatepack(test_dir, None) {
		panic!("Libwallet Error: {}", e);
	}
	clean_output_dir(test_dir);
}

/// with a height-locked kernel it does not
#[test]
fn c10_height_locked_finalized_slate_survives_encrypted_slatepack() {
	let test_dir = "test_output/c10_finding2_height_locked";
	setup(test_dir);
	if let Err(e) = finalized_slate_through_slatepack(test_dir, Some(5)) {
		panic!("Libwallet Error: {}", e);
	}
	clean_output_dir(test_dir);
}
