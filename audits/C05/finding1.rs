// Finding 1: cancelling a send that reserved a still unconfirmed output
// (minimum_confirmations = 0) is not an exact rollback: the reserved output does
// not go back to `Unconfirmed`, it ends up `Spent` (and its value disappears from
// every balance figure).

#[macro_use]
extern crate log;
extern crate grin_wallet_controller as wallet;
extern crate grin_wallet_impls as impls;

use grin_wallet_libwallet as libwallet;
use grin_keychain::Identifier;
use impls::test_framework::{self, LocalWalletClient};
use libwallet::{InitTxArgs, OutputStatus, Slate, TxLogEntryType, WalletInfo};
use std::sync::atomic::Ordering;
use std::thread;
use std::time::Duration;

#[macro_use]
mod common;
use common::{clean_output_dir, create_wallet_proxy, setup};

/// (key, status, value) of every output record of the active account, spent ones included
type OutputView = Vec<(Identifier, OutputStatus, u64)>;

fn cancel_min_conf_zero_impl(test_dir: &'static str) -> Result<(), libwallet::Error> {
	let mut wallet_proxy = create_wallet_proxy(test_dir);
	let chain = wallet_proxy.chain.clone();
	let stopper = wallet_proxy.running.clone();

	create_wallet_and_add!(
		client1,
		wallet1,
		mask1_i,
		test_dir,
		"wallet1",
		None,
		&mut wallet_proxy,
		false
	);
	let mask1 = (&mask1_i).as_ref();
	create_wallet_and_add!(
		client2,
		wallet2,
		mask2_i,
		test_dir,
		"wallet2",
		None,
		&mut wallet_proxy,
		false
	);
	let mask2 = (&mask2_i).as_ref();
	let _ = &client2;

	thread::spawn(move || {
		if let Err(e) = wallet_proxy.run() {
			error!("Wallet Proxy error: {}", e);
		}
	});

	let _ = test_framework::award_blocks_to_wallet(&chain, wallet1.clone(), mask1, 5, false);

	// wallet1 pays wallet2; the transaction is finalized but not posted (not mined) yet:
	// wallet2 holds one Unconfirmed output
	let amount = 30_000_000_000;
	let mut slate = Slate::blank(2, false);
	wallet::controller::owner_single_use(Some(wallet1.clone()), mask1, None, |api, m| {
		let args = InitTxArgs {
			src_acct_name: None,
			amount,
			minimum_confirmations: 2,
			max_outputs: 500,
			num_change_outputs: 1,
			selection_strategy_is_use_all: true,
			..Default::default()
		};
		let slate_i = api.init_send_tx(m, args)?;
		slate = client1.send_tx_slate_direct("wallet2", &slate_i)?;
		api.tx_lock_outputs(m, &slate)?;
		slate = api.finalize_tx(m, &slate)?;
		Ok(())
	})?;

	// state of wallet2 BEFORE it creates its own transaction
	let mut before_outputs: OutputView = vec![];
	let mut before_info: Option<WalletInfo> = None;
	wallet::controller::owner_single_use(Some(wallet2.clone()), mask2, None, |api, m| {
		let (refreshed, outs) = api.retrieve_outputs(m, true, true, None)?;
		assert!(refreshed);
		before_outputs = outs
			.iter()
			.map(|o| (o.output.key_id.clone(), o.output.status.clone(), o.output.value))
			.collect();
		let (_, info) = api.retrieve_summary_info(m, true, 1)?;
		before_info = Some(info);
		Ok(())
	})?;
	println!("wallet2 before: {:?}\n{:?}", before_outputs, before_info);
	assert_eq!(before_outputs.len(), 1);
	assert_eq!(before_outputs[0].1, OutputStatus::Unconfirmed);
	assert_eq!(before_outputs[0].2, amount);
	assert_eq!(
		before_info.as_ref().unwrap().amount_awaiting_finalization,
		amount
	);

	// wallet2 starts a send of its own with minimum_confirmations = 0 (which reserves the
	// unconfirmed output) ...
	let mut slate2 = Slate::blank(2, false);
	wallet::controller::owner_single_use(Some(wallet2.clone()), mask2, None, |api, m| {
		let args = InitTxArgs {
			src_acct_name: None,
			amount: amount / 3,
			minimum_confirmations: 0,
			max_outputs: 500,
			num_change_outputs: 1,
			selection_strategy_is_use_all: false,
			..Default::default()
		};
		slate2 = api.init_send_tx(m, args)?;
		api.tx_lock_outputs(m, &slate2)?;
		let (_, txs) = api.retrieve_txs(m, false, None, Some(slate2.id), None)?;
		assert_eq!(txs.len(), 1);
		assert_eq!(txs[0].tx_type, TxLogEntryType::TxSent);
		assert!(!txs[0].confirmed);
		Ok(())
	})?;

	// ... and changes its mind: the pending send is cancelled (accepted)
	wallet::controller::owner_single_use(Some(wallet2.clone()), mask2, None, |api, m| {
		api.cancel_tx(m, None, Some(slate2.id))?;
		let (_, txs) = api.retrieve_txs(m, false, None, Some(slate2.id), None)?;
		assert_eq!(txs[0].tx_type, TxLogEntryType::TxSentCancelled);
		Ok(())
	})?;

	// state of wallet2 AFTER the cancellation
	let mut after_outputs: OutputView = vec![];
	let mut after_info: Option<WalletInfo> = None;
	wallet::controller::owner_single_use(Some(wallet2.clone()), mask2, None, |api, m| {
		let (refreshed, outs) = api.retrieve_outputs(m, true, true, None)?;
		assert!(refreshed);
		after_outputs = outs
			.iter()
			.map(|o| (o.output.key_id.clone(), o.output.status.clone(), o.output.value))
			.collect();
		let (_, info) = api.retrieve_summary_info(m, true, 1)?;
		after_info = Some(info);
		Ok(())
	})?;
	println!("wallet2 after: {:?}\n{:?}", after_outputs, after_info);

	stopper.store(false, Ordering::Relaxed);
	thread::sleep(Duration::from_millis(200));

	assert_eq!(
		before_outputs, after_outputs,
		"cancelling the pending send must put every output back to the status and value it had \
		 before the send was created (the incoming, still unconfirmed output was Unconfirmed)"
	);
	assert_eq!(
		before_info, after_info,
		"cancelling the pending send must put every balance figure back to what it was before \
		 the send was created"
	);
	Ok(())
}

/// Variant (same mechanism, seen from the transaction that CREATED the unconfirmed output):
/// send A leaves change C (Unconfirmed); send B (minimum_confirmations = 0) reserves C, which
/// re-tags C with B's log id and makes it Locked. A is then posted and mined, but A is never
/// recognised as confirmed (its only own output is Locked, and kernel lookup is skipped for
/// entries with both a debit and a credit), so cancelling the mined transaction A is accepted.
fn cancel_mined_tx_impl(test_dir: &'static str) -> Result<(), libwallet::Error> {
	let mut wallet_proxy = create_wallet_proxy(test_dir);
	let chain = wallet_proxy.chain.clone();
	let stopper = wallet_proxy.running.clone();

	create_wallet_and_add!(
		client1,
		wallet1,
		mask1_i,
		test_dir,
		"wallet1",
		None,
		&mut wallet_proxy,
		false
	);
	let mask1 = (&mask1_i).as_ref();
	create_wallet_and_add!(
		client2,
		wallet2,
		mask2_i,
		test_dir,
		"wallet2",
		None,
		&mut wallet_proxy,
		false
	);
	let _ = (&client2, &wallet2, &mask2_i);

	thread::spawn(move || {
		if let Err(e) = wallet_proxy.run() {
			error!("Wallet Proxy error: {}", e);
		}
	});

	let _ = test_framework::award_blocks_to_wallet(&chain, wallet1.clone(), mask1, 6, false);

	// A: wallet1 pays wallet2 out of one coinbase, leaving a change output C
	let amount = 30_000_000_000;
	let mut slate_a = Slate::blank(2, false);
	wallet::controller::owner_single_use(Some(wallet1.clone()), mask1, None, |api, m| {
		let args = InitTxArgs {
			src_acct_name: None,
			amount,
			minimum_confirmations: 2,
			max_outputs: 500,
			num_change_outputs: 1,
			selection_strategy_is_use_all: false,
			..Default::default()
		};
		let slate_i = api.init_send_tx(m, args)?;
		slate_a = client1.send_tx_slate_direct("wallet2", &slate_i)?;
		api.tx_lock_outputs(m, &slate_a)?;
		slate_a = api.finalize_tx(m, &slate_a)?;
		Ok(())
	})?;

	// B: wallet1 starts another send with minimum_confirmations = 0, which reserves C
	let mut a_id = 0;
	wallet::controller::owner_single_use(Some(wallet1.clone()), mask1, None, |api, m| {
		let args = InitTxArgs {
			src_acct_name: None,
			amount: amount / 3,
			minimum_confirmations: 0,
			max_outputs: 500,
			num_change_outputs: 1,
			selection_strategy_is_use_all: false,
			..Default::default()
		};
		let slate_b = api.init_send_tx(m, args)?;
		api.tx_lock_outputs(m, &slate_b)?;
		let (_, txs) = api.retrieve_txs(m, false, None, Some(slate_a.id), None)?;
		a_id = txs[0].id;
		let (_, b) = api.retrieve_txs(m, false, None, Some(slate_b.id), None)?;
		// B reserved exactly one input, and it is A's change
		let (_, b_outs) = api.retrieve_outputs(m, false, false, Some(b[0].id))?;
		let locked: Vec<_> = b_outs
			.iter()
			.filter(|o| o.output.status == OutputStatus::Locked)
			.collect();
		assert_eq!(locked.len(), 1);
		assert!(locked[0].output.value < amount);
		Ok(())
	})?;

	// A is posted and mined
	let excess = slate_a.tx.as_ref().unwrap().body.kernels[0].excess;
	wallet::controller::owner_single_use(Some(wallet1.clone()), mask1, None, |api, m| {
		api.post_tx(m, &slate_a, false)?;
		Ok(())
	})?;
	let _ = test_framework::award_blocks_to_wallet(&chain, wallet1.clone(), mask1, 2, false);
	let mined = chain.get_kernel_height(&excess, None, None).unwrap();
	println!("A's kernel is on chain at: {:?}", mined.as_ref().map(|k| k.1));
	assert!(mined.is_some(), "test setup: A must be mined");

	// wallet1 asks to cancel A, by log id (cancel_tx refreshes from the node first)
	let mut cancel_res = Ok(());
	let mut a_after = None;
	wallet::controller::owner_single_use(Some(wallet1.clone()), mask1, None, |api, m| {
		cancel_res = api.cancel_tx(m, Some(a_id), None);
		let (_, txs) = api.retrieve_txs(m, true, Some(a_id), None, None)?;
		a_after = Some(txs[0].clone());
		Ok(())
	})?;
	println!("cancel of mined A: {:?}", cancel_res);
	println!("A afterwards: {:?}", a_after);

	stopper.store(false, Ordering::Relaxed);
	thread::sleep(Duration::from_millis(200));

	assert!(
		cancel_res.is_err(),
		"transaction A is mined (its kernel is on chain): cancelling it must be refused"
	);
	assert_eq!(
		a_after.unwrap().tx_type,
		TxLogEntryType::TxSent,
		"a refused cancellation must change nothing"
	);
	Ok(())
}

#[test]
fn c05_cancel_mined_tx_whose_change_was_reserved() {
	let test_dir = "test_output/c05_finding1_b";
	setup(test_dir);
	if let Err(e) = cancel_mined_tx_impl(test_dir) {
		panic!("Libwallet Error: {}", e);
	}
	clean_output_dir(test_dir);
}

#[test]
fn c05_cancel_send_of_unconfirmed_output() {
	let test_dir = "test_output/c05_finding1";
	setup(test_dir);
	if let Err(e) = cancel_min_conf_zero_impl(test_dir) {
		panic!("Libwallet Error: {}", e);
	}
	clean_output_dir(test_dir);
}
