// Finding 3: a cancel request that names no transaction at all (neither a log id
// nor a slate id - both parameters of `cancel_tx` are optional, e.g. two JSON nulls
// over the owner RPC) is not refused when the active account happens to hold exactly
// one log entry: that entry is cancelled.

#[macro_use]
extern crate log;
extern crate grin_wallet_controller as wallet;
extern crate grin_wallet_impls as impls;

use grin_keychain::Identifier;
use grin_wallet_libwallet as libwallet;
use impls::test_framework::{self, LocalWalletClient};
use libwallet::{InitTxArgs, OutputStatus, Slate, TxLogEntryType, WalletInfo};
use std::sync::atomic::Ordering;
use std::thread;
use std::time::Duration;

#[macro_use]
mod common;
use common::{clean_output_dir, create_wallet_proxy, setup};

/// (key, status, value) of every output record of the active account, spent ones included
type OutputView = Vec<(Identifier, OutputStatus, u64)>;

macro_rules! snapshot {
	($wallet:expr, $mask:expr) => {{
		let mut outputs: OutputView = vec![];
		let mut info: Option<WalletInfo> = None;
		wallet::controller::owner_single_use(Some($wallet.clone()), $mask, None, |api, m| {
			let (refreshed, outs) = api.retrieve_outputs(m, true, true, None)?;
			assert!(refreshed);
			outputs = outs
				.iter()
				.map(|o| (o.output.key_id.clone(), o.output.status.clone(), o.output.value))
				.collect();
			let (_, i) = api.retrieve_summary_info(m, true, 1)?;
			info = Some(i);
			Ok(())
		})?;
		(outputs, info.unwrap())
	}};
}

fn cancel_without_id_impl(test_dir: &'static str) -> Result<(), libwallet::Error> {
	let mut wallet_proxy = create_wallet_proxy(test_dir);
	let chain = wallet_proxy.chain.clone();
	let stopper = wallet_proxy.running.clone();

	create_wallet_and_add!(
		client1,
		wallet1,
		mask1_i,
		test_dir,
		"wallet1",
		None,
		&mut wallet_proxy,
		false
	);
	let mask1 = (&mask1_i).as_ref();
	create_wallet_and_add!(
		client2,
		wallet2,
		mask2_i,
		test_dir,
		"wallet2",
		None,
		&mut wallet_proxy,
		false
	);
	let mask2 = (&mask2_i).as_ref();
	let _ = (&client1, &client2);

	thread::spawn(move || {
		if let Err(e) = wallet_proxy.run() {
			error!("Wallet Proxy error: {}", e);
		}
	});

	let _ = test_framework::award_blocks_to_wallet(&chain, wallet1.clone(), mask1, 5, false);

	// wallet1 pays wallet2: wallet2 (a fresh wallet) now has its first, pending, receipt
	let amount = 30_000_000_000;
	let mut slate_i = Slate::blank(2, false);
	wallet::controller::owner_single_use(Some(wallet1.clone()), mask1, None, |api, m| {
		let args = InitTxArgs {
			src_acct_name: None,
			amount,
			minimum_confirmations: 2,
			max_outputs: 500,
			num_change_outputs: 1,
			selection_strategy_is_use_all: true,
			..Default::default()
		};
		slate_i = api.init_send_tx(m, args)?;
		api.tx_lock_outputs(m, &slate_i)?;
		Ok(())
	})?;
	wallet::controller::foreign_single_use(wallet2.clone(), mask2_i.clone(), |api| {
		api.receive_tx(&slate_i, None, None)?;
		Ok(())
	})?;

	let (before_outputs, before_info) = snapshot!(wallet2, mask2);
	println!("wallet2 before: {:?}\n{:?}", before_outputs, before_info);
	assert_eq!(before_info.amount_awaiting_finalization, amount);

	// a cancel request that identifies no transaction
	let mut cancel_res = Ok(());
	let mut entry_type = None;
	wallet::controller::owner_single_use(Some(wallet2.clone()), mask2, None, |api, m| {
		cancel_res = api.cancel_tx(m, None, None);
		let (_, txs) = api.retrieve_txs(m, false, None, Some(slate_i.id), None)?;
		entry_type = Some(txs[0].tx_type.clone());
		Ok(())
	})?;
	println!("cancel_tx(None, None): {:?}", cancel_res);

	let (after_outputs, after_info) = snapshot!(wallet2, mask2);
	println!("wallet2 after: {:?}\n{:?}", after_outputs, after_info);

	stopper.store(false, Ordering::Relaxed);
	thread::sleep(Duration::from_millis(200));

	assert!(
		cancel_res.is_err(),
		"a cancel request that names no (known) transaction must be refused"
	);
	assert_eq!(
		entry_type,
		Some(TxLogEntryType::TxReceived),
		"a refused cancellation must leave the pending receipt untouched"
	);
	assert_eq!(
		before_outputs, after_outputs,
		"a refused cancellation must change no output"
	);
	assert_eq!(
		before_info, after_info,
		"a refused cancellation must change no balance figure"
	);
	Ok(())
}

#[test]
fn c05_cancel_without_any_id() {
	let test_dir = "test_output/c05_finding3";
	setup(test_dir);
	if let Err(e) = cancel_without_id_impl(test_dir) {
		panic!("Libwallet Error: {}", e);
	}
	clean_output_dir(test_dir);
}
