// Property under test (C05): cancelling an unconfirmed sent transaction is an exact
// rollback - the status and value of every output and every balance figure are back to
// what they were before that transaction was created.
//
// Scenario: the transaction that is cancelled was built with `minimum_confirmations: 0`
// and had reserved an output that was itself still *unconfirmed* (the incoming output of a
// payment that has been received but not yet finalized/mined).
#[macro_use]
extern crate log;
extern crate grin_wallet_controller as wallet;
extern crate grin_wallet_impls as impls;

use grin_core as core;

use grin_wallet_libwallet as libwallet;
use impls::test_framework::{self, LocalWalletClient};
use libwallet::{InitTxArgs, OutputStatus, Slate, TxLogEntryType};
use std::sync::atomic::Ordering;
use std::thread;
use std::time::Duration;

#[macro_use]
mod common;
use common::{clean_output_dir, create_wallet_proxy, setup};

fn finding1_impl(test_dir: &'static str) -> Result<(), libwallet::Error> {
	let mut wallet_proxy = create_wallet_proxy(test_dir);
	let chain = wallet_proxy.chain.clone();
	let stopper = wallet_proxy.running.clone();

	create_wallet_and_add!(
		client1,
		wallet1,
		mask1_i,
		test_dir,
		"wallet1",
		None,
		&mut wallet_proxy,
		false
	);
	let mask1 = (&mask1_i).as_ref();
	create_wallet_and_add!(
		client2,
		wallet2,
		mask2_i,
		test_dir,
		"wallet2",
		None,
		&mut wallet_proxy,
		false
	);
	let mask2 = (&mask2_i).as_ref();

	thread::spawn(move || {
		if let Err(e) = wallet_proxy.run() {
			error!("Wallet Proxy error: {}", e);
		}
	});

	let reward = core::consensus::REWARD;

	// wallet1 gets some spendable coins
	let _ = test_framework::award_blocks_to_wallet(&chain, wallet1.clone(), mask1, 6, false);

	// wallet1 pays `reward` to wallet2; wallet2 has received the payment, wallet1 has not
	// finalized/posted it yet. wallet2 now has a pending received entry with one unconfirmed
	// output.
	let mut slate = Slate::blank(2, false);
	wallet::controller::owner_single_use(Some(wallet1.clone()), mask1, None, |api, m| {
		let args = InitTxArgs {
			src_acct_name: None,
			amount: reward,
			minimum_confirmations: 2,
			max_outputs: 500,
			num_change_outputs: 1,
			selection_strategy_is_use_all: false,
			..Default::default()
		};
		slate = api.init_send_tx(m, args)?;
		slate = client1.send_tx_slate_direct("wallet2", &slate)?;
		api.tx_lock_outputs(m, &slate)?;
		Ok(())
	})?;

	// state of wallet2 BEFORE it creates the transaction that is going to be cancelled
	let mut outputs_before = vec![];
	let mut info_before = None;
	let mut txs_before = vec![];
	wallet::controller::owner_single_use(Some(wallet2.clone()), mask2, None, |api, m| {
		let (refreshed, outputs) = api.retrieve_outputs(m, true, true, None)?;
		assert!(refreshed);
		outputs_before = outputs
			.iter()
			.map(|o| (o.output.key_id.clone(), o.output.status.clone(), o.output.value))
			.collect();
		let (_, info) = api.retrieve_summary_info(m, true, 1)?;
		info_before = Some(info);
		let (_, txs) = api.retrieve_txs(m, true, None, None, None)?;
		txs_before = txs;
		Ok(())
	})?;
	assert_eq!(outputs_before.len(), 1);
	assert_eq!(outputs_before[0].1, OutputStatus::Unconfirmed);
	assert_eq!(outputs_before[0].2, reward);
	assert_eq!(txs_before.len(), 1);
	let info_before = info_before.unwrap();
	assert_eq!(info_before.amount_awaiting_finalization, reward);
	assert_eq!(info_before.amount_currently_spendable, 0);
	assert_eq!(info_before.total, 0);

	// wallet2 starts a payment of its own with minimum_confirmations 0: the unconfirmed
	// incoming output is selected and reserved
	let mut slate2 = Slate::blank(2, false);
	let mut sent_id = 0;
	wallet::controller::owner_single_use(Some(wallet2.clone()), mask2, None, |api, m| {
		let args = InitTxArgs {
			src_acct_name: None,
			amount: reward / 2,
			minimum_confirmations: 0,
			max_outputs: 500,
			num_change_outputs: 1,
			selection_strategy_is_use_all: false,
			..Default::default()
		};
		slate2 = api.init_send_tx(m, args)?;
		api.tx_lock_outputs(m, &slate2)?;
		let (_, txs) = api.retrieve_txs(m, false, None, Some(slate2.id), None)?;
		assert_eq!(txs.len(), 1);
		assert_eq!(txs[0].tx_type, TxLogEntryType::TxSent);
		sent_id = txs[0].id;
		let (_, outputs) = api.retrieve_outputs(m, true, false, None)?;
		let reserved = outputs
			.iter()
			.find(|o| o.output.key_id == outputs_before[0].0)
			.unwrap();
		assert_eq!(reserved.output.status, OutputStatus::Locked);
		Ok(())
	})?;

	// ... and cancels it again
	let mut outputs_after = vec![];
	let mut info_after = None;
	let mut txs_after = vec![];
	wallet::controller::owner_single_use(Some(wallet2.clone()), mask2, None, |api, m| {
		api.cancel_tx(m, Some(sent_id), None)?;
		let (_, outputs) = api.retrieve_outputs(m, true, true, None)?;
		outputs_after = outputs
			.iter()
			.map(|o| (o.output.key_id.clone(), o.output.status.clone(), o.output.value))
			.collect();
		let (_, info) = api.retrieve_summary_info(m, true, 1)?;
		info_after = Some(info);
		let (_, txs) = api.retrieve_txs(m, true, None, None, None)?;
		txs_after = txs;
		Ok(())
	})?;
	let info_after = info_after.unwrap();

	println!("outputs before: {:?}", outputs_before);
	println!("outputs after : {:?}", outputs_after);
	println!("info before: {:?}", info_before);
	println!("info after : {:?}", info_after);

	// the cancelled entry is marked cancelled and the other (received, still pending) entry is
	// untouched
	let cancelled = txs_after.iter().find(|t| t.id == sent_id).unwrap();
	assert_eq!(cancelled.tx_type, TxLogEntryType::TxSentCancelled);
	let received = txs_after.iter().find(|t| t.id == txs_before[0].id).unwrap();
	assert_eq!(
		received.tx_type,
		TxLogEntryType::TxReceived,
		"the pending received entry must not be affected"
	);
	assert!(!received.confirmed);

	stopper.store(false, Ordering::Relaxed);
	thread::sleep(Duration::from_millis(200));

	// exact rollback: every output has the status and value it had before the cancelled
	// transaction was created ...
	assert_eq!(
		outputs_after, outputs_before,
		"cancel_tx must put every output back to the status/value it had before the cancelled \
		 transaction was created (the reserved input was Unconfirmed, value {})",
		reward
	);
	// ... and so has every balance figure
	assert_eq!(
		info_after, info_before,
		"cancel_tx must put every balance figure back to what it was before the cancelled \
		 transaction was created"
	);
	Ok(())
}

#[test]
fn c05_cancel_send_that_reserved_unconfirmed_output() {
	let test_dir = "test_output/c05_finding1";
	setup(test_dir);
	if let Err(e) = finding1_impl(test_dir) {
		panic!("Libwallet Error: {}", e);
	}
	clean_output_dir(test_dir);
}
