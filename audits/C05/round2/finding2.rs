// Property under test (C05): "Cancelling a confirmed ... transaction is refused and changes
// nothing."
//
// Scenario: a sent transaction S (with a change output) is finalized; before it is mined the
// wallet starts a follow-up payment S2 with `minimum_confirmations: 0`, which reserves S's
// still unconfirmed change output. S is then posted and mined. The wallet never records S as
// confirmed, and cancel_tx accepts it although its kernel is on chain.
#[macro_use]
extern crate log;
extern crate grin_wallet_controller as wallet;
extern crate grin_wallet_impls as impls;

use grin_core as core;

use grin_wallet_libwallet as libwallet;
use impls::test_framework::{self, LocalWalletClient};
use libwallet::{InitTxArgs, OutputStatus, Slate, TxLogEntryType};
use std::sync::atomic::Ordering;
use std::thread;
use std::time::Duration;

#[macro_use]
mod common;
use common::{clean_output_dir, create_wallet_proxy, setup};

fn finding2_impl(test_dir: &'static str) -> Result<(), libwallet::Error> {
	let mut wallet_proxy = create_wallet_proxy(test_dir);
	let chain = wallet_proxy.chain.clone();
	let stopper = wallet_proxy.running.clone();

	create_wallet_and_add!(
		client1,
		wallet1,
		mask1_i,
		test_dir,
		"wallet1",
		None,
		&mut wallet_proxy,
		false
	);
	let mask1 = (&mask1_i).as_ref();
	create_wallet_and_add!(
		client2,
		wallet2,
		mask2_i,
		test_dir,
		"wallet2",
		None,
		&mut wallet_proxy,
		false
	);
	let mask2 = (&mask2_i).as_ref();
	let _ = &client2;

	thread::spawn(move || {
		if let Err(e) = wallet_proxy.run() {
			error!("Wallet Proxy error: {}", e);
		}
	});

	let reward = core::consensus::REWARD;

	let _ = test_framework::award_blocks_to_wallet(&chain, wallet1.clone(), mask1, 6, false);

	// S: wallet1 pays reward/2 to wallet2 (one coinbase input, one change output of a bit
	// less than reward/2), finalized but not posted yet
	let mut slate = Slate::blank(2, false);
	let mut s_id = 0;
	let mut change_key = None;
	wallet::controller::owner_single_use(Some(wallet1.clone()), mask1, None, |api, m| {
		let args = InitTxArgs {
			src_acct_name: None,
			amount: reward / 2,
			minimum_confirmations: 2,
			max_outputs: 500,
			num_change_outputs: 1,
			selection_strategy_is_use_all: false,
			..Default::default()
		};
		slate = api.init_send_tx(m, args)?;
		slate = client1.send_tx_slate_direct("wallet2", &slate)?;
		api.tx_lock_outputs(m, &slate)?;
		slate = api.finalize_tx(m, &slate)?;
		let (_, txs) = api.retrieve_txs(m, false, None, Some(slate.id), None)?;
		assert_eq!(txs.len(), 1);
		s_id = txs[0].id;
		assert_eq!(txs[0].num_outputs, 1);
		let (_, outputs) = api.retrieve_outputs(m, false, false, Some(s_id))?;
		let change = outputs
			.iter()
			.find(|o| o.output.status == OutputStatus::Unconfirmed)
			.expect("change output of S");
		change_key = Some(change.output.key_id.clone());
		Ok(())
	})?;
	let change_key = change_key.unwrap();

	// S2: a follow-up payment with minimum_confirmations 0, which spends the (smallest
	// eligible output, i.e. the) unconfirmed change of S
	let mut slate2 = Slate::blank(2, false);
	wallet::controller::owner_single_use(Some(wallet1.clone()), mask1, None, |api, m| {
		let args = InitTxArgs {
			src_acct_name: None,
			amount: reward / 4,
			minimum_confirmations: 0,
			max_outputs: 500,
			num_change_outputs: 1,
			selection_strategy_is_use_all: false,
			..Default::default()
		};
		slate2 = api.init_send_tx(m, args)?;
		api.tx_lock_outputs(m, &slate2)?;
		let (_, outputs) = api.retrieve_outputs(m, false, false, None)?;
		let change = outputs
			.iter()
			.find(|o| o.output.key_id == change_key)
			.unwrap();
		assert_eq!(
			change.output.status,
			OutputStatus::Locked,
			"test setup: S2 is expected to reserve the unconfirmed change of S"
		);
		Ok(())
	})?;

	// S is posted now (the test node mines it at once)
	wallet::controller::owner_single_use(Some(wallet1.clone()), mask1, None, |api, m| {
		api.post_tx(m, &slate, false)?;
		Ok(())
	})?;
	let _ = test_framework::award_blocks_to_wallet(&chain, wallet1.clone(), mask1, 2, false);

	// the recipient sees it confirmed: it is on chain
	wallet::controller::owner_single_use(Some(wallet2.clone()), mask2, None, |api, m| {
		let (refreshed, txs) = api.retrieve_txs(m, true, None, Some(slate.id), None)?;
		assert!(refreshed);
		assert_eq!(txs.len(), 1);
		assert!(txs[0].confirmed, "test setup: S is mined, wallet2 sees it");
		Ok(())
	})?;

	// wallet1 now asks to cancel S
	let mut cancel_res = None;
	let mut s_before = None;
	let mut s_after = None;
	wallet::controller::owner_single_use(Some(wallet1.clone()), mask1, None, |api, m| {
		let (refreshed, txs) = api.retrieve_txs(m, true, Some(s_id), None, None)?;
		assert!(refreshed);
		s_before = Some(txs[0].clone());
		cancel_res = Some(api.cancel_tx(m, Some(s_id), None));
		let (_, txs) = api.retrieve_txs(m, true, Some(s_id), None, None)?;
		s_after = Some(txs[0].clone());
		Ok(())
	})?;
	let s_before = s_before.unwrap();
	let s_after = s_after.unwrap();
	println!("S before cancel: {:?}", s_before);
	println!("cancel result  : {:?}", cancel_res);
	println!("S after cancel : {:?}", s_after);

	stopper.store(false, Ordering::Relaxed);
	thread::sleep(Duration::from_millis(200));

	assert!(
		cancel_res.unwrap().is_err(),
		"S has been mined (its recipient sees it confirmed): cancel_tx must refuse it"
	);
	assert_eq!(
		s_after.tx_type,
		TxLogEntryType::TxSent,
		"a refused cancellation changes nothing: the entry of the mined transaction must not \
		 be marked cancelled"
	);
	Ok(())
}

#[test]
fn c05_cancel_mined_send_whose_change_was_reserved() {
	let test_dir = "test_output/c05_finding2";
	setup(test_dir);
	if let Err(e) = finding2_impl(test_dir) {
		panic!("Libwallet Error: {}", e);
	}
	clean_output_dir(test_dir);
}
