// Property under test (C05): cancelling an unconfirmed received transaction removes its
// incoming output and puts every balance figure back to what it was before the transaction
// was received (or the request is refused and nothing changes).
//
// Scenario: the incoming (unconfirmed) output of the received transaction R has meanwhile been
// reserved by a pending send S of the same wallet that was built with
// `minimum_confirmations: 0`. Reserving the output re-links it to S, so cancelling R finds
// no output to remove.
#[macro_use]
extern crate log;
extern crate grin_wallet_controller as wallet;
extern crate grin_wallet_impls as impls;

use grin_core as core;

use grin_wallet_libwallet as libwallet;
use impls::test_framework::{self, LocalWalletClient};
use libwallet::{InitTxArgs, OutputStatus, Slate, TxLogEntryType};
use std::sync::atomic::Ordering;
use std::thread;
use std::time::Duration;

#[macro_use]
mod common;
use common::{clean_output_dir, create_wallet_proxy, setup};

fn finding3_impl(test_dir: &'static str) -> Result<(), libwallet::Error> {
	let mut wallet_proxy = create_wallet_proxy(test_dir);
	let chain = wallet_proxy.chain.clone();
	let stopper = wallet_proxy.running.clone();

	create_wallet_and_add!(
		client1,
		wallet1,
		mask1_i,
		test_dir,
		"wallet1",
		None,
		&mut wallet_proxy,
		false
	);
	let mask1 = (&mask1_i).as_ref();
	create_wallet_and_add!(
		client2,
		wallet2,
		mask2_i,
		test_dir,
		"wallet2",
		None,
		&mut wallet_proxy,
		false
	);
	let mask2 = (&mask2_i).as_ref();
	let _ = &client2;

	thread::spawn(move || {
		if let Err(e) = wallet_proxy.run() {
			error!("Wallet Proxy error: {}", e);
		}
	});

	let reward = core::consensus::REWARD;
	let _ = test_framework::award_blocks_to_wallet(&chain, wallet1.clone(), mask1, 6, false);

	// state of wallet2 BEFORE it receives anything: no outputs, every balance figure zero
	let mut info_before = None;
	wallet::controller::owner_single_use(Some(wallet2.clone()), mask2, None, |api, m| {
		let (_, outputs) = api.retrieve_outputs(m, true, true, None)?;
		assert!(outputs.is_empty());
		let (_, info) = api.retrieve_summary_info(m, true, 1)?;
		info_before = Some(info);
		Ok(())
	})?;
	let info_before = info_before.unwrap();

	// R: wallet1 pays `reward` to wallet2; received by wallet2, not finalized by wallet1
	let mut slate = Slate::blank(2, false);
	wallet::controller::owner_single_use(Some(wallet1.clone()), mask1, None, |api, m| {
		let args = InitTxArgs {
			src_acct_name: None,
			amount: reward,
			minimum_confirmations: 2,
			max_outputs: 500,
			num_change_outputs: 1,
			selection_strategy_is_use_all: false,
			..Default::default()
		};
		slate = api.init_send_tx(m, args)?;
		slate = client1.send_tx_slate_direct("wallet2", &slate)?;
		api.tx_lock_outputs(m, &slate)?;
		Ok(())
	})?;

	// S: wallet2 starts a payment with minimum_confirmations 0, reserving R's output
	let mut r_id = 0;
	let mut r_output = None;
	let mut slate2 = Slate::blank(2, false);
	wallet::controller::owner_single_use(Some(wallet2.clone()), mask2, None, |api, m| {
		let (_, txs) = api.retrieve_txs(m, true, None, Some(slate.id), None)?;
		assert_eq!(txs.len(), 1);
		assert_eq!(txs[0].tx_type, TxLogEntryType::TxReceived);
		r_id = txs[0].id;
		let (_, outputs) = api.retrieve_outputs(m, true, false, Some(r_id))?;
		assert_eq!(outputs.len(), 1);
		assert_eq!(outputs[0].output.status, OutputStatus::Unconfirmed);
		r_output = Some(outputs[0].output.key_id.clone());

		let args = InitTxArgs {
			src_acct_name: None,
			amount: reward / 2,
			minimum_confirmations: 0,
			max_outputs: 500,
			num_change_outputs: 1,
			selection_strategy_is_use_all: false,
			..Default::default()
		};
		slate2 = api.init_send_tx(m, args)?;
		api.tx_lock_outputs(m, &slate2)?;
		Ok(())
	})?;
	let r_output = r_output.unwrap();

	// wallet2 cancels R (wallet1 has told it the payment will not be completed)
	let mut cancel_res = None;
	let mut outputs_after = vec![];
	let mut info_after = None;
	let mut r_after = None;
	wallet::controller::owner_single_use(Some(wallet2.clone()), mask2, None, |api, m| {
		cancel_res = Some(api.cancel_tx(m, Some(r_id), None));
		let (_, outputs) = api.retrieve_outputs(m, true, true, None)?;
		outputs_after = outputs
			.iter()
			.map(|o| {
				(
					o.output.key_id.clone(),
					o.output.status.clone(),
					o.output.value,
					o.output.tx_log_entry,
				)
			})
			.collect();
		let (_, info) = api.retrieve_summary_info(m, true, 1)?;
		info_after = Some(info);
		let (_, txs) = api.retrieve_txs(m, true, Some(r_id), None, None)?;
		r_after = Some(txs[0].clone());
		Ok(())
	})?;
	let cancel_res = cancel_res.unwrap();
	let info_after = info_after.unwrap();
	let r_after = r_after.unwrap();
	println!("cancel result: {:?}", cancel_res);
	println!("R after      : {:?} confirmed {}", r_after.tx_type, r_after.confirmed);
	println!("outputs after: {:?}", outputs_after);
	println!("info before R: {:?}", info_before);
	println!("info after   : {:?}", info_after);

	stopper.store(false, Ordering::Relaxed);
	thread::sleep(Duration::from_millis(200));

	if cancel_res.is_err() {
		// refusing (the output is in use by another pending transaction) is fine, as long as
		// nothing has changed
		assert_eq!(r_after.tx_type, TxLogEntryType::TxReceived);
		return Ok(());
	}
	// the cancellation was accepted: R is marked cancelled ...
	assert_eq!(r_after.tx_type, TxLogEntryType::TxReceivedCancelled);
	// ... so its incoming output must be gone
	assert!(
		outputs_after.iter().all(|o| o.0 != r_output),
		"R was cancelled, its incoming output (value {}) must be gone from the wallet, \
		 but the wallet still holds it: {:?}",
		reward,
		outputs_after.iter().find(|o| o.0 == r_output)
	);
	Ok(())
}

#[test]
fn c05_cancel_receive_whose_output_was_reserved() {
	let test_dir = "test_output/c05_finding3";
	setup(test_dir);
	if let Err(e) = finding3_impl(test_dir) {
		panic!("Libwallet Error: {}", e);
	}
	clean_output_dir(test_dir);
}
