// Finding 2: a pending transaction addressed by its slate id cannot be cancelled
// when another log entry of the same account carries the same slate id
// (a previously cancelled receipt of the same slate, or the other half of a
// self-send): `cancel_tx` answers "transaction doesn't exist" and nothing is
// rolled back.

#[macro_use]
extern crate log;
extern crate grin_wallet_controller as wallet;
extern crate grin_wallet_impls as impls;

use grin_keychain::Identifier;
use grin_wallet_libwallet as libwallet;
use impls::test_framework::{self, LocalWalletClient};
use libwallet::{InitTxArgs, OutputStatus, Slate, TxLogEntryType, WalletInfo};
use std::sync::atomic::Ordering;
use std::thread;
use std::time::Duration;

#[macro_use]
mod common;
use common::{clean_output_dir, create_wallet_proxy, setup};

/// (key, status, value) of every output record of the active account, spent ones included
type OutputView = Vec<(Identifier, OutputStatus, u64)>;

macro_rules! snapshot {
	($wallet:expr, $mask:expr) => {{
		let mut outputs: OutputView = vec![];
		let mut info: Option<WalletInfo> = None;
		wallet::controller::owner_single_use(Some($wallet.clone()), $mask, None, |api, m| {
			let (refreshed, outs) = api.retrieve_outputs(m, true, true, None)?;
			assert!(refreshed);
			outputs = outs
				.iter()
				.map(|o| (o.output.key_id.clone(), o.output.status.clone(), o.output.value))
				.collect();
			let (_, i) = api.retrieve_summary_info(m, true, 1)?;
			info = Some(i);
			Ok(())
		})?;
		(outputs, info.unwrap())
	}};
}

/// recipient: receive, cancel, receive the same slate again, cancel by slate id
fn cancel_by_slate_id_after_rereceive_impl(test_dir: &'static str) -> Result<(), libwallet::Error> {
	let mut wallet_proxy = create_wallet_proxy(test_dir);
	let chain = wallet_proxy.chain.clone();
	let stopper = wallet_proxy.running.clone();

	create_wallet_and_add!(
		client1,
		wallet1,
		mask1_i,
		test_dir,
		"wallet1",
		None,
		&mut wallet_proxy,
		false
	);
	let mask1 = (&mask1_i).as_ref();
	create_wallet_and_add!(
		client2,
		wallet2,
		mask2_i,
		test_dir,
		"wallet2",
		None,
		&mut wallet_proxy,
		false
	);
	let mask2 = (&mask2_i).as_ref();
	let _ = (&client1, &client2);

	thread::spawn(move || {
		if let Err(e) = wallet_proxy.run() {
			error!("Wallet Proxy error: {}", e);
		}
	});

	let _ = test_framework::award_blocks_to_wallet(&chain, wallet1.clone(), mask1, 5, false);

	// wallet1 initiates a payment to wallet2
	let amount = 30_000_000_000;
	let mut slate_i = Slate::blank(2, false);
	wallet::controller::owner_single_use(Some(wallet1.clone()), mask1, None, |api, m| {
		let args = InitTxArgs {
			src_acct_name: None,
			amount,
			minimum_confirmations: 2,
			max_outputs: 500,
			num_change_outputs: 1,
			selection_strategy_is_use_all: true,
			..Default::default()
		};
		slate_i = api.init_send_tx(m, args)?;
		api.tx_lock_outputs(m, &slate_i)?;
		Ok(())
	})?;

	// wallet2 receives it ...
	wallet::controller::foreign_single_use(wallet2.clone(), mask2_i.clone(), |api| {
		api.receive_tx(&slate_i, None, None)?;
		Ok(())
	})?;
	// ... and cancels it (say the reply was lost)
	wallet::controller::owner_single_use(Some(wallet2.clone()), mask2, None, |api, m| {
		api.cancel_tx(m, None, Some(slate_i.id))?;
		Ok(())
	})?;

	// state of wallet2 before the second receipt
	let (before_outputs, before_info) = snapshot!(wallet2, mask2);
	println!("wallet2 before: {:?}\n{:?}", before_outputs, before_info);
	assert!(before_outputs.is_empty());

	// wallet1 sends the same slate again, wallet2 receives it again (accepted: the earlier
	// receipt is cancelled)
	wallet::controller::foreign_single_use(wallet2.clone(), mask2_i.clone(), |api| {
		api.receive_tx(&slate_i, None, None)?;
		Ok(())
	})?;
	let mut pending_id = 0;
	wallet::controller::owner_single_use(Some(wallet2.clone()), mask2, None, |api, m| {
		let (_, txs) = api.retrieve_txs(m, true, None, Some(slate_i.id), None)?;
		let pending: Vec<_> = txs
			.iter()
			.filter(|t| t.tx_type == TxLogEntryType::TxReceived && !t.confirmed)
			.collect();
		// exactly one pending transaction carries this slate id
		assert_eq!(pending.len(), 1);
		pending_id = pending[0].id;
		let (_, info) = api.retrieve_summary_info(m, true, 1)?;
		assert_eq!(info.amount_awaiting_finalization, amount);
		Ok(())
	})?;

	// wallet2 cancels the pending receipt, addressing it by slate id
	let mut cancel_res = Ok(());
	wallet::controller::owner_single_use(Some(wallet2.clone()), mask2, None, |api, m| {
		cancel_res = api.cancel_tx(m, None, Some(slate_i.id));
		Ok(())
	})?;
	println!("cancel by slate id: {:?}", cancel_res);

	let (after_outputs, after_info) = snapshot!(wallet2, mask2);
	println!("wallet2 after: {:?}\n{:?}", after_outputs, after_info);
	let mut after_type = None;
	wallet::controller::owner_single_use(Some(wallet2.clone()), mask2, None, |api, m| {
		let (_, txs) = api.retrieve_txs(m, false, Some(pending_id), None, None)?;
		after_type = Some(txs[0].tx_type.clone());
		Ok(())
	})?;

	stopper.store(false, Ordering::Relaxed);
	thread::sleep(Duration::from_millis(200));

	assert!(
		cancel_res.is_ok(),
		"cancelling the one pending (unconfirmed) received transaction by its slate id must be \
		 accepted, got: {:?}",
		cancel_res
	);
	assert_eq!(
		after_type,
		Some(TxLogEntryType::TxReceivedCancelled),
		"the pending log entry must be marked cancelled"
	);
	assert_eq!(
		before_outputs, after_outputs,
		"the incoming output of the cancelled receipt must be gone"
	);
	assert_eq!(
		before_info, after_info,
		"every balance figure must be back to what it was before the slate was received"
	);
	Ok(())
}

/// self-send within one account: cancel by slate id
fn cancel_self_send_by_slate_id_impl(test_dir: &'static str) -> Result<(), libwallet::Error> {
	let mut wallet_proxy = create_wallet_proxy(test_dir);
	let chain = wallet_proxy.chain.clone();
	let stopper = wallet_proxy.running.clone();

	create_wallet_and_add!(
		client1,
		wallet1,
		mask1_i,
		test_dir,
		"wallet1",
		None,
		&mut wallet_proxy,
		false
	);
	let mask1 = (&mask1_i).as_ref();
	let _ = &client1;

	thread::spawn(move || {
		if let Err(e) = wallet_proxy.run() {
			error!("Wallet Proxy error: {}", e);
		}
	});

	let _ = test_framework::award_blocks_to_wallet(&chain, wallet1.clone(), mask1, 6, false);

	let (before_outputs, before_info) = snapshot!(wallet1, mask1);

	// wallet1 sends to itself (same account): sent entry + received entry, one slate id
	let amount = 30_000_000_000;
	let mut slate = Slate::blank(2, false);
	wallet::controller::owner_single_use(Some(wallet1.clone()), mask1, None, |api, m| {
		let args = InitTxArgs {
			src_acct_name: None,
			amount,
			minimum_confirmations: 2,
			max_outputs: 500,
			num_change_outputs: 1,
			selection_strategy_is_use_all: false,
			..Default::default()
		};
		slate = api.init_send_tx(m, args)?;
		api.tx_lock_outputs(m, &slate)?;
		wallet::controller::foreign_single_use(wallet1.clone(), mask1_i.clone(), |api| {
			api.receive_tx(&slate, None, None)?;
			Ok(())
		})?;
		let (_, txs) = api.retrieve_txs(m, true, None, Some(slate.id), None)?;
		assert_eq!(txs.len(), 2);
		assert!(txs.iter().all(|t| !t.confirmed));
		Ok(())
	})?;

	// the pending self-send is cancelled by slate id
	let mut cancel_res = Ok(());
	wallet::controller::owner_single_use(Some(wallet1.clone()), mask1, None, |api, m| {
		cancel_res = api.cancel_tx(m, None, Some(slate.id));
		Ok(())
	})?;
	println!("cancel self-send by slate id: {:?}", cancel_res);

	let (after_outputs, after_info) = snapshot!(wallet1, mask1);
	println!("before: {:?}\n{:?}", before_outputs, before_info);
	println!("after: {:?}\n{:?}", after_outputs, after_info);

	stopper.store(false, Ordering::Relaxed);
	thread::sleep(Duration::from_millis(200));

	assert!(
		cancel_res.is_ok(),
		"cancelling a pending (unconfirmed) self-send by its slate id must be accepted, got: {:?}",
		cancel_res
	);
	assert_eq!(
		before_outputs, after_outputs,
		"reserved inputs must be spendable again, change and incoming outputs gone"
	);
	assert_eq!(
		before_info, after_info,
		"every balance figure must be back to what it was before the self-send was created"
	);
	Ok(())
}

#[test]
fn c05_cancel_by_slate_id_after_rereceive() {
	let test_dir = "test_output/c05_finding2_a";
	setup(test_dir);
	if let Err(e) = cancel_by_slate_id_after_rereceive_impl(test_dir) {
		panic!("Libwallet Error: {}", e);
	}
	clean_output_dir(test_dir);
}

#[test]
fn c05_cancel_self_send_by_slate_id() {
	let test_dir = "test_output/c05_finding2_b";
	setup(test_dir);
	if let Err(e) = cancel_self_send_by_slate_id_impl(test_dir) {
		panic!("Libwallet Error: {}", e);
	}
	clean_output_dir(test_dir);
}
