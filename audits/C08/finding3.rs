// C08 finding 3: the binary slate encoding (and with it every slatepack) drops the fee
// fields of a slate whenever their low 40 bits are zero, while V4 JSON keeps them.
//
// `FeeFields` is a u64: fee in bits 0..40, fee_shift in bits 40..44.  V4 JSON omits the field
// only if the whole value is zero (`fee_is_zero` -> `FeeFields::is_zero`), the binary writer
// omits it if `fee.fee()` - the low 40 bits - is zero.  For the boundary value 2^40 (fee_shift
// 1, fee 0), or any other multiple of 2^40, JSON round-trips the value and binary / slatepack /
// armored slatepack decode to a slate with fee 0: the encodings of one slate do not decode to
// equal slates, and the binary ones do not decode to the slate that was encoded.
//
// Place in libwallet/tests/ and run with
//   cargo test --offline -j 3 -p grin_wallet_libwallet --test c08_finding3 -- --nocapture

use grin_core::core::FeeFields;
use grin_core::global;
use grin_core::ser as grin_ser;
use grin_wallet_libwallet::slate_versions::v4::SlateV4;
use grin_wallet_libwallet::slate_versions::v4_bin::SlateV4Bin;
use grin_wallet_libwallet::{
	Slate, SlateVersion, SlatepackBin, Slatepacker, SlatepackerArgs, VersionedSlate,
};
use grin_wallet_util::byte_ser;

fn packer() -> Slatepacker<'static> {
	Slatepacker::new(SlatepackerArgs {
		sender: None,
		recipients: vec![],
		dec_key: None,
	})
}

fn via_v4_json(slate: &Slate) -> Slate {
	let v = VersionedSlate::into_version(slate.clone(), SlateVersion::V4).unwrap();
	let json = serde_json::to_string(&v).unwrap();
	Slate::deserialize_upgrade(&json).unwrap()
}

fn via_v4_bin(slate: &Slate) -> Slate {
	let mut vec = vec![];
	grin_ser::serialize_default(&mut vec, &SlateV4Bin(SlateV4::from(slate))).unwrap();
	let b: SlateV4Bin = grin_ser::deserialize_default(&mut &vec[..]).unwrap();
	SlateV4::from(b).into()
}

fn via_slatepack_json(slate: &Slate) -> Slate {
	let p = packer();
	let sp = p.create_slatepack(slate).unwrap();
	let json = serde_json::to_string(&sp).unwrap();
	let sp2 = p.deser_slatepack(json.as_bytes(), true).unwrap();
	p.get_slate(&sp2).unwrap()
}

fn via_slatepack_bin(slate: &Slate) -> Slate {
	let p = packer();
	let sp = p.create_slatepack(slate).unwrap();
	let bytes = byte_ser::to_bytes(&SlatepackBin(sp)).unwrap();
	let sp2 = p.deser_slatepack(&bytes, true).unwrap();
	p.get_slate(&sp2).unwrap()
}

fn via_slatepack_armored(slate: &Slate) -> Slate {
	let p = packer();
	let sp = p.create_slatepack(slate).unwrap();
	let armored = p.armor_slatepack(&sp).unwrap();
	let sp2 = p.deser_slatepack(armored.as_bytes(), true).unwrap();
	p.get_slate(&sp2).unwrap()
}

#[test]
fn c08_fee_fields_boundary_values() {
	global::set_local_chain_type(global::ChainTypes::AutomatedTesting);
	let mut problems = vec![];
	// the boundary values of the property, as raw fee fields
	for raw in [0u64, 1, 1 << 32, 1 << 40, 5 << 40, u64::MAX].iter() {
		// FeeFields deserializes from any u64 (this is also how a slate received as JSON gets it)
		let fee: FeeFields = serde_json::from_str(&format!("\"{}\"", raw)).unwrap();
		assert_eq!(u64::from(fee), *raw);

		let mut slate = Slate::blank(2, false);
		slate.amount = 60_000_000_000;
		slate.fee_fields = fee;

		let decoded = vec![
			("V4 JSON", via_v4_json(&slate)),
			("V4 binary", via_v4_bin(&slate)),
			("slatepack JSON", via_slatepack_json(&slate)),
			("slatepack binary", via_slatepack_bin(&slate)),
			("slatepack armored", via_slatepack_armored(&slate)),
		];
		for (name, d) in decoded.iter() {
			println!(
				"fee fields {:>20} (shift {:>2}, fee {:>13}) via {:<17} -> {}",
				raw,
				fee.fee_shift(),
				fee.fee(),
				name,
				u64::from(d.fee_fields)
			);
			assert_eq!(d.id, slate.id);
			assert_eq!(d.amount, slate.amount);
			if d.fee_fields != slate.fee_fields {
				problems.push(format!(
					"fee fields {} came back as {} from {}",
					raw,
					u64::from(d.fee_fields),
					name
				));
			}
		}
	}
	assert!(
		problems.is_empty(),
		"expected every encoding to decode to a slate with the fee fields that were encoded: {:#?}",
		problems
	);
}
