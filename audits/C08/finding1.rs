// C08 finding 1: the kernel features of a slate's transaction do not survive any
// V4 encoding (JSON, binary, slatepack, armored slatepack).
//
// A payment with a height-locked kernel (kernel feature 2, one of the "supported kernel
// features" of the V4 slate) is carried out between two wallets and finalized.  The finalized
// S3 slate the sender's wallet holds contains the complete, valid transaction.  Encoding that
// slate and decoding it again - exactly what the Owner JSON-RPC does between `finalize_tx` and
// `post_tx`, and what `grin-wallet finalize` + `grin-wallet post` do with the S3 slatepack -
// yields a slate whose transaction has a *Plain* kernel with an all-zero signature.
//
// Second test, same root cause (`tx_from_slate_v4` rebuilds the kernel from the `sigs` instead
// of the encodings carrying it): the slate `get_stored_tx` returns for a finished payment has
// the final transaction but no participant data, so once it has been through the Owner
// JSON-RPC (or any other encoding) its kernel has neither excess nor signature and the
// documented `get_stored_tx` -> `post_tx` repost cannot work.
//
// Place in controller/tests/ and run with
//   cargo test --offline -j 3 -p grin_wallet_controller --test c08_finding1 -- --nocapture
#[macro_use]
extern crate log;
extern crate grin_wallet_controller as wallet;
extern crate grin_wallet_impls as impls;
extern crate grin_wallet_libwallet as libwallet;

use grin_core as core;

use self::core::core::transaction::{KernelFeatures, Weighting};
use self::libwallet::{
	InitTxArgs, Slate, SlateVersion, Slatepacker, SlatepackerArgs, VersionedSlate,
};
use impls::test_framework::{self, LocalWalletClient};
use std::sync::atomic::Ordering;
use std::thread;
use std::time::Duration;

#[macro_use]
mod common;
use common::{clean_output_dir, create_wallet_proxy, setup};

const LOCK_HEIGHT: u64 = 7;

fn packer() -> Slatepacker<'static> {
	Slatepacker::new(SlatepackerArgs {
		sender: None,
		recipients: vec![],
		dec_key: None,
	})
}

fn via_json(slate: &Slate) -> Slate {
	let v = VersionedSlate::into_version(slate.clone(), SlateVersion::V4).unwrap();
	let json = serde_json::to_string(&v).unwrap();
	Slate::deserialize_upgrade(&json).unwrap()
}

fn via_slatepack_bin(slate: &Slate) -> Slate {
	let p = packer();
	let sp = p.create_slatepack(slate).unwrap();
	let bytes = grin_wallet_util::byte_ser::to_bytes(&libwallet::SlatepackBin(sp)).unwrap();
	let sp2 = p.deser_slatepack(&bytes, true).unwrap();
	p.get_slate(&sp2).unwrap()
}

fn via_slatepack_armored(slate: &Slate) -> Slate {
	let p = packer();
	let sp = p.create_slatepack(slate).unwrap();
	let armored = p.armor_slatepack(&sp).unwrap();
	let sp2 = p.deser_slatepack(armored.as_bytes(), true).unwrap();
	p.get_slate(&sp2).unwrap()
}

fn height_locked_impl(test_dir: &'static str) -> Result<(), libwallet::Error> {
	let mut wallet_proxy = create_wallet_proxy(test_dir);
	let chain = wallet_proxy.chain.clone();
	let stopper = wallet_proxy.running.clone();

	create_wallet_and_add!(
		client1,
		wallet1,
		mask1_i,
		test_dir,
		"wallet1",
		None,
		&mut wallet_proxy,
		false
	);
	let mask1 = (&mask1_i).as_ref();
	create_wallet_and_add!(
		client2,
		wallet2,
		mask2_i,
		test_dir,
		"wallet2",
		None,
		&mut wallet_proxy,
		false
	);
	let mask2 = (&mask2_i).as_ref();

	thread::spawn(move || {
		if let Err(e) = wallet_proxy.run() {
			error!("Wallet Proxy error: {}", e);
		}
	});

	let reward = core::consensus::REWARD;
	let mut bh = 10u64;
	let _ =
		test_framework::award_blocks_to_wallet(&chain, wallet1.clone(), mask1, bh as usize, false);

	// 1. wallet1 starts a payment of 2 rewards to wallet2
	let mut slate = Slate::blank(2, false);
	wallet::controller::owner_single_use(Some(wallet1.clone()), mask1, None, |api, m| {
		let args = InitTxArgs {
			src_acct_name: None,
			amount: reward * 2,
			minimum_confirmations: 2,
			max_outputs: 500,
			num_change_outputs: 1,
			selection_strategy_is_use_all: true,
			..Default::default()
		};
		slate = api.init_send_tx(m, args)?;
		api.tx_lock_outputs(m, &slate)?;
		Ok(())
	})?;

	// 2. the payment is to use a height-locked kernel: the S1 slate that goes to the recipient
	// says "feat": 2 with its argument, as the V4 slate format provides
	let mut v = serde_json::to_value(&slate).unwrap();
	v["feat"] = serde_json::json!(2);
	v["feat_args"] = serde_json::json!({ "lock_hgt": LOCK_HEIGHT });
	slate = Slate::deserialize_upgrade(&v.to_string())?;
	assert_eq!(slate.kernel_features, 2);

	// 3. wallet2 receives
	wallet::controller::foreign_single_use(wallet2.clone(), mask2_i.clone(), |api| {
		slate = api.receive_tx(&slate, None, None)?;
		Ok(())
	})?;
	// the S2 slate travels back as a slatepack
	slate = via_slatepack_armored(&slate);

	// 4. wallet1 finalizes
	wallet::controller::owner_single_use(Some(wallet1.clone()), mask1, None, |api, m| {
		slate = api.finalize_tx(m, &slate)?;
		Ok(())
	})?;

	// the slate wallet1 now holds: S3, with the complete and valid transaction
	let held = slate.clone();
	let held_tx = held.tx_or_err()?.clone();
	let held_kernel = held_tx.kernels()[0].clone();
	println!("kernel of the held S3 slate:    {:?}", held_kernel);
	assert_eq!(
		held_kernel.features,
		KernelFeatures::HeightLocked {
			fee: held.fee_fields,
			lock_height: LOCK_HEIGHT
		}
	);
	held_tx
		.validate(Weighting::AsTransaction)
		.expect("the finalized transaction is valid");

	// 5. every encoding of that slate, decoded again
	let decoded = vec![
		("V4 JSON", via_json(&held)),
		("binary slatepack", via_slatepack_bin(&held)),
		("armored slatepack", via_slatepack_armored(&held)),
	];
	let mut problems = vec![];
	for (name, d) in decoded.iter() {
		// the slate-level fields are all there ...
		assert_eq!(d.kernel_features, 2);
		assert_eq!(
			d.kernel_features_args.as_ref().unwrap().lock_height,
			LOCK_HEIGHT
		);
		assert_eq!(d.participant_data.len(), 2);
		let k = d.tx_or_err()?.kernels()[0].clone();
		println!("kernel after {:<18}: {:?}", name, k);
		println!(
			"   validate(): {:?}",
			d.tx_or_err()?.validate(Weighting::AsTransaction)
		);
		if *d.tx_or_err()? != held_tx || k != held_kernel {
			problems.push(format!(
				"{}: kernel features {:?}, signature valid: {}",
				name,
				k.features,
				k.verify().is_ok()
			));
		}
	}

	// the held slate itself is fine: it can be posted and confirms
	wallet::controller::owner_single_use(Some(wallet1.clone()), mask1, None, |api, m| {
		api.post_tx(m, &held, false)?;
		Ok(())
	})?;
	bh += 1;
	let _ = test_framework::award_blocks_to_wallet(&chain, wallet1.clone(), mask1, 3, false);
	bh += 3;
	wallet::controller::owner_single_use(Some(wallet2.clone()), mask2, None, |api, m| {
		let (refreshed, info) = api.retrieve_summary_info(m, true, 1)?;
		assert!(refreshed);
		assert_eq!(info.last_confirmed_height, bh);
		assert_eq!(info.total, 2 * reward);
		Ok(())
	})?;

	stopper.store(false, Ordering::Relaxed);
	thread::sleep(Duration::from_millis(200));

	assert!(
		problems.is_empty(),
		"expected every encoding of the finalized S3 slate to decode to the same slate, \
		 i.e. a transaction with the kernel {:?}; instead: {:#?}",
		held_kernel.features,
		problems
	);
	Ok(())
}

#[test]
fn c08_height_locked_slate_roundtrip() {
	let test_dir = "test_output/c08_finding1";
	setup(test_dir);
	if let Err(e) = height_locked_impl(test_dir) {
		panic!("Libwallet Error: {}", e);
	}
	clean_output_dir(test_dir);
}

fn stored_tx_impl(test_dir: &'static str) -> Result<(), libwallet::Error> {
	let mut wallet_proxy = create_wallet_proxy(test_dir);
	let chain = wallet_proxy.chain.clone();
	let stopper = wallet_proxy.running.clone();

	create_wallet_and_add!(
		client1,
		wallet1,
		mask1_i,
		test_dir,
		"wallet1",
		None,
		&mut wallet_proxy,
		false
	);
	let mask1 = (&mask1_i).as_ref();
	create_wallet_and_add!(
		client2,
		wallet2,
		mask2_i,
		test_dir,
		"wallet2",
		None,
		&mut wallet_proxy,
		false
	);
	let _mask2 = (&mask2_i).as_ref();

	thread::spawn(move || {
		if let Err(e) = wallet_proxy.run() {
			error!("Wallet Proxy error: {}", e);
		}
	});

	let reward = core::consensus::REWARD;
	let _ = test_framework::award_blocks_to_wallet(&chain, wallet1.clone(), mask1, 10, false);

	// an ordinary payment wallet1 -> wallet2, finalized (not posted yet)
	let mut slate = Slate::blank(2, false);
	wallet::controller::owner_single_use(Some(wallet1.clone()), mask1, None, |api, m| {
		let args = InitTxArgs {
			src_acct_name: None,
			amount: reward * 2,
			minimum_confirmations: 2,
			max_outputs: 500,
			num_change_outputs: 1,
			selection_strategy_is_use_all: true,
			..Default::default()
		};
		slate = api.init_send_tx(m, args)?;
		api.tx_lock_outputs(m, &slate)?;
		Ok(())
	})?;
	wallet::controller::foreign_single_use(wallet2.clone(), mask2_i.clone(), |api| {
		slate = api.receive_tx(&slate, None, None)?;
		Ok(())
	})?;
	wallet::controller::owner_single_use(Some(wallet1.clone()), mask1, None, |api, m| {
		slate = api.finalize_tx(m, &slate)?;
		Ok(())
	})?;

	// the slate the wallet hands out for (re)posting the stored transaction
	let mut stored = Slate::blank(2, false);
	wallet::controller::owner_single_use(Some(wallet1.clone()), mask1, None, |api, m| {
		stored = api
			.get_stored_tx(m, None, Some(&slate.id))?
			.expect("a stored transaction");
		Ok(())
	})?;
	let stored_tx = stored.tx_or_err()?.clone();
	println!("kernel of the get_stored_tx slate: {:?}", stored_tx.kernels()[0]);
	stored_tx
		.validate(Weighting::AsTransaction)
		.expect("the stored transaction is valid");
	assert_eq!(stored_tx, *slate.tx_or_err()?);

	// what the Owner JSON-RPC client gets (get_stored_tx returns a VersionedSlate) and sends
	// back to post_tx (which takes a VersionedSlate)
	let decoded = via_json(&stored);
	let decoded_tx = decoded.tx_or_err()?.clone();
	println!("kernel after V4 JSON:              {:?}", decoded_tx.kernels()[0]);
	let validity = decoded_tx.validate(Weighting::AsTransaction);
	println!("   validate(): {:?}", validity);
	let via_bin = via_slatepack_bin(&stored);
	println!(
		"kernel after binary slatepack:     {:?}",
		via_bin.tx_or_err()?.kernels()[0]
	);

	// the slate as held posts fine
	wallet::controller::owner_single_use(Some(wallet1.clone()), mask1, None, |api, m| {
		api.post_tx(m, &stored, false)?;
		Ok(())
	})?;

	stopper.store(false, Ordering::Relaxed);
	thread::sleep(Duration::from_millis(200));

	assert!(
		decoded_tx == stored_tx && decoded_tx.kernels()[0] == stored_tx.kernels()[0],
		"expected the V4 JSON encoding of the slate returned by get_stored_tx to decode to the \
		 same slate, i.e. the same (valid) transaction with kernel {:?}; the decoded slate's \
		 transaction has kernel {:?} (validate(): {:?})",
		stored_tx.kernels()[0],
		decoded_tx.kernels()[0],
		validity
	);
	Ok(())
}

#[test]
fn c08_stored_tx_slate_roundtrip() {
	let test_dir = "test_output/c08_finding1_stored";
	setup(test_dir);
	if let Err(e) = stored_tx_impl(test_dir) {
		panic!("Libwallet Error: {}", e);
	}
	clean_output_dir(test_dir);
}
