// C08 finding 2: a slate with many commitments cannot be decoded from the slatepack it was
// encoded into.
//
// `Slatepacker::deser_slatepack` (and `PathToSlatepack`) refuse any input longer than
// `max_tx_weight() * 32 + framing` bytes, on the assumption that a weight unit is ~32 bytes.
// An output weighs 21 units but takes 1 + 1 + 33 + 8 + 675 = 718 bytes in the binary slate
// (34 bytes/unit) and ~1045 characters in the armored slatepack (50 characters/unit).  A valid
// transaction that consists mostly of outputs (e.g. a payment with several change outputs)
// therefore produces a slatepack message that `create_slatepack_message` happily writes and
// `slate_from_slatepack_message` refuses to read: "Data invalid length".
//
// Place in controller/tests/ and run with
//   cargo test --offline -j 3 -p grin_wallet_controller --test c08_finding2 -- --nocapture
#[macro_use]
extern crate log;
extern crate grin_wallet_controller as wallet;
extern crate grin_wallet_impls as impls;
extern crate grin_wallet_libwallet as libwallet;

use grin_core as core;
use grin_util as util;

use self::core::core::transaction::{Input, Output, OutputFeatures, Weighting};
use self::core::global;
use self::libwallet::{
	InitTxArgs, IssueInvoiceTxArgs, Slate, SlateState, Slatepacker, SlatepackerArgs,
};
use self::util::secp::pedersen::{Commitment, RangeProof};
use impls::test_framework::{self, LocalWalletClient};
use std::sync::atomic::Ordering;
use std::thread;
use std::time::Duration;

#[macro_use]
mod common;
use common::{clean_output_dir, create_wallet_proxy, setup};

fn many_change_outputs_impl(test_dir: &'static str) -> Result<(), libwallet::Error> {
	let mut wallet_proxy = create_wallet_proxy(test_dir);
	let chain = wallet_proxy.chain.clone();
	let stopper = wallet_proxy.running.clone();

	create_wallet_and_add!(
		client1,
		wallet1,
		mask1_i,
		test_dir,
		"wallet1",
		None,
		&mut wallet_proxy,
		false
	);
	let mask1 = (&mask1_i).as_ref();
	create_wallet_and_add!(
		client2,
		wallet2,
		mask2_i,
		test_dir,
		"wallet2",
		None,
		&mut wallet_proxy,
		false
	);
	let mask2 = (&mask2_i).as_ref();

	thread::spawn(move || {
		if let Err(e) = wallet_proxy.run() {
			error!("Wallet Proxy error: {}", e);
		}
	});

	let reward = core::consensus::REWARD;
	let mut bh = 10u64;
	let _ =
		test_framework::award_blocks_to_wallet(&chain, wallet1.clone(), mask1, bh as usize, false);

	// 1. wallet2 issues an invoice
	let mut slate = Slate::blank(2, true);
	wallet::controller::owner_single_use(Some(wallet2.clone()), mask2, None, |api, m| {
		let args = IssueInvoiceTxArgs {
			amount: reward,
			..Default::default()
		};
		slate = api.issue_invoice_tx(m, args)?;
		// I1 travels as a slatepack message
		let msg = api.create_slatepack_message(m, &slate, None, vec![])?;
		slate = api.slate_from_slatepack_message(m, msg, vec![])?;
		Ok(())
	})?;

	// 2. wallet1 pays it, splitting its change into 8 outputs, and packs the I2 slate
	let mut message = String::new();
	wallet::controller::owner_single_use(Some(wallet1.clone()), mask1, None, |api, m| {
		let args = InitTxArgs {
			src_acct_name: None,
			amount: slate.amount,
			minimum_confirmations: 2,
			max_outputs: 500,
			num_change_outputs: 8,
			selection_strategy_is_use_all: true,
			..Default::default()
		};
		slate = api.process_invoice_tx(m, &slate, args)?;
		api.tx_lock_outputs(m, &slate)?;
		message = api.create_slatepack_message(m, &slate, None, vec![])?;
		Ok(())
	})?;
	assert_eq!(slate.state, SlateState::Invoice2);
	let i2 = slate.clone();
	let n_in = i2.tx_or_err()?.inputs().len();
	let n_out = i2.tx_or_err()?.outputs().len();
	println!(
		"I2 slate: {} inputs, {} outputs; armored slatepack message: {} bytes; \
		 max_tx_weight {} -> slatepack::max_size() {} bytes",
		n_in,
		n_out,
		message.len(),
		global::max_tx_weight(),
		libwallet::slatepack::max_size(),
	);

	// 3. wallet2 decodes the message it was sent
	let mut decoded: Result<Slate, libwallet::Error> = Ok(Slate::blank(2, true));
	wallet::controller::owner_single_use(Some(wallet2.clone()), mask2, None, |api, m| {
		decoded = api.slate_from_slatepack_message(m, message.clone(), vec![]);
		Ok(())
	})?;
	println!(
		"slate_from_slatepack_message: {:?}",
		decoded.as_ref().map(|s| s.id)
	);

	// the slate itself is perfectly good: handed over as an object, wallet2 finalizes it into a
	// transaction that is valid (also by weight), posts and confirms
	wallet::controller::foreign_single_use(wallet2.clone(), mask2_i.clone(), |api| {
		slate = api.finalize_tx(&i2, false)?;
		Ok(())
	})?;
	let tx = slate.tx_or_err()?.clone();
	println!(
		"final tx: {} inputs, {} outputs, weight {} (max {})",
		tx.inputs().len(),
		tx.outputs().len(),
		tx.weight(),
		global::max_tx_weight()
	);
	tx.validate(Weighting::AsTransaction)
		.expect("the finalized transaction is valid");
	wallet::controller::owner_single_use(Some(wallet1.clone()), mask1, None, |api, m| {
		api.post_tx(m, &slate, false)?;
		Ok(())
	})?;
	bh += 1;
	let _ = test_framework::award_blocks_to_wallet(&chain, wallet1.clone(), mask1, 3, false);
	bh += 3;
	wallet::controller::owner_single_use(Some(wallet2.clone()), mask2, None, |api, m| {
		let (refreshed, info) = api.retrieve_summary_info(m, true, 1)?;
		assert!(refreshed);
		assert_eq!(info.last_confirmed_height, bh);
		assert_eq!(info.total, reward);
		Ok(())
	})?;

	stopper.store(false, Ordering::Relaxed);
	thread::sleep(Duration::from_millis(200));

	match decoded {
		Ok(d) => {
			assert_eq!(d.id, i2.id);
			assert_eq!(d.tx_or_err()?, i2.tx_or_err()?);
		}
		Err(e) => panic!(
			"expected the armored slatepack of the I2 slate ({} inputs, {} outputs, {} bytes) to \
			 decode to the same slate; slate_from_slatepack_message returned: {}",
			n_in,
			n_out,
			message.len(),
			e
		),
	}
	Ok(())
}

#[test]
fn c08_many_change_outputs_slatepack() {
	let test_dir = "test_output/c08_finding2";
	setup(test_dir);
	if let Err(e) = many_change_outputs_impl(test_dir) {
		panic!("Libwallet Error: {}", e);
	}
	clean_output_dir(test_dir);
}

/// The same limit with mainnet parameters: a slate with 1 input and 1800 outputs (weight
/// 37804 of the 39976 a transaction may have) does not even fit as a *binary* slatepack.
/// (Armored, the limit is reached at about 1220 outputs; not exercised here only because the
/// base58 encoder needs very long for a megabyte of input in a debug build.)
#[test]
fn c08_mainnet_sized_slate_slatepack() {
	global::set_local_chain_type(global::ChainTypes::Mainnet);
	let n_outputs = 1800usize;
	let mut slate = Slate::blank(2, false);
	slate.state = SlateState::Standard3;
	let mut tx = Slate::empty_transaction();
	let mut c = [0u8; 33];
	c[0] = 8;
	let mut proof = RangeProof::zero();
	proof.plen = 675; // secp::constants::SINGLE_BULLET_PROOF_SIZE
	for b in proof.proof[..675].iter_mut() {
		*b = 0x5a;
	}
	let mut outputs = vec![];
	for i in 0..n_outputs {
		c[1] = (i >> 8) as u8;
		c[2] = (i & 0xff) as u8;
		outputs.push(Output::new(
			OutputFeatures::Plain,
			Commitment::from_vec(c.to_vec()),
			proof,
		));
	}
	c[0] = 9;
	let inputs = vec![Input::new(
		OutputFeatures::Plain,
		Commitment::from_vec(c.to_vec()),
	)];
	tx.body = tx
		.body
		.replace_inputs(inputs.as_slice().into())
		.replace_outputs(outputs.as_slice());
	let weight = tx.weight();
	assert!(
		weight <= global::max_tx_weight(),
		"the transaction is within the weight limit"
	);
	slate.tx = Some(tx);

	let packer = Slatepacker::new(SlatepackerArgs {
		sender: None,
		recipients: vec![],
		dec_key: None,
	});
	let sp = packer.create_slatepack(&slate).unwrap();
	let bin = grin_wallet_util::byte_ser::to_bytes(&libwallet::SlatepackBin(sp.clone())).unwrap();
	println!(
		"mainnet: tx weight {} of {}; binary slatepack {} bytes, max_size {}",
		weight,
		global::max_tx_weight(),
		bin.len(),
		libwallet::slatepack::max_size()
	);
	let from_bin = packer
		.deser_slatepack(&bin, true)
		.and_then(|sp| packer.get_slate(&sp));
	println!(
		"from binary: {:?}",
		from_bin
			.as_ref()
			.map(|s| s.tx.as_ref().unwrap().outputs().len())
	);
	let from_bin = from_bin.unwrap_or_else(|e| {
		panic!(
			"expected the binary slatepack ({} bytes) of a slate whose transaction weighs {} \
			 (max {}) to decode to the same slate; deser_slatepack returned: {}",
			bin.len(),
			weight,
			global::max_tx_weight(),
			e
		)
	});
	assert_eq!(from_bin.tx.as_ref().unwrap().outputs().len(), n_outputs);
}
