// C08 - further, smaller round-trip discrepancies (see "Other observations" in findings.md).
// Not separate findings (cap of three); each test fails on the current code.
// Place in libwallet/tests/c08_scratch.rs and run with
//   cargo test --offline -j 3 -p grin_wallet_libwallet --test c08_scratch -- --nocapture --test-threads 1
// (fee_shift_only and kernel_feat are minimal unit forms of finding 3 and finding 1.)
use grin_core::core::FeeFields;
use grin_core::global;
use grin_core::ser as grin_ser;
use grin_keychain::{ExtKeychain, Keychain};
use grin_wallet_libwallet::slate_versions::v4::SlateV4;
use grin_wallet_libwallet::slate_versions::v4_bin::SlateV4Bin;
use grin_wallet_libwallet::{Slate, TxLogEntry, TxLogEntryType};
use grin_wallet_util::OnionV3Address;
use std::convert::TryFrom;
use std::time::Duration;

fn bin_roundtrip(v4: &SlateV4) -> SlateV4 {
	let mut vec = vec![];
	grin_ser::serialize_default(&mut vec, &SlateV4Bin(v4.clone())).unwrap();
	let b: SlateV4Bin = grin_ser::deserialize_default(&mut &vec[..]).unwrap();
	b.0
}

fn json_roundtrip(v4: &SlateV4) -> SlateV4 {
	let s = serde_json::to_string(v4).unwrap();
	serde_json::from_str(&s).unwrap()
}

#[test]
fn fee_shift_only() {
	global::set_local_chain_type(global::ChainTypes::AutomatedTesting);
	let mut slate = Slate::blank(2, false);
	slate.fee_fields = serde_json::from_str::<FeeFields>("\"1099511627776\"").unwrap();
	let v4 = SlateV4::from(&slate);
	let j = json_roundtrip(&v4);
	let b = bin_roundtrip(&v4);
	println!("json fee {:?} bin fee {:?}", j.fee, b.fee);
	assert_eq!(j.fee, v4.fee);
	assert_eq!(b.fee, v4.fee);
}

#[test]
fn kernel_feat() {
	global::set_local_chain_type(global::ChainTypes::AutomatedTesting);
	let mut slate = Slate::blank(2, false);
	slate.fee_fields = FeeFields::new(0, 1000).unwrap();
	slate.kernel_features = 2;
	slate.kernel_features_args = Some(Default::default());
	slate.kernel_features_args.as_mut().unwrap().lock_height = 77;
	slate.update_kernel().unwrap();
	let before = slate.tx.as_ref().unwrap().kernels()[0].features;
	let v4 = SlateV4::from(&slate);
	let j: Slate = json_roundtrip(&v4).into();
	let after = j.tx.as_ref().unwrap().kernels()[0].features;
	println!("{:?} -> {:?}", before, after);
	assert_eq!(before, after);
}

#[test]
fn reverted_after() {
	let kc = ExtKeychain::from_random_seed(true).unwrap();
	let _ = kc;
	let id = ExtKeychain::derive_key_id(2, 0, 0, 0, 0);
	let mut t = TxLogEntry::new(id, TxLogEntryType::TxReverted, 1);
	t.reverted_after = Some(Duration::from_millis(1500));
	let mut vec = vec![];
	grin_ser::serialize_default(&mut vec, &t).unwrap();
	let t2: TxLogEntry = grin_ser::deserialize_default(&mut &vec[..]).unwrap();
	assert_eq!(t.reverted_after, t2.reverted_after);
}

#[test]
fn onion_hexlike() {
	// search for a key whose onion address is made of hex digits only
	let allowed: Vec<u8> = vec![0, 1, 2, 3, 4, 5, 26, 27, 28, 29, 30, 31];
	let mut n: u64 = 0;
	loop {
		// 51 groups of 5 bits + 1 bit
		let mut bits: Vec<u8> = vec![];
		let mut x = n;
		for g in 0..51 {
			let v = if g < 16 {
				let r = allowed[(x % 12) as usize];
				x /= 12;
				r
			} else {
				0
			};
			for i in (0..5).rev() {
				bits.push((v >> i) & 1);
			}
		}
		bits.push(0);
		let mut bytes = [0u8; 32];
		for (i, b) in bits.iter().enumerate() {
			bytes[i / 8] |= b << (7 - (i % 8));
		}
		let addr = OnionV3Address::from_bytes(bytes);
		let s = addr.to_string();
		if s.chars().all(|c| c.is_ascii_hexdigit()) {
			println!("found after {}: {}", n, s);
			let back = OnionV3Address::try_from(s.as_str());
			println!("{:?}", back);
			assert_eq!(back, Ok(addr));
			break;
		}
		n += 1;
		if n > 10_000_000 {
			panic!("none found");
		}
	}
}

#[test]
fn feat_args_disagree() {
	global::set_local_chain_type(global::ChainTypes::AutomatedTesting);
	let mut slate = Slate::blank(2, false);
	slate.kernel_features = 0;
	slate.kernel_features_args = Some(Default::default());
	slate.kernel_features_args.as_mut().unwrap().lock_height = 5;
	let v4 = SlateV4::from(&slate);
	let j = json_roundtrip(&v4);
	let b = bin_roundtrip(&v4);
	println!("feat 0 + args: json {:?} bin {:?}", j.feat_args, b.feat_args);
	let mut slate = Slate::blank(2, false);
	slate.kernel_features = 2;
	let v4 = SlateV4::from(&slate);
	let j2 = json_roundtrip(&v4);
	let b2 = bin_roundtrip(&v4);
	println!("feat 2 no args: json {:?} bin {:?}", j2.feat_args, b2.feat_args);
	assert_eq!(j.feat_args, b.feat_args);
	assert_eq!(j2.feat_args, b2.feat_args);
}

#[test]
fn many_participants() {
	use grin_util::secp::key::{PublicKey, SecretKey};
	use grin_wallet_libwallet::ParticipantData;
	global::set_local_chain_type(global::ChainTypes::AutomatedTesting);
	let kc = ExtKeychain::from_random_seed(true).unwrap();
	let sk = SecretKey::from_slice(kc.secp(), &[7u8; 32]).unwrap();
	let pk = PublicKey::from_secret_key(kc.secp(), &sk).unwrap();
	let mut slate = Slate::blank(255, false);
	for _ in 0..256 {
		slate.participant_data.push(ParticipantData {
			public_blind_excess: pk,
			public_nonce: pk,
			part_sig: None,
		});
	}
	let v4 = SlateV4::from(&slate);
	let j = json_roundtrip(&v4);
	assert_eq!(j.sigs.len(), 256);
	let mut vec = vec![];
	grin_ser::serialize_default(&mut vec, &SlateV4Bin(v4.clone())).unwrap();
	let b: Result<SlateV4Bin, _> = grin_ser::deserialize_default(&mut &vec[..]);
	println!("{:?}", b.as_ref().map(|b| b.0.sigs.len()));
	assert_eq!(b.unwrap().0.sigs.len(), 256);
}
