// Additional observation (property C03, "Reserved outputs are exclusive").
//
// `create_mwixnet_req` builds (and, with `lock_output`, "reserves") a mixnet swap request - a
// spend - for any output of the active account that is not recorded as spent, without looking at
// its status: an output that is already reserved (Locked) for a pending transaction is accepted,
// so the pending transaction and the swap request spend the same output.
//
// Place in controller/tests/extra_mwixnet.rs, run with
//   cargo test --offline -j 2 -p grin_wallet_controller --test extra_mwixnet -- --nocapture

#[macro_use]
extern crate log;
extern crate grin_wallet_controller as wallet;
extern crate grin_wallet_impls as impls;
extern crate grin_wallet_libwallet as libwallet;

use grin_core as core;
use grin_util as util;
use grin_util::secp::key::SecretKey;

use impls::test_framework::{self, LocalWalletClient};
use libwallet::{mwixnet::MixnetReqCreationParams, InitTxArgs, OutputStatus};
use std::sync::atomic::Ordering;
use std::thread;
use std::time::Duration;

#[macro_use]
mod common;
use common::{clean_output_dir, create_wallet_proxy, setup};

fn mwixnet_req_for_reserved_output_impl(test_dir: &'static str) -> Result<(), libwallet::Error> {
	let mut wallet_proxy = create_wallet_proxy(test_dir);
	let chain = wallet_proxy.chain.clone();
	let stopper = wallet_proxy.running.clone();

	create_wallet_and_add!(
		client1,
		wallet1,
		mask1_i,
		test_dir,
		"wallet1",
		None,
		&mut wallet_proxy,
		false
	);
	let mask1 = (&mask1_i).as_ref();
	let _ = &client1;

	thread::spawn(move || {
		if let Err(e) = wallet_proxy.run() {
			error!("Wallet Proxy error: {}", e);
		}
	});

	let reward = core::consensus::REWARD;
	test_framework::award_blocks_to_wallet(&chain, wallet1.clone(), mask1, 6, false)?;

	let mut res = None;
	let mut slate_id = None;
	wallet::controller::owner_single_use(Some(wallet1.clone()), mask1, None, |api, m| {
		// a pending send reserves one output
		let args = InitTxArgs {
			src_acct_name: None,
			amount: reward / 2,
			minimum_confirmations: 2,
			max_outputs: 500,
			num_change_outputs: 1,
			selection_strategy_is_use_all: false,
			..Default::default()
		};
		let slate = api.init_send_tx(m, args)?;
		api.tx_lock_outputs(m, &slate)?;
		slate_id = Some(slate.id);

		let (_, outputs) = api.retrieve_outputs(m, false, true, None)?;
		let reserved = outputs
			.iter()
			.find(|o| o.output.status == OutputStatus::Locked)
			.expect("the pending send has reserved an output")
			.clone();
		println!(
			"output reserved for pending tx {}: key {} value {} status {}",
			slate.id, reserved.output.key_id, reserved.output.value, reserved.output.status
		);

		let secp_locked = util::static_secp_instance();
		let secp = secp_locked.lock();
		let keys: Vec<SecretKey> = [
			"97444ae673bb92c713c1a2f7b8882ffbfc1c67401a280a775dce1a8651584332",
			"0c9414341f2140ed34a5a12a6479bf5a6404820d001ab81d9d3e8cc38f049b4e",
		]
		.iter()
		.map(|k| SecretKey::from_slice(&secp, &grin_util::from_hex(k).unwrap()).unwrap())
		.collect();
		let params = MixnetReqCreationParams {
			server_keys: keys,
			fee_per_hop: 50_000_000,
		};
		// a swap request (a spend) for that same, reserved output
		res = Some(api.create_mwixnet_req(m, &params, &reserved.commit, true));
		Ok(())
	})?;
	let res = res.unwrap();
	println!(
		"create_mwixnet_req for the reserved output: {}",
		match &res {
			Ok(_) => "ACCEPTED (swap request built)".to_owned(),
			Err(e) => format!("refused ({})", e),
		}
	);
	assert!(
		res.is_err(),
		"expected a mixnet swap request for an output that is reserved for pending transaction {} \
		 to be refused, but a request spending it was built",
		slate_id.unwrap()
	);

	stopper.store(false, Ordering::Relaxed);
	thread::sleep(Duration::from_millis(200));
	Ok(())
}

#[test]
fn mwixnet_req_for_reserved_output() {
	let test_dir = "test_output/extra_mwixnet_reserved_output";
	setup(test_dir);
	if let Err(e) = mwixnet_req_for_reserved_output_impl(test_dir) {
		panic!("Libwallet Error: {}", e);
	}
	clean_output_dir(test_dir);
}
