// Finding 1 (property C03: "Repeating a protocol step with the same slate (reserve, receive,
// finalize) is refused or has no further effect: it never adds a second log entry, output or
// reservation").
//
// A slate that the recipient wallet has already received is accepted a second time when the
// second delivery lands in another account of that wallet (either because the delivery names a
// `dest_acct_name`, or because the active account was switched between the two deliveries):
// `foreign::receive_tx` only looks for an earlier `TxReceived` entry of the slate in the account
// the delivery is booked to. The wallet ends up with two received entries and two outputs for one
// payment, only one of which can ever be confirmed.
//
// Place in controller/tests/finding1.rs, run with
//   cargo test --offline -j 2 -p grin_wallet_controller --test finding1 -- --nocapture

#[macro_use]
extern crate log;
extern crate grin_wallet_controller as wallet;
extern crate grin_wallet_impls as impls;
extern crate grin_wallet_libwallet as libwallet;

use self::libwallet::{InitTxArgs, OutputStatus, Slate, TxLogEntryType};
use impls::test_framework::{self, LocalWalletClient};
use std::sync::atomic::Ordering;
use std::thread;
use std::time::Duration;

#[macro_use]
mod common;
use common::{clean_output_dir, create_wallet_proxy, setup};

fn duplicate_receive_other_account_impl(test_dir: &'static str) -> Result<(), libwallet::Error> {
	let mut wallet_proxy = create_wallet_proxy(test_dir);
	let chain = wallet_proxy.chain.clone();
	let stopper = wallet_proxy.running.clone();

	create_wallet_and_add!(
		client1,
		wallet1,
		mask1_i,
		test_dir,
		"wallet1",
		None,
		&mut wallet_proxy,
		false
	);
	let mask1 = (&mask1_i).as_ref();
	create_wallet_and_add!(
		client2,
		wallet2,
		mask2_i,
		test_dir,
		"wallet2",
		None,
		&mut wallet_proxy,
		false
	);
	let mask2 = (&mask2_i).as_ref();
	let _ = (&client1, &client2);

	thread::spawn(move || {
		if let Err(e) = wallet_proxy.run() {
			error!("Wallet Proxy error: {}", e);
		}
	});

	// the recipient has a second account
	wallet::controller::owner_single_use(Some(wallet2.clone()), mask2, None, |api, m| {
		api.create_account_path(m, "savings")?;
		Ok(())
	})?;

	test_framework::award_blocks_to_wallet(&chain, wallet1.clone(), mask1, 6, false)?;

	// the sender initiates one payment
	let amount = 10_000_000_000;
	let mut slate_1 = Slate::blank(2, false);
	wallet::controller::owner_single_use(Some(wallet1.clone()), mask1, None, |api, m| {
		let args = InitTxArgs {
			src_acct_name: None,
			amount,
			minimum_confirmations: 2,
			max_outputs: 500,
			num_change_outputs: 1,
			selection_strategy_is_use_all: false,
			..Default::default()
		};
		slate_1 = api.init_send_tx(m, args)?;
		api.tx_lock_outputs(m, &slate_1)?;
		Ok(())
	})?;

	// first delivery: booked to the active ("default") account
	let mut first = None;
	wallet::controller::foreign_single_use(wallet2.clone(), mask2_i.clone(), |api| {
		first = Some(api.receive_tx(&slate_1, None, None));
		Ok(())
	})?;
	assert!(
		first.unwrap().is_ok(),
		"the first delivery of the slate must be accepted"
	);

	// the same delivery again, same account: refused (this part works)
	let mut again = None;
	wallet::controller::foreign_single_use(wallet2.clone(), mask2_i.clone(), |api| {
		again = Some(api.receive_tx(&slate_1, None, None));
		Ok(())
	})?;
	assert!(
		again.unwrap().is_err(),
		"a second delivery of the same slate to the same account must be refused"
	);

	// the same slate delivered once more, this time naming the wallet's other account
	let mut dup_named = None;
	wallet::controller::foreign_single_use(wallet2.clone(), mask2_i.clone(), |api| {
		dup_named = Some(api.receive_tx(&slate_1, Some("savings"), None));
		Ok(())
	})?;
	let dup_named = dup_named.unwrap();
	println!(
		"duplicate delivery naming dest_acct_name 'savings': {}",
		match &dup_named {
			Ok(_) => "ACCEPTED".to_owned(),
			Err(e) => format!("refused ({})", e),
		}
	);

	// what the recipient wallet now holds for this one slate, over all its accounts
	let (entries, outputs) = {
		wallet_inst!(wallet2, w);
		let entries: Vec<_> = w
			.tx_log_iter()
			.filter(|t| t.tx_slate_id == Some(slate_1.id))
			.collect();
		let outputs: Vec<_> = w
			.iter()
			.filter(|o| o.status != OutputStatus::Spent)
			.collect();
		(entries, outputs)
	};
	for t in &entries {
		println!(
			"wallet2 log entry: account {} id {} type {:?} credited {}",
			t.parent_key_id, t.id, t.tx_type, t.amount_credited
		);
	}
	for o in &outputs {
		println!(
			"wallet2 output: account {} key {} value {} status {}",
			o.root_key_id, o.key_id, o.value, o.status
		);
	}

	let n_received = entries
		.iter()
		.filter(|t| t.tx_type == TxLogEntryType::TxReceived)
		.count();
	assert_eq!(
		n_received, 1,
		"expected exactly one received log entry for slate {} in the recipient wallet (a repeated \
		 delivery of the same slate must be refused or have no effect), found {}",
		slate_1.id, n_received
	);
	assert_eq!(
		outputs.len(),
		1,
		"expected exactly one output for the one payment in the recipient wallet, found {}",
		outputs.len()
	);
	assert!(
		dup_named.is_err(),
		"expected the repeated delivery of an already received slate to be refused"
	);

	stopper.store(false, Ordering::Relaxed);
	thread::sleep(Duration::from_millis(200));
	Ok(())
}

#[test]
fn duplicate_receive_other_account() {
	let test_dir = "test_output/finding1_duplicate_receive_other_account";
	setup(test_dir);
	if let Err(e) = duplicate_receive_other_account_impl(test_dir) {
		panic!("Libwallet Error: {}", e);
	}
	clean_output_dir(test_dir);
}
