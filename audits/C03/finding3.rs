// Finding 3 (property C03: "Repeating a protocol step with the same slate (reserve, receive,
// finalize) is refused or has no further effect: it never adds a second log entry, output or
// reservation").
//
// A wallet pays an invoice it issued itself (self-send), reserves the inputs and finalizes; the
// finalization deletes the stored context of the slate. When the same invoice slate is then
// processed again with another source account (`src_acct_name`, or after the active account was
// switched), `process_invoice_tx` no longer recognises it: its "don't do this multiple times"
// check only looks at the sent entries of the account now paying, and the context that makes it
// refuse a second processing is gone. A new input selection is made and stored, and the following
// `tx_lock_outputs` (whose own duplicate check is per account as well) reserves outputs of the
// second account and adds a second sent entry for a slate that has already been paid.
//
// Place in controller/tests/finding3.rs, run with
//   cargo test --offline -j 2 -p grin_wallet_controller --test finding3 -- --nocapture

#[macro_use]
extern crate log;
extern crate grin_wallet_controller as wallet;
extern crate grin_wallet_impls as impls;
extern crate grin_wallet_libwallet as libwallet;

use grin_core as core;

use self::libwallet::{InitTxArgs, IssueInvoiceTxArgs, OutputStatus, Slate, TxLogEntryType};
use impls::test_framework::{self, LocalWalletClient};
use std::sync::atomic::Ordering;
use std::thread;
use std::time::Duration;

#[macro_use]
mod common;
use common::{clean_output_dir, create_wallet_proxy, setup};

fn self_invoice_replayed_from_other_account_impl(
	test_dir: &'static str,
) -> Result<(), libwallet::Error> {
	let mut wallet_proxy = create_wallet_proxy(test_dir);
	let chain = wallet_proxy.chain.clone();
	let stopper = wallet_proxy.running.clone();

	create_wallet_and_add!(
		client1,
		wallet1,
		mask1_i,
		test_dir,
		"wallet1",
		None,
		&mut wallet_proxy,
		false
	);
	let mask1 = (&mask1_i).as_ref();
	let _ = &client1;

	thread::spawn(move || {
		if let Err(e) = wallet_proxy.run() {
			error!("Wallet Proxy error: {}", e);
		}
	});

	let reward = core::consensus::REWARD;

	wallet::controller::owner_single_use(Some(wallet1.clone()), mask1, None, |api, m| {
		api.create_account_path(m, "second")?;
		Ok(())
	})?;

	// funds in both accounts
	{
		wallet_inst!(wallet1, w);
		w.set_parent_key_id_by_name("second")?;
	}
	test_framework::award_blocks_to_wallet(&chain, wallet1.clone(), mask1, 5, false)?;
	{
		wallet_inst!(wallet1, w);
		w.set_parent_key_id_by_name("default")?;
	}
	test_framework::award_blocks_to_wallet(&chain, wallet1.clone(), mask1, 5, false)?;

	let pay_args = |src: Option<&str>, amount: u64| InitTxArgs {
		src_acct_name: src.map(|s| s.to_owned()),
		amount,
		minimum_confirmations: 2,
		max_outputs: 500,
		num_change_outputs: 1,
		selection_strategy_is_use_all: false,
		..Default::default()
	};

	// the wallet issues an invoice and pays it itself from the default account
	let mut invoice = Slate::blank(2, true);
	let mut slate = Slate::blank(2, true);
	wallet::controller::owner_single_use(Some(wallet1.clone()), mask1, None, |api, m| {
		let args = IssueInvoiceTxArgs {
			amount: reward,
			..Default::default()
		};
		invoice = api.issue_invoice_tx(m, args)?;
		slate = api.process_invoice_tx(m, &invoice, pay_args(None, invoice.amount))?;
		api.tx_lock_outputs(m, &slate)?;
		Ok(())
	})?;
	wallet::controller::foreign_single_use(wallet1.clone(), mask1_i.clone(), |api| {
		slate = api.finalize_tx(&slate, false)?;
		Ok(())
	})?;
	wallet::controller::owner_single_use(Some(wallet1.clone()), mask1, None, |api, m| {
		api.post_tx(m, &slate, false)?;
		Ok(())
	})?;
	test_framework::award_blocks_to_wallet(&chain, wallet1.clone(), mask1, 3, false)?;
	wallet::controller::owner_single_use(Some(wallet1.clone()), mask1, None, |api, m| {
		let (_, txs) = api.retrieve_txs(m, true, None, Some(invoice.id), None)?;
		assert!(txs.iter().all(|t| t.confirmed), "the invoice is paid");
		Ok(())
	})?;

	// the same invoice slate is processed once more, from the same account: refused (works)
	wallet::controller::owner_single_use(Some(wallet1.clone()), mask1, None, |api, m| {
		let r = api.process_invoice_tx(m, &invoice, pay_args(None, invoice.amount));
		assert!(r.is_err(), "same account: a repeat is refused");
		Ok(())
	})?;

	// ... and once more, naming the other account as the source
	let mut replay = None;
	let mut relock = None;
	wallet::controller::owner_single_use(Some(wallet1.clone()), mask1, None, |api, m| {
		let r = api.process_invoice_tx(m, &invoice, pay_args(Some("second"), invoice.amount));
		println!(
			"process_invoice_tx of the already paid invoice with src_acct_name 'second': {}",
			match &r {
				Ok(_) => "ACCEPTED".to_owned(),
				Err(e) => format!("refused ({})", e),
			}
		);
		if let Ok(ref s) = r {
			let l = api.tx_lock_outputs(m, s);
			println!(
				"tx_lock_outputs of that reply: {}",
				match &l {
					Ok(_) => "ACCEPTED".to_owned(),
					Err(e) => format!("refused ({})", e),
				}
			);
			relock = Some(l.is_ok());
		}
		replay = Some(r.is_ok());
		Ok(())
	})?;

	let (entries, locked) = {
		wallet_inst!(wallet1, w);
		let entries: Vec<_> = w
			.tx_log_iter()
			.filter(|t| t.tx_slate_id == Some(invoice.id))
			.collect();
		let locked: Vec<_> = w
			.iter()
			.filter(|o| o.status == OutputStatus::Locked)
			.collect();
		(entries, locked)
	};
	for t in &entries {
		println!(
			"log entry: account {} id {} type {:?} confirmed {} debited {} credited {}",
			t.parent_key_id, t.id, t.tx_type, t.confirmed, t.amount_debited, t.amount_credited
		);
	}
	for o in &locked {
		println!(
			"reserved output: account {} key {} value {} (log entry {:?})",
			o.root_key_id, o.key_id, o.value, o.tx_log_entry
		);
	}

	let n_sent = entries
		.iter()
		.filter(|t| t.tx_type == TxLogEntryType::TxSent)
		.count();
	assert_eq!(
		n_sent, 1,
		"expected exactly one sent log entry for invoice slate {} (processing and reserving an \
		 already paid invoice again must be refused or have no effect), found {}",
		invoice.id, n_sent
	);
	assert!(
		locked.is_empty(),
		"expected no output to be reserved for the already paid and confirmed invoice {}, found {}",
		invoice.id,
		locked.len()
	);
	assert_eq!(replay, Some(false));
	assert_eq!(relock, None);

	stopper.store(false, Ordering::Relaxed);
	thread::sleep(Duration::from_millis(200));
	Ok(())
}

#[test]
fn self_invoice_replayed_from_other_account() {
	let test_dir = "test_output/finding3_self_invoice_replayed";
	setup(test_dir);
	if let Err(e) = self_invoice_replayed_from_other_account_impl(test_dir) {
		panic!("Libwallet Error: {}", e);
	}
	clean_output_dir(test_dir);
}
