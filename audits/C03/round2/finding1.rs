// Finding 1: an invoice this wallet pays itself can be finalized although the inputs of its
// paying half are not reserved (never reserved, or reserved and released again by cancelling the
// sent entry). The finalized transaction stays live in the wallet while a later send selects and
// reserves the very same outputs: the wallet then holds two live transactions that spend the same
// outputs.
//
// Copy to controller/tests/c03_finding1.rs and run (from the repository root) with
//   cargo test --offline -j 2 -p grin_wallet_controller --test c03_finding1 -- --nocapture
#[macro_use]
extern crate log;
extern crate grin_wallet_controller as wallet;
extern crate grin_wallet_impls as impls;

use grin_core as core;
use grin_core::core::transaction::CommitWrapper;
use grin_util::secp::pedersen::Commitment;
use grin_wallet_libwallet as libwallet;

use impls::test_framework::{self, LocalWalletClient};
use libwallet::{InitTxArgs, IssueInvoiceTxArgs, Slate, TxLogEntryType};
use std::sync::atomic::Ordering;
use std::thread;
use std::time::Duration;

#[macro_use]
mod common;
use common::{clean_output_dir, create_wallet_proxy, setup};

fn input_commits(slate: &Slate) -> Vec<Commitment> {
	let v: Vec<CommitWrapper> = slate.tx.as_ref().expect("finalized tx").inputs().into();
	v.iter().map(|c| c.commitment()).collect()
}

/// `cancel_sent_half`: false - the paying half is never reserved (tx_lock_outputs is skipped);
/// true - it is reserved, and its sent entry is cancelled again before the invoice is finalized
fn self_paid_invoice_impl(
	test_dir: &'static str,
	cancel_sent_half: bool,
) -> Result<(), libwallet::Error> {
	let mut wallet_proxy = create_wallet_proxy(test_dir);
	let chain = wallet_proxy.chain.clone();
	let stopper = wallet_proxy.running.clone();

	create_wallet_and_add!(
		client1,
		wallet1,
		mask1_i,
		test_dir,
		"wallet1",
		None,
		&mut wallet_proxy,
		true
	);
	let mask1 = (&mask1_i).as_ref();
	create_wallet_and_add!(
		client2,
		wallet2,
		mask2_i,
		test_dir,
		"wallet2",
		None,
		&mut wallet_proxy,
		true
	);
	let _mask2 = (&mask2_i).as_ref();

	thread::spawn(move || {
		if let Err(e) = wallet_proxy.run() {
			error!("Wallet Proxy error: {}", e);
		}
	});

	let reward = core::consensus::REWARD;
	let _ = test_framework::award_blocks_to_wallet(&chain, wallet1.clone(), mask1, 10, false);

	let pay_args = InitTxArgs {
		src_acct_name: None,
		amount: reward * 2,
		minimum_confirmations: 2,
		max_outputs: 500,
		num_change_outputs: 1,
		selection_strategy_is_use_all: true,
		..Default::default()
	};

	// wallet 1 issues an invoice and pays it itself
	let mut invoice = Slate::blank(2, true);
	wallet::controller::owner_single_use(Some(wallet1.clone()), mask1, None, |api, m| {
		let (refreshed, _) = api.retrieve_summary_info(m, true, 1)?;
		assert!(refreshed);
		invoice = api.issue_invoice_tx(
			m,
			IssueInvoiceTxArgs {
				amount: reward * 2,
				..Default::default()
			},
		)?;
		let mut a = pay_args.clone();
		a.amount = invoice.amount;
		invoice = api.process_invoice_tx(m, &invoice, a)?;
		if cancel_sent_half {
			// reserve the inputs, then give the payment up again: the inputs are released
			api.tx_lock_outputs(m, &invoice)?;
			let (_, txs) = api.retrieve_txs(m, false, None, Some(invoice.id), None)?;
			let sent = txs
				.iter()
				.find(|t| t.tx_type == TxLogEntryType::TxSent)
				.expect("sent entry of the self-paid invoice");
			api.cancel_tx(m, Some(sent.id), None)?;
		}
		// (otherwise: tx_lock_outputs is not called at all)
		Ok(())
	})?;

	// no output of wallet 1 is reserved at this point
	wallet::controller::owner_single_use(Some(wallet1.clone()), mask1, None, |api, m| {
		let (_, outs) = api.retrieve_outputs(m, false, false, None)?;
		assert!(outs
			.iter()
			.all(|o| o.output.status != libwallet::OutputStatus::Locked));
		Ok(())
	})?;

	// the reply comes back: the invoice is finalized
	let mut finalized_invoice = None;
	wallet::controller::foreign_single_use(wallet1.clone(), mask1_i.clone(), |api| {
		match api.finalize_tx(&invoice, false) {
			Ok(s) => finalized_invoice = Some(s),
			Err(e) => println!("finalizing the unreserved self-paid invoice is refused: {}", e),
		}
		Ok(())
	})?;
	let finalized_invoice = match finalized_invoice {
		// refused: the property holds
		None => {
			stopper.store(false, Ordering::Relaxed);
			thread::sleep(Duration::from_millis(500));
			return Ok(());
		}
		Some(s) => s,
	};
	let invoice_inputs = input_commits(&finalized_invoice);
	println!("finalized invoice spends {:?}", invoice_inputs);

	// the finalized invoice is a live transaction of wallet 1
	wallet::controller::owner_single_use(Some(wallet1.clone()), mask1, None, |api, m| {
		let (_, txs) = api.retrieve_txs(m, false, None, Some(invoice.id), None)?;
		let live: Vec<_> = txs
			.iter()
			.filter(|t| {
				!t.confirmed
					&& (t.tx_type == TxLogEntryType::TxSent
						|| t.tx_type == TxLogEntryType::TxReceived)
			})
			.collect();
		assert!(!live.is_empty());
		assert!(api.get_stored_tx(m, None, Some(&invoice.id))?.is_some());
		Ok(())
	})?;

	// wallet 1 now makes an ordinary payment to wallet 2
	let mut send = Slate::blank(2, false);
	let mut second_reserved = true;
	wallet::controller::owner_single_use(Some(wallet1.clone()), mask1, None, |api, m| {
		let s = api.init_send_tx(m, pay_args.clone())?;
		if let Err(e) = api.tx_lock_outputs(m, &s) {
			println!("second send cannot reserve: {}", e);
			second_reserved = false;
			return Ok(());
		}
		let s = client1.send_tx_slate_direct("wallet2", &s)?;
		send = api.finalize_tx(m, &s)?;
		Ok(())
	})?;

	if second_reserved {
		let send_inputs = input_commits(&send);
		println!("second send spends      {:?}", send_inputs);
		let shared: Vec<_> = send_inputs
			.iter()
			.filter(|c| invoice_inputs.contains(c))
			.collect();

		// both are live (unconfirmed, not cancelled) in wallet 1's log
		wallet::controller::owner_single_use(Some(wallet1.clone()), mask1, None, |api, m| {
			let (_, txs) = api.retrieve_txs(m, false, None, None, None)?;
			for t in txs.iter().filter(|t| t.tx_slate_id.is_some()) {
				println!(
					"log entry {} {:?} slate {:?} confirmed {}",
					t.id, t.tx_type, t.tx_slate_id, t.confirmed
				);
			}
			Ok(())
		})?;

		assert!(
			shared.is_empty(),
			"expected: the inputs of the finalized (live, not cancelled, not confirmed) self-paid \
			 invoice {} stay reserved, so that no other pending transaction can select them; \
			 actual: the invoice was finalized with unreserved inputs and the later send {} \
			 reserved and spends {} of the same outputs: {:?}",
			invoice.id,
			send.id,
			shared.len(),
			shared
		);
	}

	stopper.store(false, Ordering::Relaxed);
	thread::sleep(Duration::from_millis(500));
	Ok(())
}

#[test]
fn self_paid_invoice_finalized_without_reservation() {
	let test_dir = "test_output/c03_finding1_a";
	setup(test_dir);
	if let Err(e) = self_paid_invoice_impl(test_dir, false) {
		panic!("Libwallet Error: {}", e);
	}
	clean_output_dir(test_dir);
}

#[test]
fn self_paid_invoice_finalized_after_sent_half_cancelled() {
	let test_dir = "test_output/c03_finding1_b";
	setup(test_dir);
	if let Err(e) = self_paid_invoice_impl(test_dir, true) {
		panic!("Libwallet Error: {}", e);
	}
	clean_output_dir(test_dir);
}
