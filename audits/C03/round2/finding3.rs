// Finding 3: process_invoice_tx selects the payer's inputs, signs for them and hands the signed
// reply out, but reserves nothing. Until tx_lock_outputs is called for the invoice any other send
// of the wallet selects and reserves the same outputs; tx_lock_outputs for the invoice is then
// refused, but the signed reply is out of the wallet's hands: the invoicer finalizes it. The
// payer's wallet has then signed two live transactions that spend the same outputs, and one of
// them (the invoice payment) has no log entry and no reservation at all.
//
// Copy to controller/tests/c03_finding3.rs and run (from the repository root) with
//   cargo test --offline -j 2 -p grin_wallet_controller --test c03_finding3 -- --nocapture
#[macro_use]
extern crate log;
extern crate grin_wallet_controller as wallet;
extern crate grin_wallet_impls as impls;

use grin_core as core;
use grin_core::core::transaction::CommitWrapper;
use grin_util::secp::pedersen::Commitment;
use grin_wallet_libwallet as libwallet;

use impls::test_framework::{self, LocalWalletClient};
use libwallet::{InitTxArgs, IssueInvoiceTxArgs, Slate, SlateState};
use std::sync::atomic::Ordering;
use std::thread;
use std::time::Duration;

#[macro_use]
mod common;
use common::{clean_output_dir, create_wallet_proxy, setup};

fn input_commits(slate: &Slate) -> Vec<Commitment> {
	let v: Vec<CommitWrapper> = slate.tx.as_ref().expect("finalized tx").inputs().into();
	v.iter().map(|c| c.commitment()).collect()
}

fn invoice_signed_before_reserved_impl(test_dir: &'static str) -> Result<(), libwallet::Error> {
	let mut wallet_proxy = create_wallet_proxy(test_dir);
	let chain = wallet_proxy.chain.clone();
	let stopper = wallet_proxy.running.clone();

	create_wallet_and_add!(
		client1,
		wallet1,
		mask1_i,
		test_dir,
		"wallet1",
		None,
		&mut wallet_proxy,
		true
	);
	let mask1 = (&mask1_i).as_ref();
	create_wallet_and_add!(
		client2,
		wallet2,
		mask2_i,
		test_dir,
		"wallet2",
		None,
		&mut wallet_proxy,
		true
	);
	let mask2 = (&mask2_i).as_ref();

	thread::spawn(move || {
		if let Err(e) = wallet_proxy.run() {
			error!("Wallet Proxy error: {}", e);
		}
	});

	let reward = core::consensus::REWARD;
	let _ = test_framework::award_blocks_to_wallet(&chain, wallet1.clone(), mask1, 10, false);

	let pay_args = InitTxArgs {
		src_acct_name: None,
		amount: reward * 2,
		minimum_confirmations: 2,
		max_outputs: 500,
		num_change_outputs: 1,
		selection_strategy_is_use_all: true,
		..Default::default()
	};

	// wallet 2 asks wallet 1 for a payment
	let mut invoice = Slate::blank(2, true);
	wallet::controller::owner_single_use(Some(wallet2.clone()), mask2, None, |api, m| {
		invoice = api.issue_invoice_tx(
			m,
			IssueInvoiceTxArgs {
				amount: reward * 2,
				..Default::default()
			},
		)?;
		Ok(())
	})?;

	// wallet 1 pays: the reply carries its inputs and its partial signature
	let mut reply = Slate::blank(2, true);
	let mut send_reply = None;
	let mut invoice_lock = None;
	wallet::controller::owner_single_use(Some(wallet1.clone()), mask1, None, |api, m| {
		let (refreshed, _) = api.retrieve_summary_info(m, true, 1)?;
		assert!(refreshed);
		let mut a = pay_args.clone();
		a.amount = invoice.amount;
		reply = api.process_invoice_tx(m, &invoice, a)?;
		assert_eq!(reply.state, SlateState::Invoice2);

		// before the invoice's inputs are reserved, another payment is started and reserved
		let s = match api.init_send_tx(m, pay_args.clone()) {
			Ok(s) => s,
			Err(e) => {
				// (the outputs the signed reply spends are not available: the property holds)
				println!("second send finds nothing to select: {}", e);
				return Ok(());
			}
		};
		if let Err(e) = api.tx_lock_outputs(m, &s) {
			println!("second send cannot reserve: {}", e);
			return Ok(());
		}
		// now the reservation for the invoice (the step that the API leaves to the caller)
		invoice_lock = Some(api.tx_lock_outputs(m, &reply));
		let s = client1.send_tx_slate_direct("wallet2", &s)?;
		send_reply = Some(api.finalize_tx(m, &s)?);
		Ok(())
	})?;

	if let Some(send) = send_reply {
		println!(
			"tx_lock_outputs for the invoice payment: {:?}",
			invoice_lock.as_ref().map(|r| r.as_ref().map_err(|e| e.to_string()))
		);
		// wallet 2 completes the invoice from the signed reply
		let mut finalized_invoice = Slate::blank(2, true);
		wallet::controller::foreign_single_use(wallet2.clone(), mask2_i.clone(), |api| {
			finalized_invoice = api.finalize_tx(&reply, false)?;
			Ok(())
		})?;
		assert_eq!(finalized_invoice.state, SlateState::Invoice3);

		let invoice_inputs = input_commits(&finalized_invoice);
		let send_inputs = input_commits(&send);
		println!("invoice payment spends {:?}", invoice_inputs);
		println!("second send spends     {:?}", send_inputs);
		let shared: Vec<_> = send_inputs
			.iter()
			.filter(|c| invoice_inputs.contains(c))
			.collect();

		// what wallet 1 knows of the two transactions it has signed
		wallet::controller::owner_single_use(Some(wallet1.clone()), mask1, None, |api, m| {
			let (_, txs) = api.retrieve_txs(m, false, None, Some(invoice.id), None)?;
			println!(
				"wallet 1 log entries for the invoice payment {}: {}",
				invoice.id,
				txs.len()
			);
			let (_, txs) = api.retrieve_txs(m, false, None, Some(send.id), None)?;
			for t in txs {
				println!(
					"wallet 1 log entry {} {:?} slate {} confirmed {}",
					t.id, t.tx_type, send.id, t.confirmed
				);
			}
			Ok(())
		})?;

		assert!(
			shared.is_empty(),
			"expected: the outputs wallet 1 signed away in its reply to invoice {} are reserved \
			 for that payment, so the later send {} cannot select or reserve them; actual: \
			 process_invoice_tx reserved nothing, the send reserved the same outputs, \
			 tx_lock_outputs for the invoice was then refused ({:?}) and both transactions were \
			 completed - they share {} inputs: {:?}",
			invoice.id,
			send.id,
			invoice_lock.map(|r| r.map_err(|e| e.to_string())),
			shared.len(),
			shared
		);
	}

	stopper.store(false, Ordering::Relaxed);
	thread::sleep(Duration::from_millis(500));
	Ok(())
}

#[test]
fn invoice_reply_signed_before_inputs_reserved() {
	let test_dir = "test_output/c03_finding3";
	setup(test_dir);
	if let Err(e) = invoice_signed_before_reserved_impl(test_dir) {
		panic!("Libwallet Error: {}", e);
	}
	clean_output_dir(test_dir);
}
