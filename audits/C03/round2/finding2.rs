// Finding 2: create_mwixnet_req builds (and, with lock_output, "reserves" the output for) a
// mixnet swap that spends an output which is already reserved by a pending send of the wallet.
// The output is then claimed by two pending spends at once; cancelling the send releases it
// although the swap request that locked it is still out.
//
// Copy to controller/tests/c03_finding2.rs and run (from the repository root) with
//   cargo test --offline -j 2 -p grin_wallet_controller --test c03_finding2 -- --nocapture
#[macro_use]
extern crate log;
extern crate grin_wallet_controller as wallet;
extern crate grin_wallet_impls as impls;

use grin_util as util;
use grin_util::secp::key::SecretKey;
use grin_wallet_libwallet as libwallet;

use impls::test_framework::{self, LocalWalletClient};
use libwallet::{mwixnet::MixnetReqCreationParams, InitTxArgs, OutputStatus, TxLogEntryType};
use std::sync::atomic::Ordering;
use std::thread;
use std::time::Duration;

#[macro_use]
mod common;
use common::{clean_output_dir, create_wallet_proxy, setup};

fn mwixnet_on_reserved_output_impl(test_dir: &'static str) -> Result<(), libwallet::Error> {
	let mut wallet_proxy = create_wallet_proxy(test_dir);
	let chain = wallet_proxy.chain.clone();
	let stopper = wallet_proxy.running.clone();

	create_wallet_and_add!(
		client1,
		wallet1,
		mask1_i,
		test_dir,
		"wallet1",
		None,
		&mut wallet_proxy,
		true
	);
	let mask1 = (&mask1_i).as_ref();

	thread::spawn(move || {
		if let Err(e) = wallet_proxy.run() {
			error!("Wallet Proxy error: {}", e);
		}
	});

	let reward = grin_core::consensus::REWARD;
	let _ = test_framework::award_blocks_to_wallet(&chain, wallet1.clone(), mask1, 10, false);

	let params = {
		let secp_locked = util::static_secp_instance();
		let secp = secp_locked.lock();
		let keys = [
			"97444ae673bb92c713c1a2f7b8882ffbfc1c67401a280a775dce1a8651584332",
			"0c9414341f2140ed34a5a12a6479bf5a6404820d001ab81d9d3e8cc38f049b4e",
			"b58ece97d60e71bb7e53218400b0d67bfe6a3cb7d3b4a67a44f8fb7c525cbca5",
		];
		MixnetReqCreationParams {
			server_keys: keys
				.iter()
				.map(|k| SecretKey::from_slice(&secp, &util::from_hex(k).unwrap()).unwrap())
				.collect(),
			fee_per_hop: 50_000_000,
		}
	};

	wallet::controller::owner_single_use(Some(wallet1.clone()), mask1, None, |api, m| {
		let (refreshed, _) = api.retrieve_summary_info(m, true, 1)?;
		assert!(refreshed);

		// a pending send reserves one output
		let args = InitTxArgs {
			src_acct_name: None,
			amount: reward / 2,
			minimum_confirmations: 2,
			max_outputs: 500,
			num_change_outputs: 1,
			selection_strategy_is_use_all: false,
			..Default::default()
		};
		let slate = api.init_send_tx(m, args)?;
		api.tx_lock_outputs(m, &slate)?;

		let (_, txs) = api.retrieve_txs(m, false, None, Some(slate.id), None)?;
		assert_eq!(txs.len(), 1);
		assert_eq!(txs[0].tx_type, TxLogEntryType::TxSent);
		assert!(!txs[0].confirmed);
		let (_, outs) = api.retrieve_outputs(m, false, false, Some(txs[0].id))?;
		let reserved = outs
			.iter()
			.find(|o| o.output.status == OutputStatus::Locked)
			.expect("an output reserved by the pending send")
			.clone();
		println!(
			"output {:?} is reserved by pending send {} (log entry {})",
			reserved.commit, slate.id, txs[0].id
		);

		// a mixnet swap of that very output is requested, asking for the output to be reserved
		let res = api.create_mwixnet_req(m, &params, &reserved.commit, true);

		// what happens to the reservation when the send is given up
		api.cancel_tx(m, Some(txs[0].id), None)?;
		let (_, outs) = api.retrieve_outputs(m, false, false, None)?;
		let after = outs
			.iter()
			.find(|o| o.commit == reserved.commit)
			.expect("output still in the wallet");
		println!(
			"after cancelling the send the output is {}",
			after.output.status
		);

		assert!(
			res.is_err(),
			"expected: an output reserved by the pending send {} cannot be selected or reserved by \
			 another pending spend, so create_mwixnet_req(lock_output = true) for it is refused; \
			 actual: a swap request spending {:?} was created and the output 'reserved' a second \
			 time (after the send was cancelled the output is {} again, with the swap request \
			 still out)",
			slate.id,
			reserved.commit,
			after.output.status
		);
		Ok(())
	})?;

	stopper.store(false, Ordering::Relaxed);
	thread::sleep(Duration::from_millis(500));
	Ok(())
}

#[test]
fn mwixnet_request_on_output_reserved_by_pending_send() {
	let test_dir = "test_output/c03_finding2";
	setup(test_dir);
	if let Err(e) = mwixnet_on_reserved_output_impl(test_dir) {
		panic!("Libwallet Error: {}", e);
	}
	clean_output_dir(test_dir);
}
