// Finding 2 (property C03: "Reserved outputs are exclusive: no two live transactions share an
// input").
//
// A late-locked send (`InitTxArgs::late_lock`) whose slate is passed to `tx_lock_outputs` before
// it is finalized - which is what the command line `send` does with every slate, late-locked or
// not (controller/src/command.rs, `output_slatepack(.., lock = true, ..)` and the synchronous
// branch) - gets an (empty) sent entry. The first `finalize_tx` then selects the inputs, writes
// them into the stored context (clearing `late_lock_args`), and only then fails in
// `tx_lock_outputs` ("already received"), i.e. before anything is reserved. A second
// `finalize_tx` of the same reply finds a context that looks like that of an ordinary, already
// locked send and completes the transaction - with inputs that were never reserved. The next send
// selects and reserves the same output: the wallet holds two live transactions spending it.
//
// Place in controller/tests/finding2.rs, run with
//   cargo test --offline -j 2 -p grin_wallet_controller --test finding2 -- --nocapture

#[macro_use]
extern crate log;
extern crate grin_wallet_controller as wallet;
extern crate grin_wallet_impls as impls;
extern crate grin_wallet_libwallet as libwallet;

use grin_core as core;

use self::libwallet::{InitTxArgs, OutputStatus, Slate, TxLogEntryType};
use impls::test_framework::{self, LocalWalletClient};
use std::sync::atomic::Ordering;
use std::thread;
use std::time::Duration;

#[macro_use]
mod common;
use common::{clean_output_dir, create_wallet_proxy, setup};

fn late_lock_unreserved_inputs_impl(test_dir: &'static str) -> Result<(), libwallet::Error> {
	let mut wallet_proxy = create_wallet_proxy(test_dir);
	let chain = wallet_proxy.chain.clone();
	let stopper = wallet_proxy.running.clone();

	create_wallet_and_add!(
		client1,
		wallet1,
		mask1_i,
		test_dir,
		"wallet1",
		None,
		&mut wallet_proxy,
		false
	);
	let mask1 = (&mask1_i).as_ref();
	create_wallet_and_add!(
		client2,
		wallet2,
		mask2_i,
		test_dir,
		"wallet2",
		None,
		&mut wallet_proxy,
		false
	);
	let _mask2 = (&mask2_i).as_ref();
	let _ = &client2;

	thread::spawn(move || {
		if let Err(e) = wallet_proxy.run() {
			error!("Wallet Proxy error: {}", e);
		}
	});

	let reward = core::consensus::REWARD;
	let fee = core::libtx::tx_fee(1, 1, 1);

	test_framework::award_blocks_to_wallet(&chain, wallet1.clone(), mask1, 6, false)?;

	// Transaction 1: a late-locked send of exactly one coinbase output less the fee (no change)
	let mut slate_1 = Slate::blank(2, false);
	let mut slate_2 = Slate::blank(2, false);
	let mut tx1_final: Option<Slate> = None;
	wallet::controller::owner_single_use(Some(wallet1.clone()), mask1, None, |api, m| {
		let args = InitTxArgs {
			src_acct_name: None,
			amount: reward - fee,
			minimum_confirmations: 2,
			max_outputs: 500,
			num_change_outputs: 1,
			selection_strategy_is_use_all: false,
			late_lock: Some(true),
			..Default::default()
		};
		slate_1 = api.init_send_tx(m, args)?;

		// the "reserve" step, as the command line `send` performs it for every slate it writes out
		let r = api.tx_lock_outputs(m, &slate_1);
		println!("tx_lock_outputs on the late-locked slate: {:?}", r.is_ok());

		slate_2 = client1.send_tx_slate_direct("wallet2", &slate_1)?;

		// finalize; if that is refused, the user simply tries the reply again
		for attempt in 1..=2 {
			match api.finalize_tx(m, &slate_2) {
				Ok(s) => {
					println!("finalize_tx attempt {}: ok", attempt);
					tx1_final = Some(s);
					break;
				}
				Err(e) => println!("finalize_tx attempt {}: refused: {}", attempt, e),
			}
		}
		Ok(())
	})?;

	let tx1_final = match tx1_final {
		Some(s) => s,
		None => {
			// never finalized: there is no live transaction 1, nothing to check
			println!("transaction 1 was never finalized");
			stopper.store(false, Ordering::Relaxed);
			thread::sleep(Duration::from_millis(200));
			return Ok(());
		}
	};

	// transaction 1 is live: complete, valid, stored, unconfirmed and not cancelled
	let tx1 = tx1_final.tx_or_err()?.clone();
	let tx1_inputs: Vec<_> = {
		let inputs: Vec<_> = tx1.inputs().into();
		inputs.iter().map(|i| i.commitment()).collect()
	};
	assert!(!tx1_inputs.is_empty());
	wallet::controller::owner_single_use(Some(wallet1.clone()), mask1, None, |api, m| {
		let (_, txs) = api.retrieve_txs(m, false, None, Some(slate_1.id), None)?;
		for t in &txs {
			println!(
				"wallet1 log entry for tx 1: id {} type {:?} confirmed {} inputs {} debited {}",
				t.id, t.tx_type, t.confirmed, t.num_inputs, t.amount_debited
			);
		}
		assert!(txs
			.iter()
			.any(|t| t.tx_type == TxLogEntryType::TxSent && !t.confirmed));
		let stored = api.get_stored_tx(m, None, Some(&slate_1.id))?;
		assert!(stored.is_some(), "tx 1 is stored for (re)posting");
		Ok(())
	})?;

	// the reservation state of transaction 1's inputs in the sender's wallet
	let mut unreserved = vec![];
	wallet::controller::owner_single_use(Some(wallet1.clone()), mask1, None, |api, m| {
		let (_, outputs) = api.retrieve_outputs(m, true, false, None)?;
		for o in outputs {
			if tx1_inputs.contains(&o.commit) {
				println!(
					"input of live tx 1: key {} value {} status {}",
					o.output.key_id, o.output.value, o.output.status
				);
				if o.output.status != OutputStatus::Locked {
					unreserved.push(o.output.key_id.clone());
				}
			}
		}
		Ok(())
	})?;

	// Transaction 2: an ordinary send using all spendable outputs, reserved straight away
	let mut slate_b = Slate::blank(2, false);
	let mut tx2_res = None;
	wallet::controller::owner_single_use(Some(wallet1.clone()), mask1, None, |api, m| {
		let args = InitTxArgs {
			src_acct_name: None,
			amount: reward,
			minimum_confirmations: 2,
			max_outputs: 500,
			num_change_outputs: 1,
			selection_strategy_is_use_all: true,
			..Default::default()
		};
		let r = api.init_send_tx(m, args).and_then(|s| {
			slate_b = s;
			api.tx_lock_outputs(m, &slate_b)
		});
		tx2_res = Some(r);
		Ok(())
	})?;
	let tx2_ok = tx2_res.unwrap().is_ok();
	println!("transaction 2 initiated and reserved: {}", tx2_ok);

	let mut shared = vec![];
	if tx2_ok {
		wallet::controller::owner_single_use(Some(wallet1.clone()), mask1, None, |api, m| {
			let stored = api.get_stored_tx(m, None, Some(&slate_b.id))?.unwrap();
			let inputs: Vec<_> = stored.tx_or_err()?.inputs().into();
			for i in inputs {
				if tx1_inputs.contains(&i.commitment()) {
					shared.push(i.commitment());
				}
			}
			Ok(())
		})?;
	}
	println!(
		"inputs spent by both live transactions {} and {}: {:?}",
		slate_1.id, slate_b.id, shared
	);

	// transaction 1 really is a valid, postable transaction
	wallet::controller::owner_single_use(Some(wallet1.clone()), mask1, None, |api, m| {
		let r = api.post_tx(m, &tx1_final, false);
		println!("posting tx 1: {:?}", r.is_ok());
		assert!(r.is_ok());
		Ok(())
	})?;

	assert!(
		shared.is_empty(),
		"expected no output to be an input of two live (unconfirmed, not cancelled) transactions \
		 of one wallet, but {} input(s) of finalized transaction {} are also reserved for and \
		 spent by transaction {}",
		shared.len(),
		slate_1.id,
		slate_b.id
	);
	assert!(
		unreserved.is_empty(),
		"expected every input of the finalized, unconfirmed transaction {} to be reserved \
		 (Locked) in the sender's wallet, but these are not: {:?}",
		slate_1.id,
		unreserved
	);

	stopper.store(false, Ordering::Relaxed);
	thread::sleep(Duration::from_millis(200));
	Ok(())
}

#[test]
fn late_lock_unreserved_inputs() {
	let test_dir = "test_output/finding2_late_lock_unreserved_inputs";
	setup(test_dir);
	if let Err(e) = late_lock_unreserved_inputs_impl(test_dir) {
		panic!("Libwallet Error: {}", e);
	}
	clean_output_dir(test_dir);
}
