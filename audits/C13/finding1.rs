// C13 finding 1: the reply to a request that was authenticated under session key K1 is
// encrypted under a DIFFERENT key (K2) when somebody performs a (plaintext, unauthenticated)
// key exchange while the request is still being processed.
//
// Copy to controller/tests/c13_finding1.rs (next to controller/tests/common/) and run with
//   cargo test --offline -j 3 -p grin_wallet_controller --test c13_finding1 -- --nocapture

#[macro_use]
extern crate log;
extern crate grin_wallet_api as apiwallet;
extern crate grin_wallet_controller as wallet;
extern crate grin_wallet_impls as impls;
extern crate grin_wallet_libwallet as libwallet;

use grin_api as nodeapi;
use grin_util as util;

use apiwallet::{ECDHPubkey, EncryptedRequest, EncryptedResponse, JsonId};
use impls::test_framework::LocalWalletClient;
use serde_json::{json, Value};
use std::sync::Arc;
use std::thread;
use std::time::Duration;
use util::secp::key::{PublicKey, SecretKey};
use util::{static_secp_instance, Mutex};

#[macro_use]
mod common;
use common::{clean_output_dir, create_wallet_proxy, setup, setup_global_chain_type};

const ADDR: &str = "127.0.0.1:43513";
const URL: &str = "http://127.0.0.1:43513/v3/owner";

/// POST a json value to the owner listener, return the json reply
fn post(body: &Value) -> Value {
	nodeapi::client::post::<Value, Value>(URL, None, body, nodeapi::client::TimeOut::default())
		.expect("http request to the owner listener failed")
}

/// Plaintext `init_secure_api` with the client secret made of `seed` bytes; returns the
/// session key the client derives from the listener's reply
fn key_exchange(seed: u8) -> SecretKey {
	// never hold the static secp lock across a request, the listener needs it too
	let (sec, pubkey) = {
		let secp_inst = static_secp_instance();
		let secp = secp_inst.lock();
		let sec = SecretKey::from_slice(&secp, &[seed; 32]).unwrap();
		let p = PublicKey::from_secret_key(&secp, &sec).unwrap();
		(sec, p)
	};
	let pubkey = serde_json::to_value(&ECDHPubkey {
		ecdh_pubkey: pubkey,
	})
	.unwrap();
	let reply = post(&json!({
		"jsonrpc": "2.0",
		"method": "init_secure_api",
		"params": { "ecdh_pubkey": pubkey },
		"id": 1
	}));
	let server: ECDHPubkey = serde_json::from_value(reply["result"]["Ok"].clone())
		.unwrap_or_else(|e| panic!("init_secure_api failed: {} / {}", e, reply));
	let secp_inst = static_secp_instance();
	let secp = secp_inst.lock();
	let mut shared = server.ecdh_pubkey;
	shared.mul_assign(&secp, &sec).unwrap();
	let x = shared.serialize_vec(&secp, true);
	SecretKey::from_slice(&secp, &x[1..]).unwrap()
}

fn envelope(id: u32, inner: &Value, key: &SecretKey) -> Value {
	EncryptedRequest::from_json(&JsonId::IntId(id), inner, key)
		.unwrap()
		.as_json_value()
		.unwrap()
}

/// Try to open an encrypted reply with `key`
fn open(reply: &Value, key: &SecretKey) -> Result<Value, String> {
	let enc: EncryptedResponse = serde_json::from_value(reply.clone())
		.map_err(|e| format!("not an encrypted reply ({}): {}", e, reply))?;
	enc.decrypt(key).map_err(|e| format!("{}", e))
}

fn wait_for_listener() {
	for _ in 0..100 {
		if std::net::TcpStream::connect(ADDR).is_ok() {
			return;
		}
		thread::sleep(Duration::from_millis(100));
	}
	panic!("owner listener did not come up");
}

#[test]
fn c13_reply_is_encrypted_under_the_key_the_request_was_authenticated_with() {
	let test_dir = "test_output/c13_finding1";
	setup(test_dir);
	setup_global_chain_type();

	let mut wallet_proxy = create_wallet_proxy(test_dir);
	let stopper = wallet_proxy.running.clone();
	create_wallet_and_add!(
		client1,
		wallet1,
		mask1_i,
		test_dir,
		"wallet1",
		None,
		&mut wallet_proxy,
		false
	);
	assert!(mask1_i.is_none());
	let _ = client1;

	// NOTE: the node (wallet proxy) is NOT answering yet: it is "briefly unreachable/slow".

	// the owner listener
	let w = wallet1.clone();
	thread::spawn(move || {
		if let Err(e) = wallet::controller::owner_listener(
			w,
			Arc::new(Mutex::new(None)),
			ADDR,
			None,
			None,
			Some(false),
			None,
			false,
		) {
			error!("owner listener: {}", e);
		}
	});
	wait_for_listener();

	// 1) the legitimate client negotiates session key K1 and uses it
	let k1 = key_exchange(0x11);
	let reply = post(&envelope(
		1,
		&json!({"jsonrpc":"2.0","method":"accounts","params":{"token":null},"id":1}),
		&k1,
	));
	let plain = open(&reply, &k1).expect("sanity: reply to a K1 request opens with K1");
	assert!(plain["result"]["Ok"].is_array(), "sanity: {}", plain);

	// 2) it sends a request under K1 that needs the node; the node is slow, the call is in flight
	let k1_t = k1.clone();
	let in_flight = thread::spawn(move || {
		post(&envelope(
			2,
			&json!({
				"jsonrpc":"2.0",
				"method":"retrieve_summary_info",
				"params":{"token":null,"refresh_from_node":true,"minimum_confirmations":1},
				"id":2
			}),
			&k1_t,
		))
	});
	thread::sleep(Duration::from_millis(1500));

	// 3) meanwhile somebody else, who does NOT know K1, does the (plaintext) key exchange
	let k2 = key_exchange(0x22);
	assert!(k1 != k2);

	// 4) the node answers again
	thread::spawn(move || {
		if let Err(e) = wallet_proxy.run() {
			error!("Wallet Proxy error: {}", e);
		}
	});

	let reply = in_flight.join().unwrap();
	println!("reply to the request sent under K1: {}", reply);
	assert!(
		reply.get("error").is_none(),
		"test set-up: the K1 request was expected to be accepted (it arrived before the re-init): {}",
		reply
	);

	let with_k1 = open(&reply, &k1);
	let with_k2 = open(&reply, &k2);
	println!("opened with K1 (key of the request): {:?}", with_k1);
	println!("opened with K2 (key of the other party): {:?}", with_k2);

	stopper.store(false, std::sync::atomic::Ordering::Relaxed);
	thread::sleep(Duration::from_millis(200));
	clean_output_dir(test_dir);

	assert!(
		with_k1.is_ok() && with_k2.is_err(),
		"the reply to a request authenticated under session key K1 must be encrypted under K1 \
		 and must not be readable with any other key; instead opening it with K1 gives {:?} and \
		 opening it with K2 (negotiated in plaintext by another party while the request was in \
		 flight) gives {:?}",
		with_k1,
		with_k2
	);
}
