// C13 finding 3: an encrypted request whose `nonce` (or `body_enc`) string was altered on the
// wire is still accepted and executed, as long as the alteration survives the lenient decoding
// in EncryptedBody::decrypt: a flipped bit 0x20 of a hex letter (case change), bytes appended
// to the nonce (only the first 12 bytes are used), a "0x" prefix, or stripped base64 padding.
//
// Copy to controller/tests/c13_finding3.rs (next to controller/tests/common/) and run with
//   cargo test --offline -j 3 -p grin_wallet_controller --test c13_finding3 -- --nocapture

#[macro_use]
extern crate log;
extern crate grin_wallet_api as apiwallet;
extern crate grin_wallet_controller as wallet;
extern crate grin_wallet_impls as impls;
extern crate grin_wallet_libwallet as libwallet;

use grin_api as nodeapi;
use grin_util as util;

use apiwallet::{ECDHPubkey, EncryptedRequest, EncryptedResponse, JsonId};
use impls::test_framework::LocalWalletClient;
use serde_json::{json, Value};
use std::sync::Arc;
use std::thread;
use std::time::Duration;
use util::secp::key::{PublicKey, SecretKey};
use util::{static_secp_instance, Mutex};

#[macro_use]
mod common;
use common::{clean_output_dir, create_wallet_proxy, setup, setup_global_chain_type};

const ADDR: &str = "127.0.0.1:43515";
const URL: &str = "http://127.0.0.1:43515/v3/owner";

/// POST a json value to the owner listener, return the json reply
fn post(body: &Value) -> Value {
	nodeapi::client::post::<Value, Value>(URL, None, body, nodeapi::client::TimeOut::default())
		.expect("http request to the owner listener failed")
}

/// Plaintext `init_secure_api` with the client secret made of `seed` bytes; returns the
/// session key the client derives from the listener's reply
fn key_exchange(seed: u8) -> SecretKey {
	// never hold the static secp lock across a request, the listener needs it too
	let (sec, pubkey) = {
		let secp_inst = static_secp_instance();
		let secp = secp_inst.lock();
		let sec = SecretKey::from_slice(&secp, &[seed; 32]).unwrap();
		let p = PublicKey::from_secret_key(&secp, &sec).unwrap();
		(sec, p)
	};
	let pubkey = serde_json::to_value(&ECDHPubkey {
		ecdh_pubkey: pubkey,
	})
	.unwrap();
	let reply = post(&json!({
		"jsonrpc": "2.0",
		"method": "init_secure_api",
		"params": { "ecdh_pubkey": pubkey },
		"id": 1
	}));
	let server: ECDHPubkey = serde_json::from_value(reply["result"]["Ok"].clone())
		.unwrap_or_else(|e| panic!("init_secure_api failed: {} / {}", e, reply));
	let secp_inst = static_secp_instance();
	let secp = secp_inst.lock();
	let mut shared = server.ecdh_pubkey;
	shared.mul_assign(&secp, &sec).unwrap();
	let x = shared.serialize_vec(&secp, true);
	SecretKey::from_slice(&secp, &x[1..]).unwrap()
}

fn envelope(id: u32, inner: &Value, key: &SecretKey) -> Value {
	EncryptedRequest::from_json(&JsonId::IntId(id), inner, key)
		.unwrap()
		.as_json_value()
		.unwrap()
}

/// Try to open an encrypted reply with `key`
fn open(reply: &Value, key: &SecretKey) -> Result<Value, String> {
	let enc: EncryptedResponse = serde_json::from_value(reply.clone())
		.map_err(|e| format!("not an encrypted reply ({}): {}", e, reply))?;
	enc.decrypt(key).map_err(|e| format!("{}", e))
}

fn wait_for_listener() {
	for _ in 0..100 {
		if std::net::TcpStream::connect(ADDR).is_ok() {
			return;
		}
		thread::sleep(Duration::from_millis(100));
	}
	panic!("owner listener did not come up");
}

fn account_labels(k: &SecretKey) -> Vec<String> {
	let reply = post(&envelope(
		1000,
		&json!({"jsonrpc":"2.0","method":"accounts","params":{"token":null},"id":1}),
		k,
	));
	let plain = open(&reply, k).expect("accounts");
	plain["result"]["Ok"]
		.as_array()
		.expect("accounts result")
		.iter()
		.map(|a| a["label"].as_str().unwrap().to_owned())
		.collect()
}

#[test]
fn c13_tampered_nonce_or_body_is_refused() {
	let test_dir = "test_output/c13_finding3";
	setup(test_dir);
	setup_global_chain_type();

	let mut wallet_proxy = create_wallet_proxy(test_dir);
	let stopper = wallet_proxy.running.clone();
	create_wallet_and_add!(
		client1,
		wallet1,
		mask1_i,
		test_dir,
		"wallet1",
		None,
		&mut wallet_proxy,
		false
	);
	let _ = (client1, mask1_i);
	thread::spawn(move || {
		if let Err(e) = wallet_proxy.run() {
			error!("Wallet Proxy error: {}", e);
		}
	});
	let w = wallet1.clone();
	thread::spawn(move || {
		if let Err(e) = wallet::controller::owner_listener(
			w,
			Arc::new(Mutex::new(None)),
			ADDR,
			None,
			None,
			Some(false),
			None,
			false,
		) {
			error!("owner listener: {}", e);
		}
	});
	wait_for_listener();

	let k1 = key_exchange(0x11);
	let inner = |label: &str| {
		json!({
			"jsonrpc":"2.0",
			"method":"create_account_path",
			"params":{"token":null,"label":label},
			"id":1
		})
	};
	assert_eq!(account_labels(&k1), vec!["default".to_owned()]);

	let mut violations: Vec<String> = vec![];
	let mut check = |name: &str, label: &str, env: &Value| {
		let reply = post(env);
		println!("{}: request {}", name, env);
		println!("{}: reply   {}", name, reply);
		if reply.get("error").is_none() {
			violations.push(format!(
				"{}: not answered with an error but with {:?}",
				name,
				open(&reply, &k1)
			));
		}
		if account_labels(&k1).iter().any(|x| x == label) {
			violations.push(format!(
				"{}: the tampered request changed the wallet: account '{}' was created",
				name, label
			));
		}
	};

	// control: a real change of the nonce value is refused
	{
		let mut env = envelope(1, &inner("control"), &k1);
		let n = env["params"]["nonce"].as_str().unwrap().to_owned();
		let first = u8::from_str_radix(&n[0..2], 16).unwrap() ^ 0x01;
		env["params"]["nonce"] = json!(format!("{:02x}{}", first, &n[2..]));
		let reply = post(&env);
		assert_eq!(reply["error"]["code"], json!(-32002), "control: {}", reply);
	}

	// (a) one bit of the nonce string flipped: 0x20 of a hex letter ('a'..'f' <-> 'A'..'F')
	{
		// make sure the nonce has a letter in it
		let mut env;
		loop {
			env = envelope(2, &inner("nonce_bit_flipped"), &k1);
			if env["params"]["nonce"]
				.as_str()
				.unwrap()
				.bytes()
				.any(|b| b.is_ascii_alphabetic())
			{
				break;
			}
		}
		let mut n = env["params"]["nonce"].as_str().unwrap().as_bytes().to_vec();
		let pos = n.iter().position(|b| b.is_ascii_alphabetic()).unwrap();
		n[pos] ^= 0x20;
		env["params"]["nonce"] = json!(String::from_utf8(n).unwrap());
		check("(a) bit 0x20 of a nonce character flipped", "nonce_bit_flipped", &env);
	}

	// (b) bytes appended to the nonce
	{
		let mut env = envelope(3, &inner("nonce_extended"), &k1);
		let n = env["params"]["nonce"].as_str().unwrap().to_owned();
		env["params"]["nonce"] = json!(format!("{}deadbeef", n));
		check("(b) 4 bytes appended to the nonce", "nonce_extended", &env);
	}

	// (c) base64 padding of the ciphertext stripped
	{
		let mut i = 0;
		let mut env;
		loop {
			env = envelope(4, &inner(&format!("body_unpadded{}", "x".repeat(i))), &k1);
			if env["params"]["body_enc"].as_str().unwrap().ends_with('=') {
				break;
			}
			i += 1;
		}
		let label = format!("body_unpadded{}", "x".repeat(i));
		let b = env["params"]["body_enc"].as_str().unwrap().to_owned();
		env["params"]["body_enc"] = json!(b.trim_end_matches('=').to_owned());
		check("(c) base64 padding of body_enc removed", &label, &env);
	}

	println!("accounts afterwards: {:?}", account_labels(&k1));

	stopper.store(false, std::sync::atomic::Ordering::Relaxed);
	thread::sleep(Duration::from_millis(200));
	clean_output_dir(test_dir);

	assert!(
		violations.is_empty(),
		"a request whose nonce or body was altered after the client produced it must be \
		 answered with an error and change nothing, but:\n - {}",
		violations.join("\n - ")
	);
}
