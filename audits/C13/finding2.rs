// C13 finding 2: the owner listener does not check the shape of the request envelope. Anything
// that serde can turn into an `EncryptedRequest` is decrypted and executed: an envelope whose
// `method` is not `encrypted_request_v3` (any string will do, also `jsonrpc`), and even a JSON
// ARRAY (serde accepts a sequence for a struct) - i.e. a body that a JSON-RPC peer would read as
// a batch.
//
// Copy to controller/tests/c13_finding2.rs (next to controller/tests/common/) and run with
//   cargo test --offline -j 3 -p grin_wallet_controller --test c13_finding2 -- --nocapture

#[macro_use]
extern crate log;
extern crate grin_wallet_api as apiwallet;
extern crate grin_wallet_controller as wallet;
extern crate grin_wallet_impls as impls;
extern crate grin_wallet_libwallet as libwallet;

use grin_api as nodeapi;
use grin_util as util;

use apiwallet::{ECDHPubkey, EncryptedRequest, EncryptedResponse, JsonId};
use impls::test_framework::LocalWalletClient;
use serde_json::{json, Value};
use std::sync::Arc;
use std::thread;
use std::time::Duration;
use util::secp::key::{PublicKey, SecretKey};
use util::{static_secp_instance, Mutex};

#[macro_use]
mod common;
use common::{clean_output_dir, create_wallet_proxy, setup, setup_global_chain_type};

const ADDR: &str = "127.0.0.1:43514";
const URL: &str = "http://127.0.0.1:43514/v3/owner";

/// POST a json value to the owner listener, return the json reply
fn post(body: &Value) -> Value {
	nodeapi::client::post::<Value, Value>(URL, None, body, nodeapi::client::TimeOut::default())
		.expect("http request to the owner listener failed")
}

/// Plaintext `init_secure_api` with the client secret made of `seed` bytes; returns the
/// session key the client derives from the listener's reply
fn key_exchange(seed: u8) -> SecretKey {
	// never hold the static secp lock across a request, the listener needs it too
	let (sec, pubkey) = {
		let secp_inst = static_secp_instance();
		let secp = secp_inst.lock();
		let sec = SecretKey::from_slice(&secp, &[seed; 32]).unwrap();
		let p = PublicKey::from_secret_key(&secp, &sec).unwrap();
		(sec, p)
	};
	let pubkey = serde_json::to_value(&ECDHPubkey {
		ecdh_pubkey: pubkey,
	})
	.unwrap();
	let reply = post(&json!({
		"jsonrpc": "2.0",
		"method": "init_secure_api",
		"params": { "ecdh_pubkey": pubkey },
		"id": 1
	}));
	let server: ECDHPubkey = serde_json::from_value(reply["result"]["Ok"].clone())
		.unwrap_or_else(|e| panic!("init_secure_api failed: {} / {}", e, reply));
	let secp_inst = static_secp_instance();
	let secp = secp_inst.lock();
	let mut shared = server.ecdh_pubkey;
	shared.mul_assign(&secp, &sec).unwrap();
	let x = shared.serialize_vec(&secp, true);
	SecretKey::from_slice(&secp, &x[1..]).unwrap()
}

fn envelope(id: u32, inner: &Value, key: &SecretKey) -> Value {
	EncryptedRequest::from_json(&JsonId::IntId(id), inner, key)
		.unwrap()
		.as_json_value()
		.unwrap()
}

/// Try to open an encrypted reply with `key`
fn open(reply: &Value, key: &SecretKey) -> Result<Value, String> {
	let enc: EncryptedResponse = serde_json::from_value(reply.clone())
		.map_err(|e| format!("not an encrypted reply ({}): {}", e, reply))?;
	enc.decrypt(key).map_err(|e| format!("{}", e))
}

fn wait_for_listener() {
	for _ in 0..100 {
		if std::net::TcpStream::connect(ADDR).is_ok() {
			return;
		}
		thread::sleep(Duration::from_millis(100));
	}
	panic!("owner listener did not come up");
}

fn account_labels(k: &SecretKey) -> Vec<String> {
	let reply = post(&envelope(
		1000,
		&json!({"jsonrpc":"2.0","method":"accounts","params":{"token":null},"id":1}),
		k,
	));
	let plain = open(&reply, k).expect("accounts");
	plain["result"]["Ok"]
		.as_array()
		.expect("accounts result")
		.iter()
		.map(|a| a["label"].as_str().unwrap().to_owned())
		.collect()
}

#[test]
fn c13_wrong_envelope_method_and_array_envelopes_are_refused() {
	let test_dir = "test_output/c13_finding2";
	setup(test_dir);
	setup_global_chain_type();

	let mut wallet_proxy = create_wallet_proxy(test_dir);
	let stopper = wallet_proxy.running.clone();
	create_wallet_and_add!(
		client1,
		wallet1,
		mask1_i,
		test_dir,
		"wallet1",
		None,
		&mut wallet_proxy,
		false
	);
	let _ = (client1, mask1_i);
	thread::spawn(move || {
		if let Err(e) = wallet_proxy.run() {
			error!("Wallet Proxy error: {}", e);
		}
	});
	let w = wallet1.clone();
	thread::spawn(move || {
		if let Err(e) = wallet::controller::owner_listener(
			w,
			Arc::new(Mutex::new(None)),
			ADDR,
			None,
			None,
			Some(false),
			None,
			false,
		) {
			error!("owner listener: {}", e);
		}
	});
	wait_for_listener();

	let k1 = key_exchange(0x11);
	let inner = |label: &str| {
		json!({
			"jsonrpc":"2.0",
			"method":"create_account_path",
			"params":{"token":null,"label":label},
			"id":1
		})
	};
	assert_eq!(account_labels(&k1), vec!["default".to_owned()]);

	let mut violations: Vec<String> = vec![];

	// (a) envelope with the wrong method (and a wrong jsonrpc version for good measure)
	let mut env = envelope(1, &inner("wrong_envelope_method"), &k1);
	env["method"] = json!("this_is_not_encrypted_request_v3");
	env["jsonrpc"] = json!("0.1");
	let reply = post(&env);
	println!("(a) request  {}", env);
	println!("(a) reply    {}", reply);
	if reply.get("error").is_none() {
		violations.push(format!(
			"(a) an envelope with method 'this_is_not_encrypted_request_v3' was not answered with an error but with {:?}",
			open(&reply, &k1)
		));
	}

	// (b) the request body is a JSON array (what JSON-RPC calls a batch)
	let env = envelope(2, &inner("array_envelope"), &k1);
	let arr = json!([
		"2.0",
		"whatever",
		2,
		[env["params"]["nonce"].clone(), env["params"]["body_enc"].clone()]
	]);
	let reply = post(&arr);
	println!("(b) request  {}", arr);
	println!("(b) reply    {}", reply);
	if reply.get("error").is_none() {
		violations.push(format!(
			"(b) a request body that is a JSON array was not answered with an error but with {:?}",
			open(&reply, &k1)
		));
	}

	let labels = account_labels(&k1);
	println!("accounts afterwards: {:?}", labels);
	for l in &["wrong_envelope_method", "array_envelope"] {
		if labels.iter().any(|x| x == l) {
			violations.push(format!(
				"the malformed envelope changed the wallet: account '{}' was created",
				l
			));
		}
	}

	stopper.store(false, std::sync::atomic::Ordering::Relaxed);
	thread::sleep(Duration::from_millis(200));
	clean_output_dir(test_dir);

	assert!(
		violations.is_empty(),
		"envelopes with a wrong method and array/batch bodies must be answered with an error and \
		 change nothing, but:\n - {}",
		violations.join("\n - ")
	);
}
