// C15 finding 2: a coinbase re-requested for the key of a candidate that has
// meanwhile been mined (the wallet has just not looked at the node since) is built
// with that same key again: two outputs on chain share one derivation path / blinding key.

#[macro_use]
extern crate log;
extern crate grin_wallet_controller as wallet;
extern crate grin_wallet_impls as impls;

use grin_core as core;
use grin_keychain as keychain;

use grin_wallet_libwallet as libwallet;
use impls::test_framework::{self, LocalWalletClient};
use keychain::{Keychain, SwitchCommitmentType};
use libwallet::{BlockFees, InitTxArgs, Slate};
use std::sync::atomic::Ordering;
use std::thread;
use std::time::Duration;

#[macro_use]
mod common;
use common::{clean_output_dir, create_wallet_proxy, setup};

fn coinbase_rerequest_impl(test_dir: &'static str) -> Result<(), libwallet::Error> {
	let mut wallet_proxy = create_wallet_proxy(test_dir);
	let chain = wallet_proxy.chain.clone();
	let stopper = wallet_proxy.running.clone();

	// the mining wallet
	create_wallet_and_add!(
		client1,
		wallet1,
		mask1_i,
		test_dir,
		"wallet1",
		None,
		&mut wallet_proxy,
		false
	);
	let mask1 = (&mask1_i).as_ref();
	// somebody to pay, so that a block carries fees
	create_wallet_and_add!(
		client2,
		wallet2,
		mask2_i,
		test_dir,
		"wallet2",
		None,
		&mut wallet_proxy,
		false
	);
	let _mask2 = (&mask2_i).as_ref();
	let _ = &client2;

	thread::spawn(move || {
		if let Err(e) = wallet_proxy.run() {
			error!("Wallet Proxy error: {}", e);
		}
	});

	let reward = core::consensus::REWARD;

	// wallet1 mines 6 blocks (keys m/0/0/0 .. m/0/0/5)
	test_framework::award_blocks_to_wallet(&chain, wallet1.clone(), mask1, 6, false)?;

	// a finalized, not yet posted payment of wallet1 to wallet2: it will be mined in block 8
	let mut slate = Slate::blank(2, false);
	wallet::controller::owner_single_use(Some(wallet1.clone()), mask1, None, |api, m| {
		let (refreshed, info) = api.retrieve_summary_info(m, true, 1)?;
		assert!(refreshed);
		assert_eq!(info.last_confirmed_height, 6);
		let args = InitTxArgs {
			src_acct_name: None,
			amount: reward / 2,
			minimum_confirmations: 1,
			max_outputs: 500,
			num_change_outputs: 1,
			selection_strategy_is_use_all: false,
			..Default::default()
		};
		let s = api.init_send_tx(m, args)?;
		let s = client1.send_tx_slate_direct("wallet2", &s)?;
		api.tx_lock_outputs(m, &s)?;
		slate = api.finalize_tx(m, &s)?;
		Ok(())
	})?;
	let tx = slate.tx_or_err()?.clone();
	let fee = tx.fee();
	assert!(fee > 0);

	// The node asks wallet1's foreign API for the coinbase of block 7 (no key named) ...
	let mut cb7 = None;
	wallet::controller::foreign_single_use(wallet1.clone(), mask1_i.clone(), |api| {
		cb7 = Some(api.build_coinbase(&BlockFees {
			fees: 0,
			height: 7,
			key_id: None,
		})?);
		Ok(())
	})?;
	let cb7 = cb7.unwrap();
	let key7 = cb7.key_id.clone().unwrap();
	// ... and block 7 is mined with it: this coinbase is on chain now.
	test_framework::add_block_with_reward(&chain, &[], cb7.output.clone(), cb7.kernel.clone());
	assert_eq!(chain.head().unwrap().height, 7);

	// The node now asks for the coinbase of block 8, and still names the key of the
	// candidate it got last (a mining node hands the key of its last candidate back with
	// every re-request; the wallet has not contacted the node since block 7 was found, so
	// its record of that candidate still says 'Unconfirmed')
	let mut cb8 = None;
	wallet::controller::foreign_single_use(wallet1.clone(), mask1_i.clone(), |api| {
		cb8 = Some(api.build_coinbase(&BlockFees {
			fees: fee,
			height: 8,
			key_id: Some(key7.clone()),
		})?);
		Ok(())
	})?;
	let cb8 = cb8.unwrap();
	let key8 = cb8.key_id.clone().unwrap();
	// block 8 is mined with it (and with the payment)
	test_framework::add_block_with_reward(&chain, &[tx], cb8.output.clone(), cb8.kernel.clone());
	assert_eq!(chain.head().unwrap().height, 8);

	// Both coinbase outputs are unspent outputs on chain
	let c7 = cb7.output.commitment();
	let c8 = cb8.output.commitment();
	assert!(c7 != c8);
	assert!(chain.get_unspent(c7).unwrap().is_some());
	assert!(chain.get_unspent(c8).unwrap().is_some());

	// which derivation path is each of them built from?
	let kc = {
		wallet_inst!(wallet1, w);
		w.keychain(mask1)?
	};
	let c7_from_key7 = kc.commit(reward, &key7, SwitchCommitmentType::Regular)?;
	let c8_from_key8 = kc.commit(reward + fee, &key8, SwitchCommitmentType::Regular)?;
	assert_eq!(c7, c7_from_key7);
	assert_eq!(c8, c8_from_key8);
	// the BIP32 child key each of them is blinded with (before the switch commitment tweak)
	let sk7 = kc.derive_key(0, &key7, SwitchCommitmentType::None)?;
	let sk8 = kc.derive_key(0, &key8, SwitchCommitmentType::None)?;

	println!(
		"coinbase of block 7: key {} commit {:?}\ncoinbase of block 8: key {} commit {:?}",
		key7, c7, key8, c8
	);

	assert!(
		key7 != key8 && sk7 != sk8,
		"PROPERTY VIOLATED: the coinbase outputs of blocks 7 and 8 are two different outputs, \
		 both unspent on chain, and the wallet built both from the same key derivation path \
		 {} (same derived blinding key): expected the coinbase of block 8 to get a fresh path, because \
		 the candidate named by the node was not an unconfirmed candidate any more - it had been mined in block 7",
		key7
	);

	stopper.store(false, Ordering::Relaxed);
	thread::sleep(Duration::from_millis(200));
	Ok(())
}

#[test]
fn c15_coinbase_rerequest_after_candidate_was_mined() {
	let test_dir = "test_output/c15_finding2";
	setup(test_dir);
	if let Err(e) = coinbase_rerequest_impl(test_dir) {
		panic!("Libwallet Error: {}", e);
	}
	clean_output_dir(test_dir);
}
