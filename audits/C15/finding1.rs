// C15 finding 1: `scan` commits every output it restores from the chain on its own, but
// advances the child derivation indices (and restores the account paths) only at its very
// end, and only from the outputs it restored *in that run*. If a scan is cut short after the
// outputs were restored (here: the node becomes unreachable while `scan` is un-locking a stuck
// transaction; a crash at the same point has the same effect), the next - successful - scan
// finds nothing missing any more and never advances the indices: the wallet then hands out
// derivation paths that are already used by outputs on chain (and that it knows about).
//
// The test talks to the test chain through a node client that can be switched to
// "unreachable"; apart from that it only uses the public owner API.

#[macro_use]
extern crate log;
extern crate grin_wallet_controller as wallet;
extern crate grin_wallet_impls as impls;

use grin_core as core;
use grin_keychain as keychain;
use grin_util as util;

use grin_wallet_libwallet as libwallet;
use impls::test_framework::{self, LocalWalletClient, WalletProxy};
use impls::{DefaultLCProvider, DefaultWalletImpl};
use keychain::{ExtKeychain, Identifier, Keychain};
use libwallet::{
	InitTxArgs, IssueInvoiceTxArgs, NodeClient, NodeVersionInfo, OutputData, WalletInst,
};
use std::collections::HashMap;
use std::sync::atomic::{AtomicBool, Ordering};
use std::sync::Arc;
use std::thread;
use std::time::Duration;
use util::secp::key::SecretKey;
use util::secp::pedersen;
use util::{Mutex, ZeroingString};

#[macro_use]
mod common;
use common::{clean_output_dir, setup};

/// A node client that forwards everything to the test chain, unless the node is "down"
#[derive(Clone)]
struct FlakyClient {
	inner: LocalWalletClient,
	/// node unreachable: every request fails
	down: Arc<AtomicBool>,
	/// the node goes down right after it has served the next UTXO listing request
	go_down_after_listing: Arc<AtomicBool>,
}

impl FlakyClient {
	fn new(inner: LocalWalletClient) -> Self {
		FlakyClient {
			inner,
			down: Arc::new(AtomicBool::new(false)),
			go_down_after_listing: Arc::new(AtomicBool::new(false)),
		}
	}
	fn check(&self) -> Result<(), libwallet::Error> {
		if self.down.load(Ordering::SeqCst) {
			Err(libwallet::Error::ClientCallback(
				"node unreachable".to_owned(),
			))
		} else {
			Ok(())
		}
	}
}

impl NodeClient for FlakyClient {
	fn node_url(&self) -> &str {
		self.inner.node_url()
	}
	fn node_api_secret(&self) -> Option<String> {
		None
	}
	fn set_node_url(&mut self, _node_url: &str) {}
	fn set_node_api_secret(&mut self, _node_api_secret: Option<String>) {}
	fn get_version_info(&mut self) -> Option<NodeVersionInfo> {
		None
	}
	fn post_tx(&self, tx: &core::core::Transaction, fluff: bool) -> Result<(), libwallet::Error> {
		self.check()?;
		self.inner.post_tx(tx, fluff)
	}
	fn get_chain_tip(&self) -> Result<(u64, String), libwallet::Error> {
		self.check()?;
		self.inner.get_chain_tip()
	}
	fn get_outputs_from_node(
		&self,
		wallet_outputs: Vec<pedersen::Commitment>,
	) -> Result<HashMap<pedersen::Commitment, (String, u64, u64)>, libwallet::Error> {
		self.check()?;
		self.inner.get_outputs_from_node(wallet_outputs)
	}
	fn get_kernel(
		&mut self,
		excess: &pedersen::Commitment,
		min_height: Option<u64>,
		max_height: Option<u64>,
	) -> Result<Option<(core::core::TxKernel, u64, u64)>, libwallet::Error> {
		self.check()?;
		self.inner.get_kernel(excess, min_height, max_height)
	}
	fn get_outputs_by_pmmr_index(
		&self,
		start_height: u64,
		end_height: Option<u64>,
		max_outputs: u64,
	) -> Result<
		(
			u64,
			u64,
			Vec<(pedersen::Commitment, pedersen::RangeProof, bool, u64, u64)>,
		),
		libwallet::Error,
	> {
		self.check()?;
		let res = self
			.inner
			.get_outputs_by_pmmr_index(start_height, end_height, max_outputs);
		if self.go_down_after_listing.swap(false, Ordering::SeqCst) {
			self.down.store(true, Ordering::SeqCst);
		}
		res
	}
	fn height_range_to_pmmr_indices(
		&self,
		start_height: u64,
		end_height: Option<u64>,
	) -> Result<(u64, u64), libwallet::Error> {
		self.check()?;
		self.inner
			.height_range_to_pmmr_indices(start_height, end_height)
	}
}

type FlakyWallet = Arc<
	Mutex<
		Box<
			dyn WalletInst<
				'static,
				DefaultLCProvider<'static, FlakyClient, ExtKeychain>,
				FlakyClient,
				ExtKeychain,
			>,
		>,
	>,
>;

/// as `common::create_local_wallet`, for the client type above
fn create_flaky_wallet(
	test_dir: &str,
	name: &str,
	mnemonic: Option<ZeroingString>,
	client: FlakyClient,
) -> (FlakyWallet, Option<SecretKey>) {
	let mut wallet = Box::new(DefaultWalletImpl::<FlakyClient>::new(client).unwrap())
		as Box<
			dyn WalletInst<
				DefaultLCProvider<'static, FlakyClient, ExtKeychain>,
				FlakyClient,
				ExtKeychain,
			>,
		>;
	let lc = wallet.lc_provider().unwrap();
	let _ = lc.set_top_level_directory(&format!("{}/{}", test_dir, name));
	lc.create_wallet(None, mnemonic, 32, ZeroingString::from(""), false)
		.unwrap();
	let mask = lc
		.open_wallet(None, ZeroingString::from(""), false, false)
		.unwrap();
	(Arc::new(Mutex::new(wallet)), mask)
}

/// `inject_fault`: whether the node becomes unreachable during the first scan.
/// Returns the violations found (empty = property holds).
fn scan_cut_short_impl(
	test_dir: &'static str,
	inject_fault: bool,
) -> Result<Vec<String>, libwallet::Error> {
	let seed_phrase = "affair pistol cancel crush garment candy ancient flag work \
	                   market crush dry stand focus mutual weapon offer ceiling rival turn team spring \
	                   where swift";
	let seed_phrase = Some(ZeroingString::from(seed_phrase));

	let mut wallet_proxy: WalletProxy<
		DefaultLCProvider<FlakyClient, ExtKeychain>,
		FlakyClient,
		ExtKeychain,
	> = WalletProxy::new(test_dir);
	let chain = wallet_proxy.chain.clone();
	let stopper = wallet_proxy.running.clone();

	// Two wallets of one owner, initialised from the same seed phrase: "home" and "laptop".
	let home_inner = LocalWalletClient::new("home", wallet_proxy.tx.clone());
	let home_client = FlakyClient::new(home_inner.clone());
	let (home, home_mask_i) =
		create_flaky_wallet(test_dir, "home", seed_phrase.clone(), home_client.clone());
	wallet_proxy.add_wallet(
		"home",
		home_inner.get_send_instance(),
		home.clone(),
		home_mask_i.clone(),
	);
	let home_mask = (&home_mask_i).as_ref();

	let laptop_inner = LocalWalletClient::new("laptop", wallet_proxy.tx.clone());
	let laptop_client = FlakyClient::new(laptop_inner.clone());
	let (laptop, laptop_mask_i) =
		create_flaky_wallet(test_dir, "laptop", seed_phrase.clone(), laptop_client.clone());
	wallet_proxy.add_wallet(
		"laptop",
		laptop_inner.get_send_instance(),
		laptop.clone(),
		laptop_mask_i.clone(),
	);
	let laptop_mask = (&laptop_mask_i).as_ref();

	thread::spawn(move || {
		if let Err(e) = wallet_proxy.run() {
			error!("Wallet Proxy error: {}", e);
		}
	});

	let reward = core::consensus::REWARD;

	// 1. "home" mines 6 blocks into its default account: paths m/0/0/0 .. m/0/0/5
	test_framework::award_blocks_to_wallet(&chain, home.clone(), home_mask, 6, false)?;

	// 2. "home" starts a payment that is never completed: inputs locked, change unconfirmed
	wallet::controller::owner_single_use(Some(home.clone()), home_mask, None, |api, m| {
		let (refreshed, _) = api.retrieve_summary_info(m, true, 1)?;
		assert!(refreshed);
		let args = InitTxArgs {
			src_acct_name: None,
			amount: reward / 2,
			minimum_confirmations: 1,
			max_outputs: 500,
			num_change_outputs: 1,
			selection_strategy_is_use_all: true,
			..Default::default()
		};
		let slate = api.init_send_tx(m, args)?;
		api.tx_lock_outputs(m, &slate)?;
		Ok(())
	})?;

	// 3. "laptop" keeps to an account of its own, so that the two wallets never hand out the
	//    same path: account "laptop" = m/1/0. It mines 4 blocks: m/1/0/0 .. m/1/0/3 on chain.
	wallet::controller::owner_single_use(Some(laptop.clone()), laptop_mask, None, |api, m| {
		let p = api.create_account_path(m, "laptop")?;
		assert_eq!(p, ExtKeychain::derive_key_id(2, 1, 0, 0, 0));
		api.set_active_account(m, "laptop")?;
		Ok(())
	})?;
	test_framework::award_blocks_to_wallet(&chain, laptop.clone(), laptop_mask, 4, false)?;

	// 4. The owner runs `scan` with delete_unconfirmed on "home", to release the stuck funds
	//    and to pick up what "laptop" has mined.
	if inject_fault {
		// During this scan the node becomes unreachable, right after it has served the UTXO listing
		home_client
			.go_down_after_listing
			.store(true, Ordering::SeqCst);
		let res = wallet::controller::owner_single_use(
			Some(home.clone()),
			home_mask,
			None,
			|api, m| api.scan(m, None, true),
		);
		println!("first scan (node went away): {:?}", res);
		assert!(
			res.is_err(),
			"test setup: the scan was expected to fail when the node goes away"
		);
		assert!(home_client.down.load(Ordering::SeqCst));
		{
			wallet_inst!(home, w);
			let restored: Vec<String> = w
				.iter()
				.filter(|o| o.mmr_index.is_some())
				.map(|o| format!("{}", o.key_id))
				.collect();
			println!("outputs restored by the scan that failed: {:?}", restored);
			println!("accounts after the scan that failed: {:?}", w.acct_path_iter().collect::<Vec<_>>());
		}
		// the node is back: the owner simply runs the scan again, and it succeeds
		home_client.down.store(false, Ordering::SeqCst);
	}
	wallet::controller::owner_single_use(Some(home.clone()), home_mask, None, |api, m| {
		api.scan(m, None, true)?;
		// and a normal update for good measure
		let (refreshed, _) = api.retrieve_summary_info(m, true, 1)?;
		assert!(refreshed);
		Ok(())
	})?;

	// The wallet's state after the successful scan
	let mut violations = vec![];
	{
		wallet_inst!(home, w);
		let outputs: Vec<OutputData> = w.iter().collect();
		let mut max_on_chain: HashMap<Identifier, u32> = HashMap::new();
		for o in outputs.iter().filter(|o| o.mmr_index.is_some()) {
			let e = max_on_chain.entry(o.root_key_id.clone()).or_insert(0);
			if o.n_child > *e {
				*e = o.n_child;
			}
		}
		println!("accounts: {:?}", w.acct_path_iter().collect::<Vec<_>>());
		for (root, max) in max_on_chain.iter() {
			let next = w.current_child_index(root)?;
			println!(
				"parent path {}: highest path restored from chain {}, next child index {}",
				root, max, next
			);
			if next <= *max {
				violations.push(format!(
					"after the scan the next path under {} is child {}, which is not beyond the \
					 highest path found on chain, child {}",
					root, next, max
				));
			}
		}
	}

	// 5. The owner adds an account, and asks to be paid into every account of "home"
	//    (an invoice creates the output that will receive the payment)
	let mut labels = vec![];
	wallet::controller::owner_single_use(Some(home.clone()), home_mask, None, |api, m| {
		let p = api.create_account_path(m, "savings")?;
		println!("new account 'savings' is at {}", p);
		labels = api.accounts(m)?.into_iter().map(|a| a.label).collect();
		for l in labels.iter() {
			let args = IssueInvoiceTxArgs {
				dest_acct_name: Some(l.clone()),
				amount: 1_000_000_000,
				..Default::default()
			};
			api.issue_invoice_tx(m, args)?;
		}
		Ok(())
	})?;

	// No derivation path may be recorded for two different outputs
	{
		wallet_inst!(home, w);
		let mut by_key: HashMap<Identifier, Vec<OutputData>> = HashMap::new();
		for o in w.iter() {
			by_key.entry(o.key_id.clone()).or_insert(vec![]).push(o);
		}
		for (k, outs) in by_key.iter() {
			if outs.len() > 1 {
				violations.push(format!(
					"path {} (account path {}) is used by {} different outputs: {}",
					k,
					outs[0].root_key_id,
					outs.len(),
					outs.iter()
						.map(|o| format!(
							"[value {} status {} height {} coinbase {} mmr_index {:?} commit {:?}]",
							o.value, o.status, o.height, o.is_coinbase, o.mmr_index, o.commit
						))
						.collect::<Vec<_>>()
						.join(" ")
				));
			}
		}
	}

	stopper.store(false, Ordering::Relaxed);
	thread::sleep(Duration::from_millis(200));
	Ok(violations)
}

/// Control: the same history without the fault satisfies the property
#[test]
fn c15_scan_completes_control() {
	let test_dir = "test_output/c15_finding1_control";
	setup(test_dir);
	let violations = match scan_cut_short_impl(test_dir, false) {
		Ok(v) => v,
		Err(e) => panic!("Libwallet Error: {}", e),
	};
	assert!(violations.is_empty(), "{:#?}", violations);
	clean_output_dir(test_dir);
}

#[test]
fn c15_scan_cut_short_then_repeated() {
	let test_dir = "test_output/c15_finding1";
	setup(test_dir);
	let violations = match scan_cut_short_impl(test_dir, true) {
		Ok(v) => v,
		Err(e) => panic!("Libwallet Error: {}", e),
	};
	assert!(
		violations.is_empty(),
		"PROPERTY VIOLATED: after a scan that was cut short and then repeated successfully, \
		 expected the next path of every account to lie beyond every path found on chain and no \
		 path to be assigned to two outputs, but: {:#?}",
		violations
	);
	clean_output_dir(test_dir);
}
