// C15 finding 3: two processes working on the same wallet directory (the normal deployment:
// `grin-wallet listen` serving the foreign API while `grin-wallet send/invoice/...` or the
// owner API runs as a separate process) can be handed the same derivation path, because
// `LMDBBackend::next_child` (impls/src/backends/lmdb.rs) reads the child index in one LMDB
// transaction and writes the incremented value in a second one. The wallet mutex only
// serialises callers inside one process, and the LMDB writer lock is released between the two
// transactions.
//
// The test creates a wallet, then starts two OS processes (this test binary, re-executed) that
// both open that wallet directory and allocate paths, and checks that no path was handed out
// twice.
//
// By default the workers call `WalletBackend::next_child` - the single function through which
// receive_tx, change outputs, coinbases, invoices and build_output all get their path - in a
// loop, because the window between its two transactions is short compared to the ~50-100ms a
// complete operation takes (range proof). With C15_API_OPS=1 the workers instead run complete
// operations (foreign build_coinbase in one process, owner build_output in the other): the
// race is the same but is then hit only rarely (seen once in 16000 operations here).

extern crate grin_wallet_controller as wallet;
extern crate grin_wallet_impls as impls;

use grin_core as core;

use self::core::core::OutputFeatures;
use self::core::global;
use grin_wallet_libwallet as libwallet;
use impls::test_framework::LocalWalletClient;
use libwallet::BlockFees;
use std::collections::HashMap;
use std::fs;
use std::io::Write;
use std::path::Path;
use std::process::Command;
use std::sync::mpsc::channel;
use std::thread;
use std::time::{Duration, Instant};

#[macro_use]
mod common;
use common::{clean_output_dir, setup};

const ROLES: [&str; 2] = ["listener", "owner"];

fn ops_per_process() -> usize {
	match std::env::var("C15_API_OPS") {
		Ok(_) => 2000,
		Err(_) => 1500,
	}
}

fn wait_for(path: &str) {
	let start = Instant::now();
	while !Path::new(path).exists() {
		if start.elapsed() > Duration::from_secs(120) {
			panic!("timed out waiting for {}", path);
		}
		thread::sleep(Duration::from_millis(2));
	}
}

/// Body of a worker process; does nothing when the test binary is run normally
#[test]
fn c15_worker_process() {
	let dir = match std::env::var("C15_WORKER_DIR") {
		Ok(d) => d,
		Err(_) => return,
	};
	let role = std::env::var("C15_WORKER_ROLE").unwrap();
	let api_ops = std::env::var("C15_API_OPS").is_ok();
	global::set_local_chain_type(global::ChainTypes::AutomatedTesting);

	// open the existing wallet (no node is needed for what follows)
	let (tx, _rx) = channel();
	let client = LocalWalletClient::new("wallet1", tx);
	let (wallet1, mask1_i) = common::open_local_wallet(&dir, "wallet1", client, false);
	let mask1 = (&mask1_i).as_ref();

	fs::write(format!("{}/ready_{}", dir, role), b"").unwrap();
	wait_for(&format!("{}/go", dir));

	let mut keys = vec![];
	for i in 0..ops_per_process() {
		if !api_ops {
			// the path allocation step of every output-creating operation
			let mut w_lock = wallet1.lock();
			let w = w_lock.lc_provider().unwrap().wallet_inst().unwrap();
			keys.push(format!("{}", w.next_child(mask1).unwrap()));
		} else if role == "listener" {
			wallet::controller::foreign_single_use(wallet1.clone(), mask1_i.clone(), |api| {
				let cb = api.build_coinbase(&BlockFees {
					fees: 0,
					height: 1 + i as u64,
					key_id: None,
				})?;
				keys.push(format!("{}", cb.key_id.unwrap()));
				Ok(())
			})
			.unwrap();
		} else {
			wallet::controller::owner_single_use(Some(wallet1.clone()), mask1, None, |api, m| {
				let out = api.build_output(m, OutputFeatures::Plain, 1_000_000 + i as u64)?;
				keys.push(format!("{}", out.key_id));
				Ok(())
			})
			.unwrap();
		}
	}
	let mut f = fs::File::create(format!("{}/keys_{}", dir, role)).unwrap();
	f.write_all(keys.join("\n").as_bytes()).unwrap();
	f.sync_all().unwrap();
}

#[test]
fn c15_two_processes_one_wallet_dir() {
	let test_dir = "test_output/c15_finding3";
	setup(test_dir);

	// create the wallet, then close it again
	{
		let (tx, _rx) = channel();
		let client = LocalWalletClient::new("wallet1", tx);
		let (wallet1, _mask) = common::create_local_wallet(test_dir, "wallet1", None, client, false);
		drop(wallet1);
	}

	let exe = std::env::current_exe().unwrap();
	let mut children = vec![];
	for role in ROLES.iter() {
		let child = Command::new(&exe)
			.args(&["c15_worker_process", "--exact", "--nocapture"])
			.env("C15_WORKER_DIR", test_dir)
			.env("C15_WORKER_ROLE", role)
			.spawn()
			.expect("spawn worker");
		children.push(child);
	}
	for role in ROLES.iter() {
		wait_for(&format!("{}/ready_{}", test_dir, role));
	}
	fs::write(format!("{}/go", test_dir), b"").unwrap();
	for mut c in children {
		let status = c.wait().unwrap();
		assert!(status.success(), "worker process failed");
	}

	let files: Vec<String> = ROLES
		.iter()
		.map(|r| fs::read_to_string(format!("{}/keys_{}", test_dir, r)).unwrap())
		.collect();
	let mut handed_out: HashMap<String, Vec<&str>> = HashMap::new();
	let mut total = 0;
	for (i, keys) in files.iter().enumerate() {
		for k in keys.lines() {
			handed_out
				.entry(k.to_owned())
				.or_insert(vec![])
				.push(ROLES[i]);
			total += 1;
		}
	}
	assert_eq!(total, 2 * ops_per_process());
	let mut dups: Vec<(&String, &Vec<&str>)> =
		handed_out.iter().filter(|(_, v)| v.len() > 1).collect();
	dups.sort();
	println!(
		"{} paths were handed out by the two processes, {} of them distinct",
		total,
		handed_out.len()
	);
	assert!(
		dups.is_empty(),
		"PROPERTY VIOLATED: two processes working on one wallet directory asked for {} paths in \
		 the default account and every request was expected to get a path of its own, but {} \
		 paths were handed out twice, e.g. {:?}",
		total,
		dups.len(),
		dups.iter().take(4).collect::<Vec<_>>()
	);
	clean_output_dir(test_dir);
}
