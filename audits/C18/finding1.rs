// C18 finding 1: an incoming payment that carried a TTL and was reorganised away after
// the TTL height is reported as reverted by `scan`, but the very next ordinary refresh
// (retrieve_summary_info / retrieve_txs / retrieve_outputs with refresh_from_node = true,
// or the updater thread) cancels it because its TTL has "expired": the entry becomes
// TxReceivedCancelled, its output record is deleted, and once the transaction is mined
// again an ordinary refresh never reports it confirmed / spendable again.
//
// Place in controller/tests/ and run with
//   cargo test --offline -j 2 -p grin_wallet_controller --test finding1 -- --nocapture

#[macro_use]
mod common;

use common::{clean_output_dir, create_wallet_proxy, setup};
use grin_core as core;
use grin_core::core::hash::Hashed;
use grin_core::global;
use grin_wallet_controller::controller::owner_single_use as owner;
use grin_wallet_impls::test_framework::*;
use grin_wallet_libwallet as libwallet;
use grin_wallet_libwallet::api_impl::types::InitTxArgs;
use libwallet::{OutputStatus, TxLogEntryType};
use log::error;
use std::sync::atomic::Ordering;
use std::thread;
use std::time::Duration;

fn ttl_reverted_impl(test_dir: &'static str) -> Result<(), libwallet::Error> {
	let mut wallet_proxy = create_wallet_proxy(test_dir);
	let stopper = wallet_proxy.running.clone();
	let chain = wallet_proxy.chain.clone();
	let test_dir2 = format!("{}/chain2", test_dir);
	let wallet_proxy2 = create_wallet_proxy(&test_dir2);
	let chain2 = wallet_proxy2.chain.clone();
	let stopper2 = wallet_proxy2.running.clone();

	create_wallet_and_add!(
		client1,
		wallet1,
		mask1_i,
		test_dir,
		"wallet1",
		None,
		&mut wallet_proxy,
		false
	);
	let mask1 = mask1_i.as_ref();
	create_wallet_and_add!(
		client2,
		wallet2,
		mask2_i,
		test_dir,
		"wallet2",
		None,
		&mut wallet_proxy,
		false
	);
	let mask2 = mask2_i.as_ref();
	let _ = &client2;

	std::thread::spawn(move || {
		if let Err(e) = wallet_proxy.run() {
			error!("Wallet Proxy error: {}", e);
		}
	});

	let reward = core::consensus::REWARD;
	let cm = global::coinbase_maturity() as u64;
	let sent = reward * 2;

	// 10 blocks to wallet1
	let bh = 10u64;
	award_blocks_to_wallet(&chain, wallet1.clone(), mask1, bh as usize, false)?;

	// wallet2 knows the chain is at height 10
	owner(Some(wallet2.clone()), mask2, None, |api, m| {
		let (refreshed, info) = api.retrieve_summary_info(m, true, 1)?;
		assert!(refreshed);
		assert_eq!(info.last_confirmed_height, bh);
		Ok(())
	})?;

	// wallet1 pays wallet2, with a TTL of 3 blocks (cutoff height 13)
	let mut tx = None;
	owner(Some(wallet1.clone()), mask1, None, |api, m| {
		let args = InitTxArgs {
			src_acct_name: None,
			amount: sent,
			minimum_confirmations: cm,
			max_outputs: 500,
			num_change_outputs: 1,
			selection_strategy_is_use_all: false,
			ttl_blocks: Some(3),
			..Default::default()
		};
		let slate = api.init_send_tx(m, args)?;
		api.tx_lock_outputs(m, &slate)?;
		let slate = client1.send_tx_slate_direct("wallet2", &slate)?;
		let slate = api.finalize_tx(m, &slate)?;
		tx = slate.tx;
		Ok(())
	})?;
	let tx = tx.expect("tx from slate");

	owner(Some(wallet2.clone()), mask2, None, |api, m| {
		let (_, txs) = api.retrieve_txs(m, true, None, None, None)?;
		assert_eq!(txs.len(), 1);
		assert_eq!(txs[0].tx_type, TxLogEntryType::TxReceived);
		assert_eq!(txs[0].ttl_cutoff_height, Some(13));
		assert!(!txs[0].confirmed);
		Ok(())
	})?;

	// parallel chain shares blocks 1..=10
	for i in 0..bh {
		let hash = chain.get_header_by_height(i + 1).unwrap().hash();
		let block = chain.get_block(&hash).unwrap();
		process_block(&chain2, block);
	}

	// block 11 with the tx on the main chain (well before the TTL), without it on the fork
	let head = chain.head_header().unwrap();
	let block_with =
		create_block_for_wallet(&chain, head.clone(), &[tx.clone()], wallet1.clone(), mask1)?;
	let block_without = create_block_for_wallet(&chain, head, &[], wallet1.clone(), mask1)?;
	process_block(&chain, block_with.clone());
	process_block(&chain2, block_without.clone());
	let bh = bh + 1;

	// the payment is confirmed in time
	owner(Some(wallet2.clone()), mask2, None, |api, m| {
		let (refreshed, info) = api.retrieve_summary_info(m, true, 1)?;
		assert!(refreshed);
		assert_eq!(info.last_confirmed_height, bh);
		assert_eq!(info.total, sent);
		assert_eq!(info.amount_currently_spendable, sent);
		let (_, txs) = api.retrieve_txs(m, true, None, None, None)?;
		assert_eq!(txs[0].tx_type, TxLogEntryType::TxReceived);
		assert!(txs[0].confirmed);
		Ok(())
	})?;

	// the fork grows to height 13 (= the TTL cutoff) and replaces the main chain
	award_block_to_wallet(&chain2, &[], wallet1.clone(), mask1)?;
	award_block_to_wallet(&chain2, &[], wallet1.clone(), mask1)?;
	assert_eq!(chain2.head_header().unwrap().height, bh + 2);
	process_block(&chain, block_without.clone());
	assert_eq!(chain.head_header().unwrap(), block_with.header);
	for h in (bh + 1)..=(bh + 2) {
		let hash = chain2.get_header_by_height(h).unwrap().hash();
		process_block(&chain, chain2.get_block(&hash).unwrap());
	}
	assert_eq!(
		chain.head_header().unwrap(),
		chain2.head_header().unwrap(),
		"main chain reorganised onto the fork"
	);
	let bh = bh + 2;

	// the scan finds it reverted (this part works)
	owner(Some(wallet2.clone()), mask2, None, |api, m| {
		api.scan(m, None, false)?;
		let (_, txs) = api.retrieve_txs(m, false, None, None, None)?;
		assert_eq!(txs.len(), 1);
		assert_eq!(txs[0].tx_type, TxLogEntryType::TxReverted);
		let (_, info) = api.retrieve_summary_info(m, false, 1)?;
		assert_eq!(info.amount_reverted, sent);
		assert_eq!(info.total, 0);
		Ok(())
	})?;

	// ... but the next ordinary refresh must keep reporting it reverted
	let mut after_refresh = None;
	owner(Some(wallet2.clone()), mask2, None, |api, m| {
		let (refreshed, info) = api.retrieve_summary_info(m, true, 1)?;
		assert!(refreshed);
		assert_eq!(info.last_confirmed_height, bh);
		let (_, txs) = api.retrieve_txs(m, false, None, None, None)?;
		let (_, outs) = api.retrieve_outputs(m, true, false, None)?;
		println!(
			"after scan + ordinary refresh on the fork: tx_type={:?} confirmed={} amount_reverted={} total={} outputs={:?}",
			txs[0].tx_type,
			txs[0].confirmed,
			info.amount_reverted,
			info.total,
			outs.iter()
				.map(|o| (o.output.value, o.output.status.clone()))
				.collect::<Vec<_>>()
		);
		after_refresh = Some((txs[0].tx_type.clone(), info.amount_reverted, outs.len()));
		Ok(())
	})?;

	// the transaction is mined again on the new chain
	award_block_to_wallet(&chain, &[tx], wallet1.clone(), mask1)?;
	let bh = bh + 1;

	let mut after_remine = None;
	owner(Some(wallet2.clone()), mask2, None, |api, m| {
		let (refreshed, info) = api.retrieve_summary_info(m, true, 1)?;
		assert!(refreshed);
		assert_eq!(info.last_confirmed_height, bh);
		let (_, txs) = api.retrieve_txs(m, false, None, None, None)?;
		let (_, outs) = api.retrieve_outputs(m, true, false, None)?;
		println!(
			"after the tx is mined again + ordinary refresh: txs={:?} total={} spendable={} outputs={:?}",
			txs.iter()
				.map(|t| (t.id, t.tx_type.clone(), t.confirmed, t.tx_slate_id))
				.collect::<Vec<_>>(),
			info.total,
			info.amount_currently_spendable,
			outs.iter()
				.map(|o| (o.output.value, o.output.status.clone()))
				.collect::<Vec<_>>()
		);
		after_remine = Some((
			txs[0].tx_type.clone(),
			txs[0].confirmed,
			info.total,
			info.amount_currently_spendable,
			outs.iter()
				.filter(|o| o.output.status == OutputStatus::Unspent)
				.count(),
		));
		Ok(())
	})?;

	stopper.store(false, Ordering::Relaxed);
	stopper2.store(false, Ordering::Relaxed);
	thread::sleep(Duration::from_millis(500));

	let (ty, reverted, n_outs) = after_refresh.unwrap();
	assert_eq!(
		ty,
		TxLogEntryType::TxReverted,
		"a reorganised-away incoming payment must still be reported as reverted after an ordinary refresh (it was cancelled by the TTL check instead)"
	);
	assert_eq!(
		reverted, sent,
		"amount_reverted must still hold the reverted payment after an ordinary refresh"
	);
	assert_eq!(n_outs, 1, "the reverted output record must be kept");

	let (ty, confirmed, total, spendable, n_unspent) = after_remine.unwrap();
	assert_eq!(
		(ty, confirmed),
		(TxLogEntryType::TxReceived, true),
		"once mined again an ordinary refresh must report the payment as confirmed"
	);
	assert_eq!(total, sent, "re-mined payment must be in the total again");
	assert_eq!(spendable, sent, "re-mined payment must be spendable again");
	assert_eq!(n_unspent, 1);
	Ok(())
}

#[test]
fn c18_ttl_reverted_payment_is_cancelled_by_refresh() {
	let test_dir = "test_output/c18_finding1";
	setup(test_dir);
	if let Err(e) = ttl_reverted_impl(test_dir) {
		panic!("Libwallet Error: {}", e);
	}
	clean_output_dir(test_dir);
}
