// C18 finding 3: a wallet restored from its seed (or a second wallet sharing the seed) learns
// of an incoming payment through `scan`, which writes a confirmed TxReceived entry without a
// kernel excess. Revert detection (`find_reverted_kernels`) silently skips entries that have
// no kernel excess, so when that payment is reorganised away the restored wallet books the
// output as *Spent* and keeps reporting the transaction as a confirmed receipt; it is never
// reported as reverted. When the payment is mined again, the refresh's own look-back scan
// finds the "spent" output in the UTXO set, marks it unspent and *cancels* the log entry: the
// wallet then holds spendable funds whose only transaction is TxReceivedCancelled, i.e. the
// re-mined payment is not reported as confirmed.
//
// Place in controller/tests/ and run with
//   cargo test --offline -j 2 -p grin_wallet_controller --test finding3 -- --nocapture

#[macro_use]
mod common;

use common::{clean_output_dir, create_wallet_proxy, setup};
use grin_core as core;
use grin_core::core::hash::Hashed;
use grin_core::global;
use grin_util::ZeroingString;
use grin_wallet_controller::controller::owner_single_use as owner;
use grin_wallet_impls::test_framework::*;
use grin_wallet_libwallet as libwallet;
use grin_wallet_libwallet::api_impl::types::InitTxArgs;
use libwallet::{OutputStatus, TxLogEntryType};
use log::error;
use std::sync::atomic::Ordering;
use std::thread;
use std::time::Duration;

fn restored_wallet_revert_impl(test_dir: &'static str) -> Result<(), libwallet::Error> {
	let seed_phrase = "affair pistol cancel crush garment candy ancient flag work \
	                   market crush dry stand focus mutual weapon offer ceiling rival turn team spring \
	                   where swift";
	let seed_phrase = Some(ZeroingString::from(seed_phrase));
	let no_seed: Option<ZeroingString> = None;

	let mut wallet_proxy = create_wallet_proxy(test_dir);
	let stopper = wallet_proxy.running.clone();
	let chain = wallet_proxy.chain.clone();
	let test_dir2 = format!("{}/chain2", test_dir);
	let wallet_proxy2 = create_wallet_proxy(&test_dir2);
	let chain2 = wallet_proxy2.chain.clone();
	let stopper2 = wallet_proxy2.running.clone();

	create_wallet_and_add!(
		client1,
		wallet1,
		mask1_i,
		test_dir,
		"wallet1",
		no_seed,
		&mut wallet_proxy,
		false
	);
	let mask1 = mask1_i.as_ref();
	// the wallet that takes part in the exchange
	create_wallet_and_add!(
		client2,
		wallet2,
		mask2_i,
		test_dir,
		"wallet2",
		seed_phrase,
		&mut wallet_proxy,
		false
	);
	let mask2 = mask2_i.as_ref();
	// the same wallet restored from its seed on another machine
	create_wallet_and_add!(
		client2r,
		wallet2r,
		mask2r_i,
		test_dir,
		"wallet2r",
		seed_phrase,
		&mut wallet_proxy,
		false
	);
	let mask2r = mask2r_i.as_ref();
	let _ = (&client2, &client2r);

	std::thread::spawn(move || {
		if let Err(e) = wallet_proxy.run() {
			error!("Wallet Proxy error: {}", e);
		}
	});

	let reward = core::consensus::REWARD;
	let cm = global::coinbase_maturity() as u64;
	let sent = reward * 2;

	let bh = 10u64;
	award_blocks_to_wallet(&chain, wallet1.clone(), mask1, bh as usize, false)?;

	owner(Some(wallet2.clone()), mask2, None, |api, m| {
		let (refreshed, info) = api.retrieve_summary_info(m, true, 1)?;
		assert!(refreshed);
		assert_eq!(info.last_confirmed_height, bh);
		Ok(())
	})?;

	// wallet1 pays wallet2
	let mut tx = None;
	owner(Some(wallet1.clone()), mask1, None, |api, m| {
		let args = InitTxArgs {
			src_acct_name: None,
			amount: sent,
			minimum_confirmations: cm,
			max_outputs: 500,
			num_change_outputs: 1,
			selection_strategy_is_use_all: false,
			..Default::default()
		};
		let slate = api.init_send_tx(m, args)?;
		api.tx_lock_outputs(m, &slate)?;
		let slate = client1.send_tx_slate_direct("wallet2", &slate)?;
		let slate = api.finalize_tx(m, &slate)?;
		tx = slate.tx;
		Ok(())
	})?;
	let tx = tx.expect("tx from slate");

	// parallel chain shares blocks 1..=10
	for i in 0..bh {
		let hash = chain.get_header_by_height(i + 1).unwrap().hash();
		let block = chain.get_block(&hash).unwrap();
		process_block(&chain2, block);
	}

	// block 11 with the tx on the main chain, without it on the fork
	let head = chain.head_header().unwrap();
	let block_with =
		create_block_for_wallet(&chain, head.clone(), &[tx.clone()], wallet1.clone(), mask1)?;
	let block_without = create_block_for_wallet(&chain, head, &[], wallet1.clone(), mask1)?;
	process_block(&chain, block_with.clone());
	process_block(&chain2, block_without.clone());
	let bh = bh + 1;

	// the restored wallet scans the chain and finds the confirmed payment
	owner(Some(wallet2r.clone()), mask2r, None, |api, m| {
		api.scan(m, None, false)?;
		let (refreshed, info) = api.retrieve_summary_info(m, true, 1)?;
		assert!(refreshed);
		assert_eq!(info.last_confirmed_height, bh);
		assert_eq!(info.total, sent);
		assert_eq!(info.amount_currently_spendable, sent);
		let (_, txs) = api.retrieve_txs(m, true, None, None, None)?;
		assert_eq!(txs.len(), 1);
		assert_eq!(txs[0].tx_type, TxLogEntryType::TxReceived);
		assert!(txs[0].confirmed);
		Ok(())
	})?;

	// the fork grows and replaces the main chain: the incoming payment is gone
	award_block_to_wallet(&chain2, &[], wallet1.clone(), mask1)?;
	assert_eq!(chain2.head_header().unwrap().height, bh + 1);
	let new_head = chain2
		.get_block(&chain2.head_header().unwrap().hash())
		.unwrap();
	process_block(&chain, block_without.clone());
	assert_eq!(chain.head_header().unwrap(), block_with.header);
	process_block(&chain, new_head.clone());
	assert_eq!(chain.head_header().unwrap(), new_head.header);
	let bh = bh + 1;

	// scan + full refresh on the fork
	let mut after_scan = None;
	owner(Some(wallet2r.clone()), mask2r, None, |api, m| {
		api.scan(m, None, false)?;
		let (refreshed, info) = api.retrieve_summary_info(m, true, 1)?;
		assert!(refreshed);
		assert_eq!(info.last_confirmed_height, bh);
		let (_, txs) = api.retrieve_txs(m, true, None, None, None)?;
		let (_, outs) = api.retrieve_outputs(m, true, false, None)?;
		println!(
			"restored wallet after scan on the fork: txs={:?} amount_reverted={} total={} spendable={} outputs={:?}",
			txs.iter()
				.map(|t| (t.id, t.tx_type.clone(), t.confirmed, t.kernel_excess.is_some()))
				.collect::<Vec<_>>(),
			info.amount_reverted,
			info.total,
			info.amount_currently_spendable,
			outs.iter()
				.map(|o| (o.output.value, o.output.status.clone()))
				.collect::<Vec<_>>()
		);
		assert_eq!(txs.len(), 1);
		after_scan = Some((
			txs[0].tx_type.clone(),
			txs[0].confirmed,
			info.amount_reverted,
			info.total,
			outs.iter()
				.find(|o| o.output.value == sent)
				.map(|o| o.output.status.clone()),
		));
		Ok(())
	})?;

	// the transaction is mined again on the new chain
	award_block_to_wallet(&chain, &[tx], wallet1.clone(), mask1)?;
	let bh = bh + 1;

	let mut after_remine = None;
	owner(Some(wallet2r.clone()), mask2r, None, |api, m| {
		let (refreshed, info) = api.retrieve_summary_info(m, true, 1)?;
		assert!(refreshed);
		assert_eq!(info.last_confirmed_height, bh);
		let (_, txs) = api.retrieve_txs(m, true, None, None, None)?;
		let (_, outs) = api.retrieve_outputs(m, true, false, None)?;
		println!(
			"restored wallet after the tx is mined again + ordinary refresh: txs={:?} total={} spendable={} outputs={:?}",
			txs.iter()
				.map(|t| (t.id, t.tx_type.clone(), t.confirmed))
				.collect::<Vec<_>>(),
			info.total,
			info.amount_currently_spendable,
			outs.iter()
				.map(|o| (o.output.value, o.output.status.clone()))
				.collect::<Vec<_>>()
		);
		let confirmed_receipts = txs
			.iter()
			.filter(|t| t.tx_type == TxLogEntryType::TxReceived && t.confirmed)
			.count();
		after_remine = Some((confirmed_receipts, info.total, info.amount_currently_spendable));
		Ok(())
	})?;

	stopper.store(false, Ordering::Relaxed);
	stopper2.store(false, Ordering::Relaxed);
	thread::sleep(Duration::from_millis(500));

	let (ty, confirmed, reverted, total, status) = after_scan.unwrap();
	let (confirmed_receipts, total2, spendable2) = after_remine.unwrap();

	assert_eq!(total, 0, "the reorganised-away payment must not be in the total");
	// second half of the property (checked first so that both halves show in the output)
	assert_eq!(
		(total2, spendable2),
		(sent, sent),
		"once mined again the payment must be in the total and spendable"
	);
	assert_eq!(
		confirmed_receipts, 1,
		"once mined again an ordinary refresh must report the payment as a confirmed receipt (it is left TxReceivedCancelled while its output is spendable)"
	);
	assert_eq!(
		(ty, confirmed),
		(TxLogEntryType::TxReverted, false),
		"the incoming payment was reorganised away: scan must report it as reverted, not as a confirmed receipt"
	);
	assert_eq!(
		reverted, sent,
		"amount_reverted must hold the reorganised-away payment"
	);
	assert_eq!(
		status,
		Some(OutputStatus::Reverted),
		"the output of the reorganised-away payment must be Reverted (nothing spent it)"
	);
	Ok(())
}

#[test]
fn c18_restored_wallet_never_reports_revert() {
	let test_dir = "test_output/c18_finding3";
	setup(test_dir);
	if let Err(e) = restored_wallet_revert_impl(test_dir) {
		panic!("Libwallet Error: {}", e);
	}
	clean_output_dir(test_dir);
}
