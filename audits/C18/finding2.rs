// C18 finding 2: revert detection looks only at outputs that are currently `Unspent` and
// whose `tx_log_entry` still points at the TxReceived entry. As soon as the recipient has
// reserved the received output for a payment of its own (init_send_tx + tx_lock_outputs),
// the output's `tx_log_entry` is overwritten with the id of that TxSent entry - and it
// stays overwritten when that payment is cancelled and the output is Unspent again.
// If the incoming payment is then reorganised away, scan books the output as *Spent* and
// keeps reporting the incoming transaction as a confirmed TxReceived: it is never
// reported as reverted (amount_reverted stays 0), although nothing ever spent it.
//
// Two tests: the recipient's own payment was cancelled before the reorganisation
// (output Unspent again), and the recipient's own payment is still pending (output Locked).
//
// Place in controller/tests/ and run with
//   cargo test --offline -j 2 -p grin_wallet_controller --test finding2 -- --nocapture

#[macro_use]
mod common;

use common::{clean_output_dir, create_wallet_proxy, setup};
use grin_core as core;
use grin_core::core::hash::Hashed;
use grin_core::global;
use grin_wallet_controller::controller::owner_single_use as owner;
use grin_wallet_impls::test_framework::*;
use grin_wallet_libwallet as libwallet;
use grin_wallet_libwallet::api_impl::types::InitTxArgs;
use libwallet::{OutputStatus, TxLogEntryType};
use log::error;
use std::sync::atomic::Ordering;
use std::thread;
use std::time::Duration;

fn reserved_then_reverted_impl(
	test_dir: &'static str,
	cancel_own_payment: bool,
) -> Result<(), libwallet::Error> {
	let mut wallet_proxy = create_wallet_proxy(test_dir);
	let stopper = wallet_proxy.running.clone();
	let chain = wallet_proxy.chain.clone();
	let test_dir2 = format!("{}/chain2", test_dir);
	let wallet_proxy2 = create_wallet_proxy(&test_dir2);
	let chain2 = wallet_proxy2.chain.clone();
	let stopper2 = wallet_proxy2.running.clone();

	create_wallet_and_add!(
		client1,
		wallet1,
		mask1_i,
		test_dir,
		"wallet1",
		None,
		&mut wallet_proxy,
		false
	);
	let mask1 = mask1_i.as_ref();
	create_wallet_and_add!(
		client2,
		wallet2,
		mask2_i,
		test_dir,
		"wallet2",
		None,
		&mut wallet_proxy,
		false
	);
	let mask2 = mask2_i.as_ref();
	let _ = &client2;

	std::thread::spawn(move || {
		if let Err(e) = wallet_proxy.run() {
			error!("Wallet Proxy error: {}", e);
		}
	});

	let reward = core::consensus::REWARD;
	let cm = global::coinbase_maturity() as u64;
	let sent = reward * 2;

	let bh = 10u64;
	award_blocks_to_wallet(&chain, wallet1.clone(), mask1, bh as usize, false)?;

	owner(Some(wallet2.clone()), mask2, None, |api, m| {
		let (refreshed, info) = api.retrieve_summary_info(m, true, 1)?;
		assert!(refreshed);
		assert_eq!(info.last_confirmed_height, bh);
		Ok(())
	})?;

	// wallet1 pays wallet2
	let mut tx = None;
	owner(Some(wallet1.clone()), mask1, None, |api, m| {
		let args = InitTxArgs {
			src_acct_name: None,
			amount: sent,
			minimum_confirmations: cm,
			max_outputs: 500,
			num_change_outputs: 1,
			selection_strategy_is_use_all: false,
			..Default::default()
		};
		let slate = api.init_send_tx(m, args)?;
		api.tx_lock_outputs(m, &slate)?;
		let slate = client1.send_tx_slate_direct("wallet2", &slate)?;
		let slate = api.finalize_tx(m, &slate)?;
		tx = slate.tx;
		Ok(())
	})?;
	let tx = tx.expect("tx from slate");

	// parallel chain shares blocks 1..=10
	for i in 0..bh {
		let hash = chain.get_header_by_height(i + 1).unwrap().hash();
		let block = chain.get_block(&hash).unwrap();
		process_block(&chain2, block);
	}

	// block 11 with the tx on the main chain, without it on the fork
	let head = chain.head_header().unwrap();
	let block_with =
		create_block_for_wallet(&chain, head.clone(), &[tx.clone()], wallet1.clone(), mask1)?;
	let block_without = create_block_for_wallet(&chain, head, &[], wallet1.clone(), mask1)?;
	process_block(&chain, block_with.clone());
	process_block(&chain2, block_without.clone());
	let bh = bh + 1;

	// the payment is confirmed
	let mut received_id = None;
	owner(Some(wallet2.clone()), mask2, None, |api, m| {
		let (refreshed, info) = api.retrieve_summary_info(m, true, 1)?;
		assert!(refreshed);
		assert_eq!(info.last_confirmed_height, bh);
		assert_eq!(info.total, sent);
		assert_eq!(info.amount_currently_spendable, sent);
		let (_, txs) = api.retrieve_txs(m, true, None, None, None)?;
		assert_eq!(txs.len(), 1);
		assert_eq!(txs[0].tx_type, TxLogEntryType::TxReceived);
		assert!(txs[0].confirmed);
		assert!(txs[0].kernel_excess.is_some());
		received_id = Some(txs[0].id);
		Ok(())
	})?;
	let received_id = received_id.unwrap();

	// wallet2 starts a payment of its own from the received funds (never posted) ...
	owner(Some(wallet2.clone()), mask2, None, |api, m| {
		let args = InitTxArgs {
			src_acct_name: None,
			amount: reward,
			minimum_confirmations: 1,
			max_outputs: 500,
			num_change_outputs: 1,
			selection_strategy_is_use_all: false,
			..Default::default()
		};
		let slate = api.init_send_tx(m, args)?;
		api.tx_lock_outputs(m, &slate)?;
		let (_, info) = api.retrieve_summary_info(m, false, 1)?;
		assert_eq!(info.amount_locked, sent);
		if cancel_own_payment {
			// ... and thinks better of it
			api.cancel_tx(m, None, Some(slate.id))?;
			let (_, info) = api.retrieve_summary_info(m, true, 1)?;
			assert_eq!(info.total, sent);
			assert_eq!(info.amount_currently_spendable, sent);
			assert_eq!(info.amount_locked, 0);
		}
		Ok(())
	})?;

	// the fork grows and replaces the main chain: the incoming payment is gone
	award_block_to_wallet(&chain2, &[], wallet1.clone(), mask1)?;
	assert_eq!(chain2.head_header().unwrap().height, bh + 1);
	let new_head = chain2
		.get_block(&chain2.head_header().unwrap().hash())
		.unwrap();
	process_block(&chain, block_without.clone());
	assert_eq!(chain.head_header().unwrap(), block_with.header);
	process_block(&chain, new_head.clone());
	assert_eq!(chain.head_header().unwrap(), new_head.header);
	let bh = bh + 1;

	// scan + full refresh on the fork
	let mut after_scan = None;
	owner(Some(wallet2.clone()), mask2, None, |api, m| {
		api.scan(m, None, false)?;
		let (refreshed, info) = api.retrieve_summary_info(m, true, 1)?;
		assert!(refreshed);
		assert_eq!(info.last_confirmed_height, bh);
		let (_, txs) = api.retrieve_txs(m, true, Some(received_id), None, None)?;
		assert_eq!(txs.len(), 1);
		let (_, all) = api.retrieve_txs(m, false, None, None, None)?;
		let (_, outs) = api.retrieve_outputs(m, true, false, None)?;
		println!(
			"[cancel_own_payment={}] after scan on the fork: txs={:?} amount_reverted={} total={} spendable={} locked={} outputs={:?}",
			cancel_own_payment,
			all.iter()
				.map(|t| (t.id, t.tx_type.clone(), t.confirmed))
				.collect::<Vec<_>>(),
			info.amount_reverted,
			info.total,
			info.amount_currently_spendable,
			info.amount_locked,
			outs.iter()
				.map(|o| (
					o.output.value,
					o.output.status.clone(),
					o.output.tx_log_entry
				))
				.collect::<Vec<_>>()
		);
		let st = outs
			.iter()
			.find(|o| o.output.value == sent)
			.map(|o| o.output.status.clone());
		after_scan = Some((
			txs[0].tx_type.clone(),
			txs[0].confirmed,
			info.amount_reverted,
			info.total,
			st,
		));
		Ok(())
	})?;

	stopper.store(false, Ordering::Relaxed);
	stopper2.store(false, Ordering::Relaxed);
	thread::sleep(Duration::from_millis(500));

	let (ty, confirmed, reverted, total, status) = after_scan.unwrap();
	assert_eq!(total, 0, "the reorganised-away payment must not be in the total");
	assert_eq!(
		(ty, confirmed),
		(TxLogEntryType::TxReverted, false),
		"the incoming payment was reorganised away: scan must report it as reverted, not as a confirmed receipt"
	);
	assert_eq!(
		reverted, sent,
		"amount_reverted must hold the reorganised-away payment"
	);
	assert_eq!(
		status,
		Some(OutputStatus::Reverted),
		"the output of the reorganised-away payment must be Reverted (nothing spent it)"
	);
	Ok(())
}

#[test]
fn c18_reverted_after_cancelled_own_payment() {
	let test_dir = "test_output/c18_finding2_cancelled";
	setup(test_dir);
	if let Err(e) = reserved_then_reverted_impl(test_dir, true) {
		panic!("Libwallet Error: {}", e);
	}
	clean_output_dir(test_dir);
}

#[test]
fn c18_reverted_while_locked_by_own_payment() {
	let test_dir = "test_output/c18_finding2_locked";
	setup(test_dir);
	if let Err(e) = reserved_then_reverted_impl(test_dir, false) {
		panic!("Libwallet Error: {}", e);
	}
	clean_output_dir(test_dir);
}
