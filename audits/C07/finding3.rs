// C07 finding 3: build_coinbase on the public Foreign API, called with the key id of a
// coinbase output the wallet already holds (status Unconfirmed, e.g. because the block that
// contains it has been mined but the wallet has not refreshed yet), overwrites that output:
// its value, height, lock height and commitment change, so the record no longer matches
// the output that is on the chain. (Severity is low: the code does this on purpose for
// unconfirmed coinbase candidates, and the wallet's periodic scan re-discovers the mined
// output as a separate record; it is nevertheless a change of value of an existing output
// caused by an unauthenticated Foreign API request.)
//
// Place in controller/tests/ as c07_findingN.rs (N as in this file name) and run with
//   cargo test -p grin_wallet_controller --test c07_finding3 --offline -j 4

#[macro_use]
extern crate log;
extern crate grin_wallet_controller as wallet;
extern crate grin_wallet_impls as impls;
extern crate grin_wallet_libwallet as libwallet;

use grin_core::consensus::REWARD;
use impls::test_framework::{self, LocalWalletClient};
use libwallet::{BlockFees, OutputStatus};
use std::sync::atomic::Ordering;
use std::thread;
use std::time::Duration;

#[macro_use]
mod common;
use common::{clean_output_dir, create_wallet_proxy, setup};

fn coinbase_overwrite_impl(test_dir: &'static str) -> Result<(), libwallet::Error> {
	let mut wallet_proxy = create_wallet_proxy(test_dir);
	let chain = wallet_proxy.chain.clone();
	let stopper = wallet_proxy.running.clone();

	create_wallet_and_add!(
		client1,
		wallet1,
		mask1_i,
		test_dir,
		"wallet1",
		None,
		&mut wallet_proxy,
		false
	);
	let mask1 = (&mask1_i).as_ref();
	let _ = &client1;

	thread::spawn(move || {
		if let Err(e) = wallet_proxy.run() {
			error!("Wallet Proxy error: {}", e);
		}
	});

	// some history
	test_framework::award_blocks_to_wallet(&chain, wallet1.clone(), mask1, 3, false)?;
	wallet::controller::owner_single_use(Some(wallet1.clone()), mask1, None, |api, m| {
		let (_, info) = api.retrieve_summary_info(m, true, 1)?;
		assert_eq!(info.total, 3 * REWARD);
		Ok(())
	})?;

	// The miner asks for a coinbase for the next block (Foreign API), mines the block with it
	// and the block is accepted by the chain
	let height = chain.head_header().unwrap().height + 1;
	let mut cb = None;
	wallet::controller::foreign_single_use(wallet1.clone(), mask1_i.clone(), |api| {
		cb = Some(api.build_coinbase(&BlockFees {
			fees: 0,
			height,
			key_id: None,
		})?);
		Ok(())
	})?;
	let cb = cb.unwrap();
	let key_id = cb.key_id.clone().expect("key id of the coinbase");
	test_framework::add_block_with_reward(&chain, &[], cb.output.clone(), cb.kernel.clone());
	assert_eq!(chain.head_header().unwrap().height, height);

	// the wallet's record of that output (the wallet has not refreshed since)
	let mut before = None;
	wallet::controller::owner_single_use(Some(wallet1.clone()), mask1, None, |api, m| {
		let (_, outs) = api.retrieve_outputs(m, true, false, None)?;
		before = outs.into_iter().find(|o| o.output.key_id == key_id);
		Ok(())
	})?;
	let before = before.expect("coinbase output recorded");
	assert_eq!(before.output.value, REWARD);
	assert_eq!(before.output.status, OutputStatus::Unconfirmed);
	assert_eq!(before.commit, cb.output.commitment());

	// Anybody can now call build_coinbase on the public Foreign API naming that key id
	// (key ids are sequential: m/0/0/n) with other fees and another height
	wallet::controller::foreign_single_use(wallet1.clone(), mask1_i.clone(), |api| {
		let cb2 = api.build_coinbase(&BlockFees {
			fees: 1_000_000,
			height: height + 1000,
			key_id: Some(key_id.clone()),
		})?;
		println!(
			"second build_coinbase returned key id {:?} (first: {:?})",
			cb2.key_id, key_id
		);
		Ok(())
	})?;

	let mut after = None;
	let mut total = 0;
	wallet::controller::owner_single_use(Some(wallet1.clone()), mask1, None, |api, m| {
		// without refresh: the raw record
		let (_, outs) = api.retrieve_outputs(m, true, false, None)?;
		after = outs.into_iter().find(|o| o.output.key_id == key_id);
		// with refresh from the node: what the wallet believes it owns
		let (refreshed, info) = api.retrieve_summary_info(m, true, 1)?;
		assert!(refreshed);
		total = info.total;
		Ok(())
	})?;
	let after = after.expect("coinbase output still recorded");
	println!(
		"output {}: value {} -> {}, height {} -> {}, lock height {} -> {}, commit changed: {}",
		key_id,
		before.output.value,
		after.output.value,
		before.output.height,
		after.output.height,
		before.output.lock_height,
		after.output.lock_height,
		before.commit != after.commit
	);
	println!(
		"wallet total after refresh: {} (4 blocks mined = {})",
		total,
		4 * REWARD
	);

	stopper.store(false, Ordering::Relaxed);
	thread::sleep(Duration::from_millis(200));

	assert_eq!(
		after.output.value, before.output.value,
		"expected: no existing output of the wallet changes value through a Foreign API request"
	);
	assert_eq!(
		after.commit, before.commit,
		"expected: the commitment of an existing output is not replaced through the Foreign API"
	);
	Ok(())
}

#[test]
fn c07_build_coinbase_overwrites_existing_coinbase_output() {
	let test_dir = "test_output/c07_finding3";
	setup(test_dir);
	if let Err(e) = coinbase_overwrite_impl(test_dir) {
		panic!("Libwallet Error: {}", e);
	}
	clean_output_dir(test_dir);
}
