// C07 finding 1: a forged (not validly counter-signed) reply to a late-locked send,
// delivered through the Foreign API's finalize_tx, is refused - but only after the
// wallet has reserved (locked) its inputs, created change and a TxSent log entry and
// consumed the late-lock arguments of the pending transaction's private context.
//
// Place in controller/tests/ as c07_findingN.rs (N as in this file name) and run with
//   cargo test -p grin_wallet_controller --test c07_finding1 --offline -j 4

#[macro_use]
extern crate log;
extern crate grin_wallet_controller as wallet;
extern crate grin_wallet_impls as impls;
extern crate grin_wallet_libwallet as libwallet;

use self::libwallet::{InitTxArgs, OutputStatus, Slate, SlateState};
use impls::test_framework::{self, LocalWalletClient};
use std::sync::atomic::Ordering;
use std::thread;
use std::time::Duration;

#[macro_use]
mod common;
use common::{clean_output_dir, create_wallet_proxy, setup};

fn forged_reply_impl(test_dir: &'static str) -> Result<(), libwallet::Error> {
	let mut wallet_proxy = create_wallet_proxy(test_dir);
	let chain = wallet_proxy.chain.clone();
	let stopper = wallet_proxy.running.clone();

	create_wallet_and_add!(
		client1,
		wallet1,
		mask1_i,
		test_dir,
		"wallet1",
		None,
		&mut wallet_proxy,
		false
	);
	let mask1 = (&mask1_i).as_ref();
	create_wallet_and_add!(
		client2,
		wallet2,
		mask2_i,
		test_dir,
		"wallet2",
		None,
		&mut wallet_proxy,
		false
	);
	let _ = (&client1, &client2);

	thread::spawn(move || {
		if let Err(e) = wallet_proxy.run() {
			error!("Wallet Proxy error: {}", e);
		}
	});

	test_framework::award_blocks_to_wallet(&chain, wallet1.clone(), mask1, 10, false)?;

	// state of wallet1 before anything is sent
	let mut spendable_before = 0;
	let mut locked_before = 0;
	let mut n_txs_before = 0;
	let mut n_outputs_before = 0;
	wallet::controller::owner_single_use(Some(wallet1.clone()), mask1, None, |api, m| {
		let (_, info) = api.retrieve_summary_info(m, true, 1)?;
		spendable_before = info.amount_currently_spendable;
		locked_before = info.amount_locked;
		let (_, txs) = api.retrieve_txs(m, true, None, None, None)?;
		n_txs_before = txs.len();
		let (_, outs) = api.retrieve_outputs(m, true, false, None)?;
		n_outputs_before = outs.len();
		Ok(())
	})?;
	assert!(spendable_before > 0);
	assert_eq!(locked_before, 0);

	// wallet1 initiates a late-locked send: nothing is reserved at this point
	let amount = 100_000_000_000;
	let mut s1 = Slate::blank(2, false);
	wallet::controller::owner_single_use(Some(wallet1.clone()), mask1, None, |api, m| {
		let args = InitTxArgs {
			src_acct_name: None,
			amount,
			minimum_confirmations: 2,
			max_outputs: 500,
			num_change_outputs: 1,
			selection_strategy_is_use_all: false,
			late_lock: Some(true),
			..Default::default()
		};
		s1 = api.init_send_tx(m, args)?;
		let (_, info) = api.retrieve_summary_info(m, true, 1)?;
		assert_eq!(info.amount_currently_spendable, spendable_before);
		assert_eq!(info.amount_locked, 0);
		Ok(())
	})?;

	// The recipient (or anybody who sees the slates in transit) answers S1 on wallet1's
	// public Foreign API with a reply that is NOT validly counter-signed: wallet2 receives S1
	// twice, into two different accounts, which gives two genuine replies with different
	// recipient keys and nonces; the forged reply is the first one carrying the partial
	// signature of the second, which does not verify against the first one's keys.
	wallet::controller::owner_single_use(Some(wallet2.clone()), mask2_i.as_ref(), None, |api, m| {
		api.create_account_path(m, "account1")?;
		Ok(())
	})?;
	let mut forged = Slate::blank(2, false);
	wallet::controller::foreign_single_use(wallet2.clone(), mask2_i.clone(), |api| {
		let reply_a = api.receive_tx(&s1, None, None)?;
		let reply_b = api.receive_tx(&s1, Some("account1"), None)?;
		assert_eq!(reply_a.participant_data.len(), 1);
		assert_eq!(reply_b.participant_data.len(), 1);
		assert_ne!(
			reply_a.participant_data[0].part_sig,
			reply_b.participant_data[0].part_sig
		);
		forged = reply_a;
		forged.participant_data[0].part_sig = reply_b.participant_data[0].part_sig;
		Ok(())
	})?;
	assert_eq!(forged.state, SlateState::Standard2);

	let mut forged_res = None;
	wallet::controller::foreign_single_use(wallet1.clone(), mask1_i.clone(), |api| {
		forged_res = Some(api.finalize_tx(&forged, false));
		Ok(())
	})?;
	let forged_res = forged_res.unwrap();
	println!("finalize_tx(forged reply) -> {:?}", forged_res.as_ref().err());
	assert!(
		forged_res.is_err(),
		"a reply with an invalid recipient signature must be refused"
	);

	// The refused request must have left the wallet exactly as it was
	let mut spendable_after = 0;
	let mut locked_after = 0;
	let mut n_txs_after = 0;
	let mut n_outputs_after = 0;
	let mut n_locked_outputs = 0;
	wallet::controller::owner_single_use(Some(wallet1.clone()), mask1, None, |api, m| {
		let (_, info) = api.retrieve_summary_info(m, true, 1)?;
		spendable_after = info.amount_currently_spendable;
		locked_after = info.amount_locked;
		let (_, txs) = api.retrieve_txs(m, true, None, None, None)?;
		n_txs_after = txs.len();
		let (_, outs) = api.retrieve_outputs(m, true, false, None)?;
		n_outputs_after = outs.len();
		n_locked_outputs = outs
			.iter()
			.filter(|o| o.output.status == OutputStatus::Locked)
			.count();
		Ok(())
	})?;
	println!(
		"spendable {} -> {}, locked {} -> {}, log entries {} -> {}, outputs {} -> {}, locked outputs {}",
		spendable_before,
		spendable_after,
		locked_before,
		locked_after,
		n_txs_before,
		n_txs_after,
		n_outputs_before,
		n_outputs_after,
		n_locked_outputs
	);

	stopper.store(false, Ordering::Relaxed);
	thread::sleep(Duration::from_millis(200));

	assert_eq!(
		n_locked_outputs, 0,
		"expected: a refused, not counter-signed finalize_tx on the Foreign API reserves nothing; \
		 found {} output(s) Locked",
		n_locked_outputs
	);
	assert_eq!(
		spendable_after, spendable_before,
		"expected: the spendable balance does not decrease through a refused Foreign API request"
	);
	assert_eq!(
		n_txs_after, n_txs_before,
		"expected: no tx log entry is created by a refused Foreign API request"
	);
	assert_eq!(
		n_outputs_after, n_outputs_before,
		"expected: no (change) output is created by a refused Foreign API request"
	);
	Ok(())
}

#[test]
fn c07_forged_reply_to_late_locked_send_reserves_inputs() {
	let test_dir = "test_output/c07_finding1";
	setup(test_dir);
	if let Err(e) = forged_reply_impl(test_dir) {
		panic!("Libwallet Error: {}", e);
	}
	clean_output_dir(test_dir);
}

// Variant with the same root cause: the forged reply additionally carries a payment proof
// the transaction never asked for. Locking then fails ("Payment proof derivation index
// required") - but the pending transaction's private context has already been rewritten:
// its late-lock arguments are gone and an input selection has been stored, although no
// input is locked and no log entry exists. The genuine reply can no longer be finalized.
fn forged_reply_consumes_context_impl(test_dir: &'static str) -> Result<(), libwallet::Error> {
	let mut wallet_proxy = create_wallet_proxy(test_dir);
	let chain = wallet_proxy.chain.clone();
	let stopper = wallet_proxy.running.clone();

	create_wallet_and_add!(
		client1,
		wallet1,
		mask1_i,
		test_dir,
		"wallet1",
		None,
		&mut wallet_proxy,
		false
	);
	let mask1 = (&mask1_i).as_ref();
	create_wallet_and_add!(
		client2,
		wallet2,
		mask2_i,
		test_dir,
		"wallet2",
		None,
		&mut wallet_proxy,
		false
	);
	let _ = (&client1, &client2);

	thread::spawn(move || {
		if let Err(e) = wallet_proxy.run() {
			error!("Wallet Proxy error: {}", e);
		}
	});

	test_framework::award_blocks_to_wallet(&chain, wallet1.clone(), mask1, 10, false)?;

	let amount = 100_000_000_000;
	let mut s1 = Slate::blank(2, false);
	wallet::controller::owner_single_use(Some(wallet1.clone()), mask1, None, |api, m| {
		let args = InitTxArgs {
			src_acct_name: None,
			amount,
			minimum_confirmations: 2,
			max_outputs: 500,
			num_change_outputs: 1,
			selection_strategy_is_use_all: false,
			late_lock: Some(true),
			..Default::default()
		};
		s1 = api.init_send_tx(m, args)?;
		Ok(())
	})?;

	// the pending transaction's private context as stored at initiation
	let ctx_before = {
		wallet_inst!(wallet1, w);
		w.get_private_context(mask1, s1.id.as_bytes())?
	};
	assert!(ctx_before.late_lock_args.is_some());
	assert!(ctx_before.input_ids.is_empty());

	wallet::controller::owner_single_use(Some(wallet2.clone()), mask2_i.as_ref(), None, |api, m| {
		api.create_account_path(m, "account1")?;
		Ok(())
	})?;
	let mut genuine = Slate::blank(2, false);
	let mut forged = Slate::blank(2, false);
	wallet::controller::foreign_single_use(wallet2.clone(), mask2_i.clone(), |api| {
		genuine = api.receive_tx(&s1, None, None)?;
		// a second reply, to a copy of S1 that asks for a payment proof
		let mut reply_b = api.receive_tx(&with_proof_request(&s1), Some("account1"), None)?;
		// ... whose partial signature is replaced by that of the first: not a valid reply
		reply_b.participant_data[0].part_sig = genuine.participant_data[0].part_sig;
		forged = reply_b;
		Ok(())
	})?;
	assert!(forged.payment_proof.is_some());

	let mut forged_res = None;
	wallet::controller::foreign_single_use(wallet1.clone(), mask1_i.clone(), |api| {
		forged_res = Some(api.finalize_tx(&forged, false));
		Ok(())
	})?;
	let forged_res = forged_res.unwrap();
	println!("finalize_tx(forged reply) -> {:?}", forged_res.as_ref().err());
	assert!(forged_res.is_err(), "the forged reply must be refused");

	let ctx_after = {
		wallet_inst!(wallet1, w);
		w.get_private_context(mask1, s1.id.as_bytes())?
	};
	println!(
		"late_lock_args present: {} -> {}, stored input ids: {} -> {}",
		ctx_before.late_lock_args.is_some(),
		ctx_after.late_lock_args.is_some(),
		ctx_before.input_ids.len(),
		ctx_after.input_ids.len()
	);

	// and the genuine reply?
	let mut genuine_res = None;
	wallet::controller::foreign_single_use(wallet1.clone(), mask1_i.clone(), |api| {
		genuine_res = Some(api.finalize_tx(&genuine, false));
		Ok(())
	})?;
	let genuine_res = genuine_res.unwrap();
	println!(
		"finalize_tx(genuine reply) afterwards -> {:?}",
		genuine_res.as_ref().err()
	);

	stopper.store(false, Ordering::Relaxed);
	thread::sleep(Duration::from_millis(200));

	assert!(
		ctx_after.late_lock_args.is_some() && ctx_after.input_ids.is_empty(),
		"expected: a refused Foreign API request leaves the pending transaction's private \
		 context untouched; its late-lock arguments were consumed and an input selection stored"
	);
	assert!(
		genuine_res.is_ok(),
		"expected: the genuine reply can still be finalized after a refused forged one"
	);
	Ok(())
}

/// S1 with a payment proof request added (sender address: any key; recipient address: any key)
fn with_proof_request(s1: &Slate) -> Slate {
	let mut v4 = libwallet::slate_versions::v4::SlateV4::from(s1);
	let any_key = ed25519_dalek::PublicKey::from(
		&ed25519_dalek::SecretKey::from_bytes(&[7u8; 32]).unwrap(),
	);
	v4.proof = Some(libwallet::slate_versions::v4::PaymentInfoV4 {
		saddr: any_key,
		raddr: any_key,
		rsig: None,
	});
	Slate::from(v4)
}

#[test]
fn c07_forged_reply_to_late_locked_send_consumes_context() {
	let test_dir = "test_output/c07_finding1b";
	setup(test_dir);
	if let Err(e) = forged_reply_consumes_context_impl(test_dir) {
		panic!("Libwallet Error: {}", e);
	}
	clean_output_dir(test_dir);
}
