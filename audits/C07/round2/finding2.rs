// Audit C07, finding 2 (second round, low severity / literal).
//
// foreign receive_tx with a destination account that does not exist succeeds and books the
// output and the receive log entry into whichever account happens to be active, instead of
// refusing the request (or booking it into the account that was asked for).
//
// Place in controller/tests/ and run:
//   cargo test --offline -j 2 -p grin_wallet_controller --test finding2 -- --nocapture
#[macro_use]
extern crate log;
extern crate grin_wallet_controller as wallet;
extern crate grin_wallet_impls as impls;
extern crate grin_wallet_libwallet as libwallet;

use self::libwallet::{InitTxArgs, OutputData, Slate, SlateState, TxLogEntry, TxLogEntryType};
use impls::test_framework::{self, LocalWalletClient};
use std::sync::atomic::Ordering;
use std::thread;
use std::time::Duration;

#[macro_use]
mod common;
use common::{clean_output_dir, create_wallet_proxy, setup};

fn finding2_impl(test_dir: &'static str) -> Result<(), libwallet::Error> {
	let mut wallet_proxy = create_wallet_proxy(test_dir);
	let chain = wallet_proxy.chain.clone();
	let stopper = wallet_proxy.running.clone();

	create_wallet_and_add!(
		client1,
		wallet1,
		mask1_i,
		test_dir,
		"wallet1",
		None,
		&mut wallet_proxy,
		false
	);
	let mask1 = (&mask1_i).as_ref();
	create_wallet_and_add!(
		client2,
		wallet2,
		mask2_i,
		test_dir,
		"wallet2",
		None,
		&mut wallet_proxy,
		false
	);
	let mask2 = (&mask2_i).as_ref();
	let _ = (&client1, &client2);

	thread::spawn(move || {
		if let Err(e) = wallet_proxy.run() {
			error!("Wallet Proxy error: {}", e);
		}
	});

	// the recipient has two accounts, "default" and "savings"; "cold" is active
	wallet::controller::owner_single_use(Some(wallet2.clone()), mask2, None, |api, m| {
		api.create_account_path(m, "savings")?;
		api.create_account_path(m, "cold")?;
		api.set_active_account(m, "cold")?;
		Ok(())
	})?;

	test_framework::award_blocks_to_wallet(&chain, wallet1.clone(), mask1, 6, false)?;

	let amount = 30_000_000_000;
	let mut s1 = Slate::blank(2, false);
	wallet::controller::owner_single_use(Some(wallet1.clone()), mask1, None, |api, m| {
		let args = InitTxArgs {
			src_acct_name: None,
			amount,
			minimum_confirmations: 2,
			max_outputs: 500,
			num_change_outputs: 1,
			selection_strategy_is_use_all: false,
			..Default::default()
		};
		s1 = api.init_send_tx(m, args)?;
		api.tx_lock_outputs(m, &s1)?;
		Ok(())
	})?;

	// the sender names a destination account the recipient does not have (a typo of "savings")
	let mut res = None;
	wallet::controller::foreign_single_use(wallet2.clone(), mask2_i.clone(), |api| {
		res = Some(api.receive_tx(&s1, Some("savngs"), None));
		Ok(())
	})?;
	let res = res.unwrap();
	println!(
		"foreign receive_tx into the unknown account 'savngs': {:?}",
		res.as_ref().map(|s| s.state.clone())
	);

	let (accounts, outputs, txs): (Vec<libwallet::AcctPathMapping>, Vec<OutputData>, Vec<TxLogEntry>) = {
		wallet_inst!(wallet2, w);
		(
			w.acct_path_iter().collect(),
			w.iter().collect(),
			w.tx_log_iter().collect(),
		)
	};
	let label_of = |p: &grin_keychain::Identifier| {
		accounts
			.iter()
			.find(|a| a.path == *p)
			.map(|a| a.label.clone())
			.unwrap_or("?".to_owned())
	};
	for o in outputs.iter() {
		println!(
			"output {} value {} {} in account '{}'",
			o.key_id,
			o.value,
			o.status,
			label_of(&o.root_key_id)
		);
	}
	for t in txs.iter() {
		println!(
			"log entry {} {:?} credited {} in account '{}'",
			t.id,
			t.tx_type,
			t.amount_credited,
			label_of(&t.parent_key_id)
		);
	}

	assert!(!accounts.iter().any(|a| a.label == "savngs"));
	match res {
		Err(_) => {
			// refused: then without effect
			assert!(outputs.is_empty() && txs.is_empty());
		}
		Ok(s) => {
			assert_eq!(s.state, SlateState::Standard2);
			// accepted: then the output and the entry belong to the destination account
			let booked: Vec<String> = txs
				.iter()
				.filter(|t| t.tx_type == TxLogEntryType::TxReceived)
				.map(|t| label_of(&t.parent_key_id))
				.collect();
			panic!(
				"expected: a receive naming the destination account 'savngs', which does not exist, \
				 is refused (or at least books nothing into another account); \
				 it succeeded and booked {} output(s) / receive entries into account(s) {:?}",
				outputs.len(),
				booked
			);
		}
	}

	stopper.store(false, Ordering::Relaxed);
	thread::sleep(Duration::from_millis(200));
	Ok(())
}

#[test]
fn receive_into_unknown_account_is_not_booked_elsewhere() {
	let test_dir = "test_output/c07_finding2";
	setup(test_dir);
	if let Err(e) = finding2_impl(test_dir) {
		panic!("Libwallet Error: {}", e);
	}
	clean_output_dir(test_dir);
}
