// Audit C07, finding 1 (second round).
//
// A reply to a late-locked send that anybody holding the first slate can fabricate - a
// throwaway key, a partial signature made with it, and no output at all - makes the foreign
// API's finalize_tx select and reserve the sender's inputs, create a change output and a sent
// log entry, and rewrite the stored private context, before it fails (KernelSumMismatch).
//
// Place in controller/tests/ and run:
//   cargo test --offline -j 2 -p grin_wallet_controller --test finding1 -- --nocapture
#[macro_use]
extern crate log;
extern crate grin_wallet_controller as wallet;
extern crate grin_wallet_impls as impls;
extern crate grin_wallet_libwallet as libwallet;

use grin_core as core;
use grin_keychain as keychain;
use grin_util as util;

use self::core::core::FeeFields;
use self::keychain::{ExtKeychain, Keychain};
use self::libwallet::{
	Context, InitTxArgs, OutputData, OutputStatus, Slate, SlateState, TxLogEntry, WalletInst,
};
use impls::test_framework::{self, LocalWalletClient};
use impls::DefaultLCProvider;
use std::sync::atomic::Ordering;
use std::sync::Arc;
use std::thread;
use std::time::Duration;
use util::secp::key::SecretKey;
use util::Mutex;

#[macro_use]
mod common;
use common::{clean_output_dir, create_wallet_proxy, setup};

type WalletRef = Arc<
	Mutex<
		Box<
			dyn WalletInst<
				'static,
				DefaultLCProvider<'static, LocalWalletClient, ExtKeychain>,
				LocalWalletClient,
				ExtKeychain,
			>,
		>,
	>,
>;

/// everything the wallet records: outputs, log entries, and the private context of `slate`
fn wallet_state(
	wallet: &WalletRef,
	mask: Option<&SecretKey>,
	slate: &Slate,
) -> Result<(Vec<OutputData>, Vec<TxLogEntry>, Option<String>), libwallet::Error> {
	wallet_inst!(wallet, w);
	let mut outputs: Vec<OutputData> = w.iter().collect();
	outputs.sort_by_key(|o| format!("{}", o.key_id));
	let mut txs: Vec<TxLogEntry> = w.tx_log_iter().collect();
	txs.sort_by_key(|t| (format!("{}", t.parent_key_id), t.id));
	let ctx = w
		.get_private_context(mask, slate.id.as_bytes())
		.ok()
		.map(|c| serde_json::to_string(&c).unwrap());
	Ok((outputs, txs, ctx))
}

/// What anyone who has seen the first slate `s1` can produce without any secret of either
/// party: a fresh key and nonce, their public parts, and the partial signature made with them.
/// No output is contributed, so no valid transaction can ever come out of this "reply".
fn fabricated_reply(s1: &Slate) -> Slate {
	let kc = ExtKeychain::from_random_seed(true).unwrap();
	let mut sl = s1.clone();
	sl.tx = Some(Slate::empty_transaction());
	let mut ctx = Context::new(
		kc.secp(),
		&ExtKeychain::derive_key_id(2, 0, 0, 0, 0),
		false,
		false,
	);
	sl.fill_round_1(&kc, &mut ctx).unwrap();
	sl.fill_round_2(&kc, &ctx.sec_key, &ctx.sec_nonce).unwrap();
	sl.remove_other_sigdata(&kc, &ctx.sec_nonce, &ctx.sec_key)
		.unwrap();
	sl.amount = 0;
	sl.fee_fields = FeeFields::zero();
	sl.state = SlateState::Standard2;
	sl
}

fn finding1_impl(test_dir: &'static str) -> Result<(), libwallet::Error> {
	let mut wallet_proxy = create_wallet_proxy(test_dir);
	let chain = wallet_proxy.chain.clone();
	let stopper = wallet_proxy.running.clone();

	create_wallet_and_add!(
		client1,
		wallet1,
		mask1_i,
		test_dir,
		"wallet1",
		None,
		&mut wallet_proxy,
		false
	);
	let mask1 = (&mask1_i).as_ref();
	let _ = &client1;

	thread::spawn(move || {
		if let Err(e) = wallet_proxy.run() {
			error!("Wallet Proxy error: {}", e);
		}
	});

	test_framework::award_blocks_to_wallet(&chain, wallet1.clone(), mask1, 10, false)?;

	// the owner initiates a late-locked send: nothing is selected or reserved yet
	let mut s1 = Slate::blank(2, false);
	let mut spendable_before = 0;
	wallet::controller::owner_single_use(Some(wallet1.clone()), mask1, None, |api, m| {
		let (_, info) = api.retrieve_summary_info(m, true, 1)?;
		spendable_before = info.amount_currently_spendable;
		let args = InitTxArgs {
			src_acct_name: None,
			amount: 100_000_000_000,
			minimum_confirmations: 2,
			max_outputs: 500,
			num_change_outputs: 1,
			selection_strategy_is_use_all: false,
			late_lock: Some(true),
			..Default::default()
		};
		s1 = api.init_send_tx(m, args)?;
		Ok(())
	})?;
	assert!(spendable_before > 0);

	let before = wallet_state(&wallet1, mask1, &s1)?;
	assert!(before.2.is_some(), "the pending send has a private context");
	assert!(before.0.iter().all(|o| o.status != OutputStatus::Locked));

	// someone who has seen S1 (the recipient, or an eavesdropper on a plain http send) answers
	// on the foreign API with a fabricated reply that carries no output
	let reply = fabricated_reply(&s1);
	let mut res = None;
	wallet::controller::foreign_single_use(wallet1.clone(), mask1_i.clone(), |api| {
		res = Some(api.finalize_tx(&reply, false));
		Ok(())
	})?;
	let res = res.unwrap();
	println!("foreign finalize_tx of the fabricated reply: {:?}", res.as_ref().map(|_| "Ok"));
	assert!(
		res.is_err(),
		"a reply that contributes no output cannot be finalized"
	);

	let after = wallet_state(&wallet1, mask1, &s1)?;
	let mut spendable_after = 0;
	wallet::controller::owner_single_use(Some(wallet1.clone()), mask1, None, |api, m| {
		let (_, info) = api.retrieve_summary_info(m, false, 1)?;
		spendable_after = info.amount_currently_spendable;
		Ok(())
	})?;
	println!(
		"spendable before: {}, after: {}",
		spendable_before, spendable_after
	);
	for o in after.0.iter() {
		println!("output {} {} {}", o.key_id, o.value, o.status);
	}
	for t in after.1.iter() {
		println!("log entry {} {:?} {:?}", t.id, t.tx_type, t.tx_slate_id);
	}

	// the request was refused: it must have been refused without effect
	let locked: Vec<&OutputData> = after
		.0
		.iter()
		.filter(|o| o.status == OutputStatus::Locked)
		.collect();
	assert!(
		locked.is_empty(),
		"expected: a refused foreign finalize_tx reserves nothing; found {} outputs locked ({} nanogrin)",
		locked.len(),
		locked.iter().map(|o| o.value).sum::<u64>()
	);
	assert_eq!(
		spendable_before, spendable_after,
		"expected: the spendable balance is not reduced by a refused foreign request"
	);
	assert_eq!(
		before.0.len(),
		after.0.len(),
		"expected: a refused foreign finalize_tx creates no (change) output"
	);
	assert_eq!(
		before.1.len(),
		after.1.len(),
		"expected: a refused foreign finalize_tx writes no log entry"
	);
	assert_eq!(
		before.2, after.2,
		"expected: the pending transaction's private context is left as it was"
	);

	stopper.store(false, Ordering::Relaxed);
	thread::sleep(Duration::from_millis(200));
	Ok(())
}

#[test]
fn fabricated_reply_to_late_locked_send_reserves_nothing() {
	let test_dir = "test_output/c07_finding1";
	setup(test_dir);
	if let Err(e) = finding1_impl(test_dir) {
		panic!("Libwallet Error: {}", e);
	}
	clean_output_dir(test_dir);
}
