// C17 finding 1: an expired slate is accepted by a wallet that has already observed a
// chain height beyond the slate's cutoff, because `check_ttl` compares the cutoff with the
// "last confirmed height" stored for the *currently active account* only.
//
// place in controller/tests/ and run with
//   cargo test --offline -p grin_wallet_controller --test finding1 -- --nocapture

#[macro_use]
extern crate log;
extern crate grin_wallet_controller as wallet;
extern crate grin_wallet_impls as impls;
extern crate grin_wallet_util;

use grin_wallet_libwallet as libwallet;
use impls::test_framework::{self, LocalWalletClient};
use libwallet::{InitTxArgs, OutputStatus, Slate, TxLogEntryType};
use std::sync::atomic::Ordering;
use std::thread;
use std::time::Duration;

#[macro_use]
mod common;
use common::{clean_output_dir, create_wallet_proxy, setup};

fn expired_slate_other_account_impl(test_dir: &'static str) -> Result<(), libwallet::Error> {
	let mut wallet_proxy = create_wallet_proxy(test_dir);
	let chain = wallet_proxy.chain.clone();
	let stopper = wallet_proxy.running.clone();

	create_wallet_and_add!(
		client1,
		wallet1,
		mask1_i,
		test_dir,
		"wallet1",
		None,
		&mut wallet_proxy,
		false
	);
	let mask1 = (&mask1_i).as_ref();

	create_wallet_and_add!(
		client2,
		wallet2,
		mask2_i,
		test_dir,
		"wallet2",
		None,
		&mut wallet_proxy,
		false
	);
	let mask2 = (&mask2_i).as_ref();
	let _ = &client2;

	thread::spawn(move || {
		if let Err(e) = wallet_proxy.run() {
			error!("Wallet Proxy error: {}", e);
		}
	});

	// the recipient has a second account
	wallet::controller::owner_single_use(Some(wallet2.clone()), mask2, None, |api, m| {
		api.create_account_path(m, "savings")?;
		Ok(())
	})?;

	// height 10
	let _ = test_framework::award_blocks_to_wallet(&chain, wallet1.clone(), mask1, 10, false);

	// wallet1 creates a send slate that expires at height 12
	let mut slate = Slate::blank(2, false);
	wallet::controller::owner_single_use(Some(wallet1.clone()), mask1, None, |api, m| {
		let args = InitTxArgs {
			src_acct_name: None,
			amount: 60_000_000_000,
			minimum_confirmations: 2,
			max_outputs: 500,
			num_change_outputs: 1,
			selection_strategy_is_use_all: true,
			ttl_blocks: Some(2),
			..Default::default()
		};
		slate = api.init_send_tx(m, args)?;
		api.tx_lock_outputs(m, &slate)?;
		Ok(())
	})?;
	assert_eq!(slate.ttl_cutoff_height, 12);

	// height 13: the slate is expired
	let _ = test_framework::award_blocks_to_wallet(&chain, wallet1.clone(), mask1, 3, false);

	// wallet2 refreshes (its default account is active): it has now observed height 13
	wallet::controller::owner_single_use(Some(wallet2.clone()), mask2, None, |api, m| {
		let (refreshed, info) = api.retrieve_summary_info(m, true, 1)?;
		assert!(refreshed);
		assert_eq!(info.last_confirmed_height, 13);
		Ok(())
	})?;

	// control: the slate is (rightly) refused now
	wallet::controller::foreign_single_use(wallet2.clone(), mask2_i.clone(), |api| {
		let res = api.receive_tx(&slate, None, None);
		println!("receive into default account: {:?}", res.as_ref().map(|_| ()));
		assert!(
			match res {
				Err(libwallet::Error::TransactionExpired) => true,
				_ => false,
			},
			"control: the expired slate must be refused"
		);
		Ok(())
	})?;

	// the user of wallet2 switches to the other account of the same wallet
	wallet::controller::owner_single_use(Some(wallet2.clone()), mask2, None, |api, m| {
		api.set_active_account(m, "savings")?;
		Ok(())
	})?;

	// ... and the same wallet, which has seen height 13, is handed the slate (cutoff 12) again
	let mut res = None;
	wallet::controller::foreign_single_use(wallet2.clone(), mask2_i.clone(), |api| {
		res = Some(api.receive_tx(&slate, None, None));
		Ok(())
	})?;
	let res = res.unwrap();
	println!(
		"receive with account 'savings' active: {:?}",
		res.as_ref().map(|s| s.state.clone())
	);

	// what was written by the receive that should have been refused
	let mut n_entries = 0;
	let mut n_outputs = 0;
	wallet::controller::owner_single_use(Some(wallet2.clone()), mask2, None, |api, m| {
		let (_, txs) = api.retrieve_txs(m, false, None, Some(slate.id), None)?;
		n_entries = txs
			.iter()
			.filter(|t| t.tx_type == TxLogEntryType::TxReceived)
			.count();
		let (_, outs) = api.retrieve_outputs(m, false, false, None)?;
		n_outputs = outs
			.iter()
			.filter(|o| o.output.status == OutputStatus::Unconfirmed)
			.count();
		Ok(())
	})?;
	println!(
		"wallet2/savings after the receive: {} TxReceived entries for the slate, {} unconfirmed outputs",
		n_entries, n_outputs
	);

	assert!(
		res.is_err(),
		"a slate with cutoff 12 must be refused (TransactionExpired) by a wallet that has \
		 observed height 13, whichever of its accounts is active; receive_tx returned Ok and \
		 recorded {} TxReceived entry and {} unconfirmed output",
		n_entries,
		n_outputs
	);
	assert_eq!(n_entries, 0, "a refused slate must leave no tx log entry");
	assert_eq!(n_outputs, 0, "a refused slate must leave no output");

	stopper.store(false, Ordering::Relaxed);
	thread::sleep(Duration::from_millis(200));
	Ok(())
}

#[test]
fn expired_slate_other_account() {
	let test_dir = "test_output/finding1";
	setup(test_dir);
	if let Err(e) = expired_slate_other_account_impl(test_dir) {
		panic!("Libwallet Error: {}", e);
	}
	clean_output_dir(test_dir);
}
