// C17 finding 3: the cutoff of a slate is computed as `current_height + ttl_blocks` with a
// plain addition. A TTL that does not fit (u64::MAX, i.e. "practically never") makes a
// debug build panic inside the wallet, and makes a build without overflow checks (release)
// wrap around to a cutoff *below* the current height: the slate is born expired, is refused by
// the recipient and cancelled by the sender's next refresh although the cutoff that was asked
// for lies (far) ahead.
//
// place in controller/tests/ and run with
//   cargo test --offline -p grin_wallet_controller --test finding3 -- --nocapture
// (to see the wrap-around instead of the panic:
//   cargo test --offline --config 'profile.dev.package.grin_wallet_libwallet.overflow-checks=false' \
//      -p grin_wallet_controller --test finding3 -- --nocapture)

#[macro_use]
extern crate log;
extern crate grin_wallet_controller as wallet;
extern crate grin_wallet_impls as impls;
extern crate grin_wallet_util;

use grin_wallet_libwallet as libwallet;
use impls::test_framework::{self, LocalWalletClient};
use libwallet::{InitTxArgs, OutputStatus, Slate, TxLogEntryType};
use std::panic::{catch_unwind, AssertUnwindSafe};
use std::sync::atomic::Ordering;
use std::thread;
use std::time::Duration;

#[macro_use]
mod common;
use common::{clean_output_dir, create_wallet_proxy, setup};

fn ttl_overflow_impl(test_dir: &'static str) -> Result<(), libwallet::Error> {
	let mut wallet_proxy = create_wallet_proxy(test_dir);
	let chain = wallet_proxy.chain.clone();
	let stopper = wallet_proxy.running.clone();

	create_wallet_and_add!(
		client1,
		wallet1,
		mask1_i,
		test_dir,
		"wallet1",
		None,
		&mut wallet_proxy,
		false
	);
	let mask1 = (&mask1_i).as_ref();

	create_wallet_and_add!(
		client2,
		wallet2,
		mask2_i,
		test_dir,
		"wallet2",
		None,
		&mut wallet_proxy,
		false
	);
	let mask2 = (&mask2_i).as_ref();
	let _ = &client2;

	thread::spawn(move || {
		if let Err(e) = wallet_proxy.run() {
			error!("Wallet Proxy error: {}", e);
		}
	});

	// height 10
	let _ = test_framework::award_blocks_to_wallet(&chain, wallet1.clone(), mask1, 10, false);

	// both wallets have observed height 10
	wallet::controller::owner_single_use(Some(wallet1.clone()), mask1, None, |api, m| {
		let (refreshed, info) = api.retrieve_summary_info(m, true, 1)?;
		assert!(refreshed);
		assert_eq!(info.last_confirmed_height, 10);
		Ok(())
	})?;
	wallet::controller::owner_single_use(Some(wallet2.clone()), mask2, None, |api, m| {
		let (refreshed, info) = api.retrieve_summary_info(m, true, 1)?;
		assert!(refreshed);
		assert_eq!(info.last_confirmed_height, 10);
		Ok(())
	})?;

	// a send whose TTL is as long as can be expressed
	let mut init_res = None;
	let w1 = wallet1.clone();
	let unwound = catch_unwind(AssertUnwindSafe(|| {
		wallet::controller::owner_single_use(Some(w1), mask1, None, |api, m| {
			let args = InitTxArgs {
				src_acct_name: None,
				amount: 60_000_000_000,
				minimum_confirmations: 2,
				max_outputs: 500,
				num_change_outputs: 1,
				selection_strategy_is_use_all: true,
				ttl_blocks: Some(u64::MAX),
				..Default::default()
			};
			init_res = Some(api.init_send_tx(m, args));
			Ok(())
		})
	}));
	assert!(
		unwound.is_ok(),
		"init_send_tx with ttl_blocks = u64::MAX must give a slate whose cutoff lies ahead (or \
		 a proper error); the wallet panicked instead (see 'attempt to add with overflow' above)"
	);
	let slate: Slate = match init_res.unwrap() {
		Ok(s) => s,
		Err(e) => {
			// a proper refusal of the argument would be acceptable
			println!("init_send_tx refused the TTL: {}", e);
			stopper.store(false, Ordering::Relaxed);
			thread::sleep(Duration::from_millis(200));
			return Ok(());
		}
	};
	println!(
		"slate created at height 10 with ttl_blocks u64::MAX has cutoff {}",
		slate.ttl_cutoff_height
	);
	wallet::controller::owner_single_use(Some(wallet1.clone()), mask1, None, |api, m| {
		api.tx_lock_outputs(m, &slate)?;
		Ok(())
	})?;

	// the recipient (at height 10) must not refuse it as expired
	let mut recv = None;
	wallet::controller::foreign_single_use(wallet2.clone(), mask2_i.clone(), |api| {
		recv = Some(api.receive_tx(&slate, None, None));
		Ok(())
	})?;
	let recv = recv.unwrap();
	println!("recipient at height 10: {:?}", recv.as_ref().map(|_| ()));

	// and the sender's refresh (still height 10) must not cancel it
	let mut entry = None;
	let mut locked = 0;
	wallet::controller::owner_single_use(Some(wallet1.clone()), mask1, None, |api, m| {
		let (_, txs) = api.retrieve_txs(m, true, None, Some(slate.id), None)?;
		entry = Some(txs[0].clone());
		let (_, outs) = api.retrieve_outputs(m, false, false, None)?;
		locked = outs
			.iter()
			.filter(|o| o.output.status == OutputStatus::Locked)
			.count();
		Ok(())
	})?;
	let entry = entry.unwrap();
	println!(
		"sender's entry after a refresh at height 10: {:?}, ttl {:?}, locked outputs {}",
		entry.tx_type, entry.ttl_cutoff_height, locked
	);

	assert!(
		slate.ttl_cutoff_height > 10,
		"a TTL of u64::MAX blocks asked for at height 10 must give a cutoff ahead of height 10 \
		 (or no cutoff), got cutoff {}",
		slate.ttl_cutoff_height
	);
	assert!(
		recv.is_ok(),
		"a slate whose TTL (u64::MAX blocks) lies ahead must not be refused as expired: {:?}",
		recv.as_ref().map(|_| ())
	);
	assert_eq!(
		entry.tx_type,
		TxLogEntryType::TxSent,
		"a pending send whose TTL (u64::MAX blocks) lies ahead must not be cancelled by a refresh"
	);
	assert!(locked > 0);

	stopper.store(false, Ordering::Relaxed);
	thread::sleep(Duration::from_millis(200));
	Ok(())
}

#[test]
fn ttl_overflow() {
	let test_dir = "test_output/finding3";
	setup(test_dir);
	if let Err(e) = ttl_overflow_impl(test_dir) {
		panic!("Libwallet Error: {}", e);
	}
	clean_output_dir(test_dir);
}
