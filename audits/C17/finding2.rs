// C17 finding 2: a refresh at a height beyond the cutoff of an expired, still unconfirmed
// transaction fails with an error and leaves that transaction pending (outputs still
// reserved) when the same refresh has just confirmed, by kernel look-up, another transaction
// that carries a (passed) TTL cutoff: step 5 of `update_wallet_state` works from a list of
// entries read before the kernel look-up and tries to cancel the now confirmed one.
//
// place in controller/tests/ and run with
//   cargo test --offline -p grin_wallet_controller --test finding2 -- --nocapture

#[macro_use]
extern crate log;
extern crate grin_wallet_controller as wallet;
extern crate grin_wallet_impls as impls;
extern crate grin_wallet_util;

use grin_core as core;
use grin_wallet_libwallet as libwallet;
use impls::test_framework::{self, LocalWalletClient};
use libwallet::{InitTxArgs, OutputStatus, Slate, TxLogEntryType};
use std::sync::atomic::Ordering;
use std::thread;
use std::time::Duration;

#[macro_use]
mod common;
use common::{clean_output_dir, create_wallet_proxy, setup};

fn expired_not_cancelled_impl(test_dir: &'static str) -> Result<(), libwallet::Error> {
	let mut wallet_proxy = create_wallet_proxy(test_dir);
	let chain = wallet_proxy.chain.clone();
	let stopper = wallet_proxy.running.clone();

	create_wallet_and_add!(
		client1,
		wallet1,
		mask1_i,
		test_dir,
		"wallet1",
		None,
		&mut wallet_proxy,
		false
	);
	let mask1 = (&mask1_i).as_ref();

	create_wallet_and_add!(
		client2,
		wallet2,
		mask2_i,
		test_dir,
		"wallet2",
		None,
		&mut wallet_proxy,
		false
	);
	let _ = (&client2, &wallet2, &mask2_i);

	thread::spawn(move || {
		if let Err(e) = wallet_proxy.run() {
			error!("Wallet Proxy error: {}", e);
		}
	});

	let reward = core::consensus::REWARD;
	let fee = core::libtx::tx_fee(1, 1, 1);

	// height 10
	let _ = test_framework::award_blocks_to_wallet(&chain, wallet1.clone(), mask1, 10, false);

	// Transaction A: spends exactly one coinbase output (no change output), TTL of 5 blocks
	// (cutoff 15). It is completed and mined straight away (block 11), well before its cutoff.
	let mut slate_a = Slate::blank(2, false);
	wallet::controller::owner_single_use(Some(wallet1.clone()), mask1, None, |api, m| {
		let args = InitTxArgs {
			src_acct_name: None,
			amount: reward - fee,
			minimum_confirmations: 2,
			max_outputs: 500,
			num_change_outputs: 1,
			selection_strategy_is_use_all: false,
			ttl_blocks: Some(5),
			..Default::default()
		};
		slate_a = api.init_send_tx(m, args)?;
		slate_a = client1.send_tx_slate_direct("wallet2", &slate_a)?;
		api.tx_lock_outputs(m, &slate_a)?;
		slate_a = api.finalize_tx(m, &slate_a)?;
		api.post_tx(m, &slate_a, false)?;
		Ok(())
	})?;
	assert_eq!(slate_a.ttl_cutoff_height, 15);

	// Transaction B: an ordinary send (with change), TTL of 2 blocks (height is 11 now, cutoff 13).
	// The recipient answers, the outputs are locked, but it is never finalized.
	let mut slate_b = Slate::blank(2, false);
	wallet::controller::owner_single_use(Some(wallet1.clone()), mask1, None, |api, m| {
		let args = InitTxArgs {
			src_acct_name: None,
			amount: reward,
			minimum_confirmations: 2,
			max_outputs: 500,
			num_change_outputs: 1,
			selection_strategy_is_use_all: false,
			ttl_blocks: Some(2),
			..Default::default()
		};
		slate_b = api.init_send_tx(m, args)?;
		slate_b = client1.send_tx_slate_direct("wallet2", &slate_b)?;
		api.tx_lock_outputs(m, &slate_b)?;
		Ok(())
	})?;
	assert_eq!(slate_b.ttl_cutoff_height, 13);

	// height 16: beyond both cutoffs. A is on chain since block 11, B never was.
	let _ = test_framework::award_blocks_to_wallet(&chain, wallet1.clone(), mask1, 5, false);

	// the sender refreshes
	let mut refresh_res = None;
	wallet::controller::owner_single_use(Some(wallet1.clone()), mask1, None, |api, m| {
		refresh_res = Some(api.retrieve_txs(m, true, None, None, None).map(|r| r.0));
		Ok(())
	})?;
	let refresh_res = refresh_res.unwrap();
	println!("refresh at height 16 returned: {:?}", refresh_res);

	// state after that refresh, read without refreshing again
	let mut a_entry = None;
	let mut b_entry = None;
	let mut locked = 0;
	wallet::controller::owner_single_use(Some(wallet1.clone()), mask1, None, |api, m| {
		let (_, txs) = api.retrieve_txs(m, false, None, Some(slate_a.id), None)?;
		a_entry = Some(txs[0].clone());
		let (_, txs) = api.retrieve_txs(m, false, None, Some(slate_b.id), None)?;
		b_entry = Some(txs[0].clone());
		let (_, outs) = api.retrieve_outputs(m, false, false, None)?;
		locked = outs
			.iter()
			.filter(|o| o.output.status == OutputStatus::Locked)
			.count();
		Ok(())
	})?;
	let a_entry = a_entry.unwrap();
	let b_entry = b_entry.unwrap();
	println!(
		"A: type {:?} confirmed {} ttl {:?}",
		a_entry.tx_type, a_entry.confirmed, a_entry.ttl_cutoff_height
	);
	println!(
		"B: type {:?} confirmed {} ttl {:?}; locked outputs in wallet: {}",
		b_entry.tx_type, b_entry.confirmed, b_entry.ttl_cutoff_height, locked
	);

	// A was mined before its cutoff: it is confirmed, not cancelled (this holds)
	assert_eq!(a_entry.tx_type, TxLogEntryType::TxSent);
	assert!(a_entry.confirmed);

	assert!(
		refresh_res.is_ok(),
		"a refresh at height 16 must succeed, confirm A (mined at 11, cutoff 15) and cancel the \
		 expired B (cutoff 13); it failed with: {:?}",
		refresh_res
	);
	assert_eq!(
		b_entry.tx_type,
		TxLogEntryType::TxSentCancelled,
		"B (cutoff 13, never posted) must be cancelled by a refresh at height 16"
	);
	assert_eq!(
		locked, 0,
		"the outputs reserved by the expired B must be released by a refresh at height 16"
	);

	stopper.store(false, Ordering::Relaxed);
	thread::sleep(Duration::from_millis(200));
	Ok(())
}

#[test]
fn expired_not_cancelled() {
	let test_dir = "test_output/finding2";
	setup(test_dir);
	if let Err(e) = expired_not_cancelled_impl(test_dir) {
		panic!("Libwallet Error: {}", e);
	}
	clean_output_dir(test_dir);
}
