// C17 additional observation (same theme as finding 1): the TTL step of a refresh only looks
// at the transactions of the account that is active during the refresh. A pending send made
// with `src_acct_name` from another account stays pending, with its inputs locked, after the
// wallet's refresh at a height beyond its cutoff.
//
// place in controller/tests/ and run with
//   cargo test --offline -p grin_wallet_controller --test extra_other_account_refresh -- --nocapture

#[macro_use]
extern crate log;
extern crate grin_wallet_controller as wallet;
extern crate grin_wallet_impls as impls;
extern crate grin_wallet_util;

use grin_wallet_libwallet as libwallet;
use impls::test_framework::{self, LocalWalletClient};
use libwallet::{InitTxArgs, OutputStatus, Slate, TxLogEntryType};
use std::sync::atomic::Ordering;
use std::thread;
use std::time::Duration;

#[macro_use]
mod common;
use common::{clean_output_dir, create_wallet_proxy, setup};

fn expired_tx_other_account_impl(test_dir: &'static str) -> Result<(), libwallet::Error> {
	let mut wallet_proxy = create_wallet_proxy(test_dir);
	let chain = wallet_proxy.chain.clone();
	let stopper = wallet_proxy.running.clone();

	create_wallet_and_add!(
		client1,
		wallet1,
		mask1_i,
		test_dir,
		"wallet1",
		None,
		&mut wallet_proxy,
		false
	);
	let mask1 = (&mask1_i).as_ref();

	create_wallet_and_add!(
		client2,
		wallet2,
		mask2_i,
		test_dir,
		"wallet2",
		None,
		&mut wallet_proxy,
		false
	);
	let mask2 = (&mask2_i).as_ref();
	let _ = &client2;

	thread::spawn(move || {
		if let Err(e) = wallet_proxy.run() {
			error!("Wallet Proxy error: {}", e);
		}
	});

	// the sender has a second account, which holds the funds
	wallet::controller::owner_single_use(Some(wallet1.clone()), mask1, None, |api, m| {
		api.create_account_path(m, "account1")?;
		api.set_active_account(m, "account1")?;
		Ok(())
	})?;
	// height 10, mined into account1
	let _ = test_framework::award_blocks_to_wallet(&chain, wallet1.clone(), mask1, 10, false);
	wallet::controller::owner_single_use(Some(wallet1.clone()), mask1, None, |api, m| {
		api.set_active_account(m, "default")?;
		Ok(())
	})?;

	// with 'default' active, wallet1 sends from account1, TTL 2 blocks (cutoff 12)
	let mut slate = Slate::blank(2, false);
	wallet::controller::owner_single_use(Some(wallet1.clone()), mask1, None, |api, m| {
		let args = InitTxArgs {
			src_acct_name: Some("account1".to_owned()),
			amount: 60_000_000_000,
			minimum_confirmations: 2,
			max_outputs: 500,
			num_change_outputs: 1,
			selection_strategy_is_use_all: true,
			ttl_blocks: Some(2),
			..Default::default()
		};
		slate = api.init_send_tx(m, args)?;
		slate = client1.send_tx_slate_direct("wallet2", &slate)?;
		api.tx_lock_outputs(m, &slate)?;
		Ok(())
	})?;
	assert_eq!(slate.ttl_cutoff_height, 12);

	// height 13
	let _ = test_framework::award_blocks_to_wallet(&chain, wallet1.clone(), mask1, 3, false);

	// wallet1 refreshes at height 13
	wallet::controller::owner_single_use(Some(wallet1.clone()), mask1, None, |api, m| {
		let (refreshed, info) = api.retrieve_summary_info(m, true, 1)?;
		assert!(refreshed);
		assert_eq!(info.last_confirmed_height, 13);
		Ok(())
	})?;

	// the state of the transaction, read without another refresh
	let mut entry = None;
	let mut locked = 0;
	wallet::controller::owner_single_use(Some(wallet1.clone()), mask1, None, |api, m| {
		api.set_active_account(m, "account1")?;
		let (_, txs) = api.retrieve_txs(m, false, None, Some(slate.id), None)?;
		entry = Some(txs[0].clone());
		let (_, outs) = api.retrieve_outputs(m, false, false, None)?;
		locked = outs
			.iter()
			.filter(|o| o.output.status == OutputStatus::Locked)
			.count();
		api.set_active_account(m, "default")?;
		Ok(())
	})?;
	let entry = entry.unwrap();
	println!(
		"after the wallet's refresh at 13: entry {:?} ttl {:?}, locked outputs {}",
		entry.tx_type, entry.ttl_cutoff_height, locked
	);
	assert_eq!(
		entry.tx_type,
		TxLogEntryType::TxSentCancelled,
		"the wallet's own pending send (cutoff 12) must be cancelled by its refresh at height 13"
	);
	assert_eq!(locked, 0, "and its reserved outputs released");
	let _ = mask2;

	stopper.store(false, Ordering::Relaxed);
	thread::sleep(Duration::from_millis(200));
	Ok(())
}

#[test]
fn expired_tx_other_account() {
	let test_dir = "test_output/extra_other_account_refresh";
	setup(test_dir);
	if let Err(e) = expired_tx_other_account_impl(test_dir) {
		panic!("Libwallet Error: {}", e);
	}
	clean_output_dir(test_dir);
}
