/* vpshim: LD_PRELOAD persistence-call interposer.
 *
 * Numbers every persistence call (open with O_CREAT/O_TRUNC, write, pwrite, writev, fsync,
 * fdatasync, ftruncate, rename, unlink) whose path / descriptor lies under VP_PREFIX, once the
 * arming file VP_ARM exists. Logs "index op path len" to VP_LOG. At call number VP_AT (1-based)
 * applies VP_MODE:
 *   kill-before   SIGKILL before performing the call
 *   kill-after    perform the call, then SIGKILL
 *   fail:<errno>  return -1 / errno once, do not perform the call, continue
 *   short:<k>     (write-type calls) perform only the first k bytes, then SIGKILL
 * VP_AT=0 only counts and logs.
 */
#define _GNU_SOURCE
#include <dlfcn.h>
#include <errno.h>
#include <fcntl.h>
#include <signal.h>
#include <stdarg.h>
#include <stdio.h>
#include <stdlib.h>
#include <string.h>
#include <sys/stat.h>
#include <sys/types.h>
#include <sys/uio.h>
#include <unistd.h>

static const char *prefix, *armfile;
static int logfd = -1, armed = 0, initialised = 0, fired = 0;
static long at = 0, counter = 0;
static char mode[64];

static ssize_t (*real_write)(int, const void *, size_t);
static ssize_t (*real_pwrite)(int, const void *, size_t, off_t);
static ssize_t (*real_pwrite64)(int, const void *, size_t, off_t);
static ssize_t (*real_writev)(int, const struct iovec *, int);
static int (*real_fsync)(int);
static int (*real_fdatasync)(int);
static int (*real_ftruncate)(int, off_t);
static int (*real_ftruncate64)(int, off_t);
static int (*real_rename)(const char *, const char *);
static int (*real_unlink)(const char *);
static int (*real_open)(const char *, int, ...);
static int (*real_open64)(const char *, int, ...);
static int (*real_openat)(int, const char *, int, ...);

static void init(void) {
	if (initialised) return;
	initialised = 1;
	real_write = dlsym(RTLD_NEXT, "write");
	real_pwrite = dlsym(RTLD_NEXT, "pwrite");
	real_pwrite64 = dlsym(RTLD_NEXT, "pwrite64");
	real_writev = dlsym(RTLD_NEXT, "writev");
	real_fsync = dlsym(RTLD_NEXT, "fsync");
	real_fdatasync = dlsym(RTLD_NEXT, "fdatasync");
	real_ftruncate = dlsym(RTLD_NEXT, "ftruncate");
	real_ftruncate64 = dlsym(RTLD_NEXT, "ftruncate64");
	real_rename = dlsym(RTLD_NEXT, "rename");
	real_unlink = dlsym(RTLD_NEXT, "unlink");
	real_open = dlsym(RTLD_NEXT, "open");
	real_open64 = dlsym(RTLD_NEXT, "open64");
	real_openat = dlsym(RTLD_NEXT, "openat");
	prefix = getenv("VP_PREFIX");
	armfile = getenv("VP_ARM");
	const char *a = getenv("VP_AT");
	at = a ? atol(a) : 0;
	const char *m = getenv("VP_MODE");
	strncpy(mode, m ? m : "count", sizeof(mode) - 1);
	const char *l = getenv("VP_LOG");
	if (l && real_open) logfd = real_open(l, O_WRONLY | O_CREAT | O_APPEND, 0644);
}

static int under_prefix(const char *path) {
	if (!prefix || !path) return 0;
	char buf[4096];
	const char *p = path;
	if (path[0] != '/') {
		if (!getcwd(buf, sizeof(buf) - 2)) return 0;
		size_t n = strlen(buf);
		snprintf(buf + n, sizeof(buf) - n, "/%s", path);
		p = buf;
	}
	return strncmp(p, prefix, strlen(prefix)) == 0;
}

static int fd_path(int fd, char *out, size_t n) {
	char link[64];
	snprintf(link, sizeof(link), "/proc/self/fd/%d", fd);
	ssize_t r = readlink(link, out, n - 1);
	if (r <= 0) return 0;
	out[r] = 0;
	return 1;
}

static int is_armed(void) {
	if (armed) return 1;
	if (!armfile) { armed = 1; return 1; }
	if (access(armfile, F_OK) == 0) armed = 1;
	return armed;
}

/* returns: 0 proceed normally; 1 kill before; 2 kill after; 3 fail (errno set); 4 short write */
static int decide(const char *op, const char *path, long len, long *shortk) {
	if (fired) return 0;
	if (!is_armed()) return 0;
	counter++;
	if (logfd >= 0) {
		char line[4400];
		int n = snprintf(line, sizeof(line), "%ld %s %s %ld\n", counter, op, path, len);
		real_write(logfd, line, n);
	}
	if (at == 0 || counter != at) return 0;
	fired = 1;
	if (!strcmp(mode, "kill-before")) return 1;
	if (!strcmp(mode, "kill-after")) return 2;
	if (!strncmp(mode, "fail:", 5)) { errno = atoi(mode + 5); return 3; }
	if (!strncmp(mode, "short:", 6)) { *shortk = atol(mode + 6); return 4; }
	return 0;
}

static void die(void) {
	if (logfd >= 0) real_fsync(logfd);
	kill(getpid(), SIGKILL);
	for (;;) pause();
}

#define FDCALL(opname, fd, len, CALL, SHORTCALL)                         \
	init();                                                                \
	char p_[4096];                                                         \
	if (fd == logfd || !fd_path(fd, p_, sizeof(p_)) || !under_prefix(p_)) \
		return CALL;                                                       \
	long k_ = 0;                                                           \
	int d_ = decide(opname, p_, (long)(len), &k_);                         \
	if (d_ == 1) die();                                                    \
	if (d_ == 3) return -1;                                                \
	if (d_ == 4) { SHORTCALL; die(); }                                     \
	__typeof__(CALL) r_ = CALL;                                            \
	if (d_ == 2) die();                                                    \
	return r_;

ssize_t write(int fd, const void *buf, size_t n) {
	FDCALL("write", fd, n, real_write(fd, buf, n), real_write(fd, buf, (size_t)k_ < n ? (size_t)k_ : n))
}
ssize_t pwrite(int fd, const void *buf, size_t n, off_t off) {
	FDCALL("pwrite", fd, n, real_pwrite(fd, buf, n, off), real_pwrite(fd, buf, (size_t)k_ < n ? (size_t)k_ : n, off))
}
ssize_t pwrite64(int fd, const void *buf, size_t n, off_t off) {
	FDCALL("pwrite", fd, n, real_pwrite64(fd, buf, n, off), real_pwrite64(fd, buf, (size_t)k_ < n ? (size_t)k_ : n, off))
}
ssize_t writev(int fd, const struct iovec *iov, int cnt) {
	long total = 0;
	for (int i = 0; i < cnt; i++) total += iov[i].iov_len;
	FDCALL("writev", fd, total, real_writev(fd, iov, cnt), real_writev(fd, iov, cnt > 1 ? cnt / 2 : cnt))
}
int fsync(int fd) { FDCALL("fsync", fd, 0, real_fsync(fd), (void)0) }
int fdatasync(int fd) { FDCALL("fdatasync", fd, 0, real_fdatasync(fd), (void)0) }
int ftruncate(int fd, off_t l) { FDCALL("ftruncate", fd, l, real_ftruncate(fd, l), (void)0) }
int ftruncate64(int fd, off_t l) { FDCALL("ftruncate", fd, l, real_ftruncate64(fd, l), (void)0) }

#define PATHCALL(opname, path, CALL)             \
	init();                                        \
	if (!under_prefix(path)) return CALL;          \
	long k_ = 0;                                   \
	int d_ = decide(opname, path, 0, &k_);         \
	if (d_ == 1) die();                            \
	if (d_ == 3) return -1;                        \
	int r_ = CALL;                                 \
	if (d_ == 2 || d_ == 4) die();                 \
	return r_;

int rename(const char *a, const char *b) { PATHCALL("rename", a, real_rename(a, b)) }
int unlink(const char *a) { PATHCALL("unlink", a, real_unlink(a)) }

static int creating(int flags) { return (flags & O_CREAT) || (flags & O_TRUNC); }

int open(const char *path, int flags, ...) {
	init();
	mode_t m = 0;
	if (flags & (O_CREAT | O_TMPFILE)) { va_list ap; va_start(ap, flags); m = va_arg(ap, mode_t); va_end(ap); }
	if (!creating(flags) || !under_prefix(path)) return real_open(path, flags, m);
	long k_ = 0;
	int d_ = decide("open-create", path, 0, &k_);
	if (d_ == 1) die();
	if (d_ == 3) return -1;
	int r = real_open(path, flags, m);
	if (d_ == 2 || d_ == 4) die();
	return r;
}
int open64(const char *path, int flags, ...) {
	init();
	mode_t m = 0;
	if (flags & (O_CREAT | O_TMPFILE)) { va_list ap; va_start(ap, flags); m = va_arg(ap, mode_t); va_end(ap); }
	if (!creating(flags) || !under_prefix(path)) return real_open64(path, flags, m);
	long k_ = 0;
	int d_ = decide("open-create", path, 0, &k_);
	if (d_ == 1) die();
	if (d_ == 3) return -1;
	int r = real_open64(path, flags, m);
	if (d_ == 2 || d_ == 4) die();
	return r;
}
int openat(int dirfd, const char *path, int flags, ...) {
	init();
	mode_t m = 0;
	if (flags & (O_CREAT | O_TMPFILE)) { va_list ap; va_start(ap, flags); m = va_arg(ap, mode_t); va_end(ap); }
	if (!creating(flags) || dirfd != AT_FDCWD || !under_prefix(path)) return real_openat(dirfd, path, flags, m);
	long k_ = 0;
	int d_ = decide("open-create", path, 0, &k_);
	if (d_ == 1) die();
	if (d_ == 3) return -1;
	int r = real_openat(dirfd, path, flags, m);
	if (d_ == 2 || d_ == 4) die();
	return r;
}
