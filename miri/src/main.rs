//! Pure-Rust decoder subset of C09 for the Miri interpreter (undefined behaviour, out-of-bounds,
//! uninitialised reads in the Rust code the inputs reach). Miri cannot cross the secp256k1 / LMDB
//! FFI, so only decoders that stay in Rust are driven: the armor framing + base58 + checksum, the
//! slatepack binary and JSON envelopes, and bech32 slatepack addresses.
//!
//! usage: gwv-miri <seed> <shard> <nshards> <n_inputs>     prints one JSON line with the counts
use grin_wallet_libwallet::{Slatepack, SlatepackAddress, SlatepackArmor, SlatepackBin};
use grin_wallet_util::byte_ser;
use std::convert::TryFrom;
use std::panic;

struct Rng(u64);
impl Rng {
	fn next(&mut self) -> u64 {
		self.0 = self.0.wrapping_add(0x9E3779B97F4A7C15);
		let mut z = self.0;
		z = (z ^ (z >> 30)).wrapping_mul(0xBF58476D1CE4E5B9);
		z = (z ^ (z >> 27)).wrapping_mul(0x94D049BB133111EB);
		z ^ (z >> 31)
	}
	fn below(&mut self, n: u64) -> u64 {
		self.next() % n.max(1)
	}
	fn bytes(&mut self, n: usize) -> Vec<u8> {
		(0..n).map(|_| self.next() as u8).collect()
	}
}

fn mutate(r: &mut Rng, v: &[u8]) -> Vec<u8> {
	let mut m = v.to_vec();
	if m.is_empty() {
		return m;
	}
	match r.below(6) {
		0 => {
			let i = r.below(m.len() as u64) as usize;
			m[i] ^= 1 << r.below(8);
		}
		1 => {
			let i = r.below(m.len() as u64) as usize;
			m.truncate(i);
		}
		2 => {
			let i = r.below(m.len() as u64) as usize;
			m.remove(i);
		}
		3 => {
			let i = r.below(m.len() as u64) as usize;
			m.insert(i, r.next() as u8);
		}
		4 => {
			let i = r.below(m.len() as u64) as usize;
			m[i] = 0xff;
		}
		_ => {
			let i = r.below(m.len() as u64) as usize;
			let j = r.below(m.len() as u64) as usize;
			m.swap(i, j);
		}
	}
	m
}

fn main() {
	let av: Vec<String> = std::env::args().collect();
	let seed: u64 = av.get(1).and_then(|s| s.parse().ok()).unwrap_or(1);
	let shard: u64 = av.get(2).and_then(|s| s.parse().ok()).unwrap_or(0);
	let nshards: u64 = av.get(3).and_then(|s| s.parse().ok()).unwrap_or(1);
	let n: u64 = av.get(4).and_then(|s| s.parse().ok()).unwrap_or(40);
	let mut r = Rng(seed.wrapping_mul(1000003).wrapping_add(shard) ^ 0xC09);
	let _ = nshards;
	grin_core::global::set_local_chain_type(grin_core::global::ChainTypes::AutomatedTesting);
	// a valid plain slatepack in its three forms, built with the wallet's own encoder
	let plen = 60 + r.below(80) as usize;
	let mut sp = Slatepack::default();
	sp.payload = r.bytes(plen);
	let armored = SlatepackArmor::encode(&sp).unwrap_or_default().into_bytes();
	let bin = byte_ser::to_bytes(&SlatepackBin(sp.clone())).unwrap_or_default();
	let json = serde_json::to_vec(&sp).unwrap_or_default();
	let addr = SlatepackAddress::random().to_string().into_bytes();
	if std::env::var("GWV_MIRI_DEBUG").is_ok() {
		eprintln!("armored {} bytes: {:?}", armored.len(), SlatepackArmor::decode(&armored).map(|v| v.len()));
		eprintln!("addr {:?}", String::from_utf8_lossy(&addr));
	}
	panic::set_hook(Box::new(|_| {}));
	let mut counts = [0u64; 8]; // accepted/rejected per entry
	let mut panics: Vec<String> = vec![];
	for i in 0..n {
		let which = i % 4;
		let base: &[u8] = match which {
			0 => &armored,
			1 => &bin,
			2 => &json,
			_ => &addr,
		};
		let input = match r.below(5) {
			0 => {
				let l = r.below(120) as usize;
				r.bytes(l)
			}
			1 => base.to_vec(),
			_ => {
				let mut m = mutate(&mut r, base);
				if r.below(3) == 0 {
					m = mutate(&mut r, &m);
				}
				m
			}
		};
		let res = panic::catch_unwind(|| match which {
			0 => SlatepackArmor::decode(&input).is_ok(),
			1 => byte_ser::from_bytes::<SlatepackBin>(&input).is_ok(),
			2 => serde_json::from_slice::<Slatepack>(&input).is_ok(),
			_ => match std::str::from_utf8(&input) {
				Ok(s) => SlatepackAddress::try_from(s).is_ok(),
				Err(_) => false,
			},
		});
		match res {
			Ok(true) => counts[which as usize * 2] += 1,
			Ok(false) => counts[which as usize * 2 + 1] += 1,
			Err(_) => panics.push(format!("entry {} input {:02x?}", which, &input[..input.len().min(64)])),
		}
	}
	println!(
		"{{\"inputs\":{},\"armor_ok\":{},\"armor_rej\":{},\"bin_ok\":{},\"bin_rej\":{},\"json_ok\":{},\"json_rej\":{},\"addr_ok\":{},\"addr_rej\":{},\"panics\":{}}}",
		n,
		counts[0],
		counts[1],
		counts[2],
		counts[3],
		counts[4],
		counts[5],
		counts[6],
		counts[7],
		serde_json::to_string(&panics).unwrap_or_default()
	);
}
