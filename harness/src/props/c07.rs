//! C07 The foreign API can only add funds, exactly once per slate.

use crate::gen::*;
use crate::props::c09::post;
use crate::util::*;
use crate::world::*;
use grin_util::Mutex;
use grin_wallet_controller::controller::ForeignAPIHandlerV2;
use grin_wallet_libwallet as libwallet;
use grin_wallet_libwallet::slate_versions::v4::{CommitsV4, OutputFeaturesV4, ParticipantDataV4, SlateV4};
use grin_wallet_libwallet::{BlockFees, InitTxArgs, IssueInvoiceTxArgs, OutputData, OutputStatus, Slate, SlateVersion, TxLogEntry, TxLogEntryType, VersionedSlate};
use serde_json::{json, Value};
use std::collections::BTreeMap;
use std::sync::Arc;

type Dump = BTreeMap<Vec<u8>, Vec<u8>>;

fn dump(w: &Wallet, scratch: &str) -> Dump {
	w.db_dump(scratch).into_iter().collect()
}

fn parse_json_value<T: serde::de::DeserializeOwned>(v: &[u8]) -> Option<T> {
	if v.len() < 8 {
		return None;
	}
	serde_json::from_slice(&v[8..]).ok()
}

#[derive(Debug)]
enum CallKind {
	HonestReceive { amount: u64, dest: Option<String> },
	RepeatReceive,
	HostileReceive { amount: u64 },
	BuildCoinbase,
	HostileFinalize,
	CheckVersion,
}

/// frame condition over the raw database content; returns (signature suffix, description)
fn frame(before: &Dump, after: &Dump, kind: &CallKind, ok: bool) -> Vec<(String, String)> {
	let mut v = vec![];
	let mut new_outputs: Vec<OutputData> = vec![];
	let mut new_entries: Vec<TxLogEntry> = vec![];
	for (k, val) in before.iter() {
		let p = k[0] as char;
		match after.get(k) {
			None => match p {
				'o' => v.push(("existing-output-deleted".into(), format!("an existing output record disappeared: {}", trunc(&String::from_utf8_lossy(&val[8..]), 200)))),
				'p' => v.push(("private-context-deleted".into(), "a pending transaction's private context was deleted".into())),
				't' => v.push(("log-entry-deleted".into(), "a log entry disappeared".into())),
				_ => v.push((format!("key-deleted:{}", p), "a record disappeared".into())),
			},
			Some(nv) if nv != val => match p {
				'o' => {
					let a: Option<OutputData> = parse_json_value(val);
					let b: Option<OutputData> = parse_json_value(nv);
					let carve_out = match (&a, &b, kind) {
						// a mining node re-requesting a coinbase may name the still-unconfirmed candidate it replaces
						(Some(a), Some(b), CallKind::BuildCoinbase) => a.is_coinbase && a.status == OutputStatus::Unconfirmed && b.is_coinbase && b.status == OutputStatus::Unconfirmed,
						_ => false,
					};
					if !carve_out {
						v.push((
							format!("existing-output-changed|{}->{}", a.as_ref().map(|o| status_str(&o.status)).unwrap_or("?"), b.as_ref().map(|o| status_str(&o.status)).unwrap_or("?")),
							format!("an existing output record changed: {} -> {}", trunc(&String::from_utf8_lossy(&val[8..]), 260), trunc(&String::from_utf8_lossy(&nv[8..]), 260)),
						));
					}
				}
				'p' => v.push(("private-context-changed".into(), "a pending transaction's private context changed".into())),
				't' => v.push(("log-entry-changed".into(), format!("an existing log entry changed: {} -> {}", trunc(&String::from_utf8_lossy(&val[8..]), 200), trunc(&String::from_utf8_lossy(&nv[8..]), 200)))),
				'i' | 'd' => {} // id / derivation counters
				_ => v.push((format!("key-changed:{}", p), format!("record with prefix '{}' changed", p))),
			},
			_ => {}
		}
	}
	for (k, val) in after.iter() {
		if before.contains_key(k) {
			continue;
		}
		match k[0] as char {
			'o' => {
				if let Some(o) = parse_json_value::<OutputData>(val) {
					new_outputs.push(o)
				}
			}
			't' => {
				if let Some(t) = parse_json_value::<TxLogEntry>(val) {
					new_entries.push(t)
				}
			}
			'i' | 'd' => {}
			p => v.push((format!("key-added:{}", p), format!("a record with prefix '{}' was added", p))),
		}
	}
	for o in new_outputs.iter() {
		if o.status != OutputStatus::Unconfirmed {
			v.push((format!("new-output-not-unconfirmed|{}", status_str(&o.status)), format!("a foreign call created an output with status {}", status_str(&o.status))));
		}
	}
	match kind {
		CallKind::HonestReceive { amount, .. } | CallKind::HostileReceive { amount } => {
			if ok {
				if new_outputs.len() != 1 || new_outputs[0].value != *amount || new_outputs[0].is_coinbase {
					v.push(("receive-output-count-or-amount".into(), format!("a successful receive of amount {} added {} outputs {:?}", amount, new_outputs.len(), new_outputs.iter().map(|o| o.value).collect::<Vec<_>>())));
				}
				if new_entries.len() != 1 || new_entries[0].tx_type != TxLogEntryType::TxReceived || new_entries[0].amount_credited != *amount {
					v.push(("receive-entry-count".into(), format!("a successful receive added {} log entries", new_entries.len())));
				}
			} else if !new_outputs.is_empty() || !new_entries.is_empty() {
				v.push(("refused-receive-added-records".into(), format!("a refused receive added {} outputs and {} entries", new_outputs.len(), new_entries.len())));
			}
		}
		CallKind::RepeatReceive => {
			if ok {
				v.push(("second-delivery-accepted".into(), "a second delivery of the same slate to the same account returned Ok".into()));
			}
			if !new_outputs.is_empty() || !new_entries.is_empty() {
				v.push(("second-delivery-added-records".into(), "a second delivery of the same slate added records".into()));
			}
		}
		CallKind::BuildCoinbase => {
			if new_outputs.len() > 1 || !new_entries.is_empty() || new_outputs.iter().any(|o| !o.is_coinbase) {
				v.push(("build-coinbase-extra-records".into(), "build_coinbase added more than one coinbase candidate".into()));
			}
		}
		CallKind::HostileFinalize | CallKind::CheckVersion => {
			if !new_outputs.is_empty() || !new_entries.is_empty() {
				v.push(("records-added".into(), "finalize_tx/check_version of a non-reply added records".into()));
			}
		}
	}
	v
}

fn versioned(s: &Slate) -> Value {
	serde_json::to_value(VersionedSlate::into_version(s.clone(), SlateVersion::V4).unwrap()).unwrap()
}

pub fn run(a: &Args) {
	let mut rep = Report::new("C07");
	let mut rng = Rng::new(a.shard_seed() ^ 0xC07);
	let scratch = format!("{}/scratch", a.work);
	std::fs::create_dir_all(&scratch).unwrap();
	let mut w = World::two(&format!("{}/world", a.work));
	let _ = w.wallets[0].create_account("acct1");
	let _ = w.mine_n(Some(0), 5);
	let _ = w.mine_n(Some(1), 5);
	let _ = w.mine_n(None, 3);
	let _ = w.wallets[0].refresh();
	let _ = w.wallets[1].refresh();
	// victim state: a pending (locked) send awaiting its reply, an issued invoice, an unconfirmed coinbase candidate
	let mut own_s1: Option<Slate> = None;
	let mut own_reply: Option<Slate> = None;
	let mut own_invoice: Option<Slate> = None;
	let mut late_s1: Option<Slate> = None;
	let mut late_reply: Option<Slate> = None;
	let _ = (|| -> Result<(), libwallet::Error> {
		let s1 = w.wallets[0].init_send(InitTxArgs { amount: 3_000_000_000, minimum_confirmations: 1, selection_strategy_is_use_all: false, ..Default::default() })?;
		w.wallets[0].lock_outputs(&s1)?;
		own_reply = w.wallets[1].receive(&s1, None).ok();
		own_s1 = Some(s1);
		own_invoice = Some(w.wallets[0].issue_invoice(IssueInvoiceTxArgs { amount: 2_000_000_000, ..Default::default() })?);
		// a late-locked pending send (nothing reserved yet: inputs are selected when the reply is finalized)
		let ls1 = w.wallets[0].init_send(InitTxArgs { amount: 2_500_000_000, minimum_confirmations: 1, selection_strategy_is_use_all: false, late_lock: Some(true), ..Default::default() })?;
		late_reply = w.wallets[1].receive(&ls1, None).ok();
		late_s1 = Some(ls1);
		let _ = w.wallets[0].build_coinbase(&BlockFees { fees: 0, key_id: None, height: w.height() + 1 })?;
		Ok(())
	})();
	let handler = ForeignAPIHandlerV2::new(w.wallets[0].inst.clone(), Arc::new(Mutex::new(None)), false, Mutex::new(None));
	let g = SlateGen::new(&mut rng);
	let mut st = FieldStats::default();
	let victim_outputs: Vec<OutputData> = w.wallets[0].all_outputs().unwrap_or_default();
	let n_calls = if a.thorough() { 2500 } else { 600 };
	let mut honest_slates: Vec<(Slate, Option<String>)> = vec![];
	let spend0 = |w: &World| w.wallets[0].info(false, 1).map(|i| i.1.amount_currently_spendable).unwrap_or(0);

	for ci in 0..n_calls {
		let choice = rng.below(100);
		let via_rpc = rng.chance(1, 3);
		let before = dump(&w.wallets[0], &scratch);
		let sp_before = spend0(&w);
		let files_before = w.wallets[0].files_digest();
		rep.eval();
		let (kind, ok, detail, reply): (CallKind, bool, Value, Option<Slate>) = if choice < 12 {
			// honest receive from wallet 1
			let amount = 100_000_000 + rng.below(2_000_000_000);
			let s1 = match w.wallets[1].init_send(InitTxArgs { amount, minimum_confirmations: 1, selection_strategy_is_use_all: false, ..Default::default() }) {
				Ok(s) => s,
				Err(_) => {
					let _ = w.mine(Some(1), true);
					let _ = w.wallets[1].refresh();
					continue;
				}
			};
			let dest = if rng.chance(1, 3) { Some("acct1".to_string()) } else { None };
			let r = catch(|| w.wallets[0].receive(&s1, dest.as_deref()));
			let _ = w.wallets[1].cancel(None, Some(s1.id));
			honest_slates.push((s1.clone(), dest.clone()));
			match r {
				Err((loc, msg)) => {
					rep.violation(&format!("C07|panic|{}", loc), &msg, json!({"call": "receive_tx(honest)"}));
					continue;
				}
				Ok(r) => (CallKind::HonestReceive { amount, dest: dest.clone() }, r.is_ok(), json!({"call": "receive_tx", "honest": true, "amount": amount.to_string(), "dest": dest}), r.ok()),
			}
		} else if choice < 22 && !honest_slates.is_empty() {
			// second delivery of an earlier honest slate to the same account
			let (s1, dest) = rng.pick(&honest_slates).clone();
			let r = catch(|| w.wallets[0].receive(&s1, dest.as_deref()));
			match r {
				Err((loc, msg)) => {
					rep.violation(&format!("C07|panic|{}", loc), &msg, json!({"call": "receive_tx(repeat)"}));
					continue;
				}
				Ok(r) => (CallKind::RepeatReceive, r.is_ok(), json!({"call": "receive_tx", "repeat_of": s1.id.to_string(), "dest": dest}), None),
			}
		} else if choice < 60 {
			// hostile receive: structural slate with the victim's own data mixed in
			let mut v4: SlateV4 = g.slate_v4(&mut rng, &mut st, 3);
			match rng.below(6) {
				0 => {
					if let Some(s) = &own_s1 {
						v4.id = s.id; // the id of the victim's own pending send
					}
				}
				1 => {
					if let Some(s) = &own_invoice {
						v4.id = s.id;
					}
				}
				2 => {
					// the victim's own output commitments as inputs / outputs of the slate
					let mut coms = v4.coms.clone().unwrap_or_default();
					for o in victim_outputs.iter().take(3) {
						coms.push(CommitsV4 { f: OutputFeaturesV4(if o.is_coinbase { 1 } else { 0 }), c: w.wallets[0].commit_of(o), p: if rng.bool() { None } else { Some(g.real_proof) } });
					}
					v4.coms = Some(coms);
				}
				3 => {
					// the victim's own public participant data
					if let Some(s) = &own_s1 {
						if let Some(pd) = s.participant_data.get(0) {
							v4.sigs.push(ParticipantDataV4 { xs: pd.public_blind_excess, nonce: pd.public_nonce, part: pd.part_sig });
						}
					}
				}
				_ => {}
			}
			if rng.chance(2, 3) {
				// make it look like a proper S1 so that it gets far
				v4.sta = grin_wallet_libwallet::slate_versions::v4::SlateStateV4::Standard1;
				v4.feat = 0;
				v4.feat_args = None;
				v4.ttl = 0;
				if v4.sigs.is_empty() {
					v4.sigs.push(ParticipantDataV4 { xs: *rng.pick(&g.pubkeys), nonce: *rng.pick(&g.pubkeys), part: None });
				}
				v4.sigs.truncate(1);
				v4.sigs[0].part = None;
				if rng.bool() {
					v4.coms = None;
				}
			}
			let amount = v4.amt;
			let slate = Slate::from(v4.clone());
			let dest = if rng.chance(1, 4) { Some("acct1") } else { None };
			let r = if via_rpc {
				let req = json!({"jsonrpc":"2.0","method":"receive_tx","id":1,"params":[serde_json::to_value(&v4).unwrap(), dest, null]});
				catch(|| post(&handler, req.to_string().into_bytes()).map(|b| serde_json::from_slice::<Value>(&b).map(|v| !v["result"]["Ok"].is_null()).unwrap_or(false)).unwrap_or(false))
			} else {
				catch(|| w.wallets[0].receive(&slate, dest).is_ok())
			};
			match r {
				Err((loc, msg)) => {
					rep.violation(&format!("C07|panic|{}", loc), &msg, json!({"call": "receive_tx(hostile)", "slate_v4": serde_json::to_value(&v4).unwrap()}));
					continue;
				}
				Ok(ok) => (CallKind::HostileReceive { amount }, ok, json!({"call": "receive_tx", "hostile": true, "via_rpc": via_rpc, "slate_v4": serde_json::to_value(&v4).unwrap()}), None),
			}
		} else if choice < 78 {
			// build_coinbase with arbitrary fees/height and key ids, including paths of existing outputs
			let key_id = match rng.below(4) {
				0 => None,
				1 => Some(rng.pick(&victim_outputs).key_id.clone()),
				2 => w.wallets[0].all_outputs().ok().and_then(|o| o.iter().find(|o| o.status == OutputStatus::Unconfirmed).map(|o| o.key_id.clone())),
				_ => Some(grin_keychain::ExtKeychain::derive_key_id(3, rng.below(3) as u32, rng.below(50) as u32, 0, 0)),
			};
			use grin_keychain::Keychain;
			let bf = BlockFees { fees: *rng.pick(&[0u64, 1, 23_000_000, u64::MAX / 4]), key_id: key_id.clone(), height: *rng.pick(&[0u64, 1, w.height() + 1, u64::MAX - 10]) };
			let r = if via_rpc {
				let req = json!({"jsonrpc":"2.0","method":"build_coinbase","id":1,"params":[{"fees": bf.fees.to_string(), "height": bf.height.to_string(), "key_id": key_id.as_ref().map(idstr)}]});
				catch(|| post(&handler, req.to_string().into_bytes()).map(|b| serde_json::from_slice::<Value>(&b).map(|v| !v["result"]["Ok"].is_null()).unwrap_or(false)).unwrap_or(false))
			} else {
				catch(|| w.wallets[0].build_coinbase(&bf).is_ok())
			};
			match r {
				Err((loc, msg)) => {
					rep.violation(&format!("C07|panic|{}", loc), &msg, json!({"call": "build_coinbase", "fees": bf.fees.to_string(), "height": bf.height.to_string()}));
					continue;
				}
				Ok(ok) => (CallKind::BuildCoinbase, ok, json!({"call": "build_coinbase", "via_rpc": via_rpc, "fees": bf.fees.to_string(), "height": bf.height.to_string(), "key_id": key_id.as_ref().map(idstr), "names_existing_output": key_id.as_ref().map(|k| victim_outputs.iter().any(|o| o.key_id == *k))}), None),
			}
		} else if choice < 96 {
			// finalize_tx with something that is not a validly counter-signed reply to an own slate
			let slate: Slate = match rng.below(9) {
				8 => {
					// a reply to the late-locked send fabricated by someone who holds its first slate: a throwaway key's
					// public data and a partial signature that verifies, but no output - the transaction it would give
					// does not balance, so this is not a valid counter-signature of the victim's transaction
					let mut s = late_s1.clone().unwrap_or_else(|| Slate::blank(2, false));
					let kc = <grin_keychain::ExtKeychain as grin_keychain::Keychain>::from_seed(&[0x77u8; 32], true).unwrap();
					s.tx = Some(Slate::empty_transaction());
					let mut ctx = grin_wallet_libwallet::Context::new(grin_keychain::Keychain::secp(&kc), &<grin_keychain::ExtKeychain as grin_keychain::Keychain>::derive_key_id(2, 0, 0, 0, 0), false, false);
					let _ = s.fill_round_1(&kc, &mut ctx);
					let _ = s.fill_round_2(&kc, &ctx.sec_key, &ctx.sec_nonce);
					let _ = s.remove_other_sigdata(&kc, &ctx.sec_nonce, &ctx.sec_key);
					s.amount = 0;
					s.fee_fields = grin_core::core::FeeFields::zero();
					s.state = grin_wallet_libwallet::SlateState::Standard2;
					rep.count("hostile-finalize:fabricated-reply-to-the-late-locked-send(throwaway-key)");
					s
				}
				5 => {
					// the victim's late-locked S1 echoed back as if it were a reply
					let mut s = late_s1.clone().unwrap_or_else(|| Slate::blank(2, false));
					s.state = grin_wallet_libwallet::SlateState::Standard2;
					s
				}
				6 => {
					// the genuine reply to the late-locked send with its partial signature damaged
					let mut s = late_reply.clone().unwrap_or_else(|| Slate::blank(2, false));
					for p in s.participant_data.iter_mut() {
						if let Some(sig) = p.part_sig {
							let mut raw = sig.to_raw_data();
							raw[11] ^= 4;
							p.part_sig = grin_util::secp::Signature::from_raw_data(&raw).ok();
						}
					}
					s
				}
				7 => {
					// ... or with another transaction's recipient data (signature made for other keys)
					let mut s = late_reply.clone().unwrap_or_else(|| Slate::blank(2, false));
					if let Some(o) = &own_reply {
						s.participant_data = o.participant_data.clone();
					}
					s
				}
				0 => Slate::from(g.slate_v4(&mut rng, &mut st, 2)),
				1 => own_s1.clone().unwrap_or_else(|| Slate::blank(2, false)), // the victim's own S1 echoed back
				2 => {
					// the genuine reply with its partial signature damaged
					let mut s = own_reply.clone().unwrap_or_else(|| Slate::blank(2, false));
					for p in s.participant_data.iter_mut() {
						if let Some(sig) = p.part_sig {
							let mut raw = sig.to_raw_data();
							raw[9] ^= 2;
							p.part_sig = grin_util::secp::Signature::from_raw_data(&raw).ok();
						}
					}
					s
				}
				3 => {
					// reply whose recipient output was removed
					let mut s = own_reply.clone().unwrap_or_else(|| Slate::blank(2, false));
					s.tx = Some(Slate::empty_transaction());
					s
				}
				_ => {
					// own invoice id with a fabricated Invoice2
					let mut s = Slate::from(g.slate_v4(&mut rng, &mut st, 2));
					if let Some(i) = &own_invoice {
						s.id = i.id;
					}
					s.state = grin_wallet_libwallet::SlateState::Invoice2;
					s
				}
			};
			let r = if via_rpc {
				let req = json!({"jsonrpc":"2.0","method":"finalize_tx","id":1,"params":[versioned(&slate)]});
				catch(|| post(&handler, req.to_string().into_bytes()).map(|b| serde_json::from_slice::<Value>(&b).map(|v| !v["result"]["Ok"].is_null()).unwrap_or(false)).unwrap_or(false))
			} else {
				catch(|| w.wallets[0].foreign_finalize(&slate).is_ok())
			};
			match r {
				Err((loc, msg)) => {
					rep.violation(&format!("C07|panic|{}", loc), &msg, json!({"call": "finalize_tx(hostile)"}));
					continue;
				}
				Ok(ok) => (CallKind::HostileFinalize, ok, json!({"call": "finalize_tx", "hostile": true, "via_rpc": via_rpc, "slate": versioned(&slate)}), None),
			}
		} else {
			let req = json!({"jsonrpc":"2.0","method":"check_version","id":1,"params":[]});
			let ok = post(&handler, req.to_string().into_bytes()).is_ok();
			(CallKind::CheckVersion, ok, json!({"call": "check_version"}), None)
		};
		let after = dump(&w.wallets[0], &scratch);
		let mut viols = frame(&before, &after, &kind, ok);
		if let CallKind::HostileFinalize = kind {
			if ok {
				viols.push(("non-reply-finalized".into(), "finalize_tx accepted something that is not a validly counter-signed reply to an own slate".into()));
			}
		}
		let sp_after = spend0(&w);
		if sp_after < sp_before {
			viols.push(("spendable-decreased".into(), format!("spendable balance dropped from {} to {} after a foreign call", sp_before, sp_after)));
		}
		if w.wallets[0].files_digest() != files_before {
			viols.push(("files-changed".into(), "a foreign call changed a stored transaction or the seed file".into()));
		}
		// reply of a successful honest receive: only the recipient's own signature data
		if let (CallKind::HonestReceive { .. }, Some(r)) = (&kind, &reply) {
			let sent: Vec<_> = honest_slates.last().map(|s| s.0.participant_data.clone()).unwrap_or_default();
			if r.participant_data.len() != 1 || r.participant_data.iter().any(|p| sent.iter().any(|q| q.public_nonce == p.public_nonce)) || r.participant_data[0].part_sig.is_none() {
				viols.push(("reply-carries-foreign-participant-data".into(), format!("the receive reply carries {} participant entries (expected only the recipient's own, signed)", r.participant_data.len())));
			}
			// destination account
			if let CallKind::HonestReceive { dest, .. } = &kind {
				let want = dest.clone().unwrap_or("default".into());
				let path = w.wallets[0].accounts().unwrap_or_default().into_iter().find(|x| x.label == want).map(|x| x.path);
				let newest = after.iter().filter(|(k, _)| !before.contains_key(*k) && k[0] == b'o').filter_map(|(_, v)| parse_json_value::<OutputData>(v)).next();
				if let (Some(p), Some(o)) = (path, newest) {
					if o.root_key_id != p {
						viols.push(("received-into-wrong-account".into(), format!("the output was added to another account than {}", want)));
					}
				}
			}
		}
		let kname = format!("{:?}", kind).split(|c: char| !c.is_alphanumeric()).next().unwrap_or("").to_string();
		for (sig, what) in viols.iter() {
			rep.violation(&format!("C07|{}|{}", sig, kname), &format!("[call {} {}] {}", ci, kname, what), detail.clone());
		}
		rep.count(&format!("{}:{}", kname, if ok { "ok" } else { "refused" }));
		// behaviour class: call kind, outcome, transport, whether records were added, the slate's state and
		// number of participants/commitments (hostile slates), which kind of key a coinbase request named
		let sl = &detail["slate"];
		let sub = (
			sl["sta"].as_str().unwrap_or("").to_string(),
			sl["sigs"].as_array().map(|a| std::cmp::min(a.len(), 3)),
			sl["coms"].as_array().map(|a| std::cmp::min(a.len(), 3)),
			detail["dest"].as_str().unwrap_or("").to_string(),
			detail["key_id"].as_str().map(|k| k.len()),
		);
		rep.distinct(&(kname.clone(), ok, via_rpc, after.len() > before.len(), sub));
		// Some received payments then go through "confirmed, reorganised away, found reverted by a scan": the
		// records are put into the state that leaves (entry TxReverted, output Reverted). A later second delivery
		// of that slate is still a second delivery.
		if let CallKind::HonestReceive { .. } = kind {
			if ok && rng.chance(1, 3) {
				if let Some((s1, _)) = honest_slates.last() {
					let id = s1.id;
					let wal = &w.wallets[0];
					let r = (|| -> Result<(), libwallet::Error> {
						let txs = wal.all_txs()?;
						let outs = wal.all_outputs()?;
						with_backend!(wal, b, {
							let mut batch = b.batch(wal.m())?;
							for t in txs.iter().filter(|t| t.tx_slate_id == Some(id) && t.tx_type == grin_wallet_libwallet::TxLogEntryType::TxReceived) {
								let mut t2 = t.clone();
								t2.tx_type = grin_wallet_libwallet::TxLogEntryType::TxReverted;
								t2.confirmed = false;
								let parent = t2.parent_key_id.clone();
								for o in outs.iter().filter(|o| o.tx_log_entry == Some(t.id) && o.root_key_id == t.parent_key_id) {
									let mut o2 = o.clone();
									o2.status = grin_wallet_libwallet::OutputStatus::Reverted;
									batch.save(o2)?;
								}
								batch.save_tx_log_entry(t2, &parent)?;
							}
							batch.commit()?;
							Ok(())
						})
					})();
					if r.is_ok() {
						rep.count("received-payment-put-into-reverted-state");
					}
				}
			}
		}
		if rep.samples.len() < 5 && viols.is_empty() && ci % 37 == 5 {
			rep.sample(json!({"call": kname, "via_rpc": via_rpc, "outcome": if ok {"ok"} else {"refused"}, "records_before": before.len(), "records_after": after.len()}));
		}
	}
	rep.write(&a.out);
}
