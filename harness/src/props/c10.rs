//! C10 Encrypted slatepacks are readable only by their recipients and tamper-evident.

use crate::gen::*;
use crate::util::*;
use crate::world::*;
use ed25519_dalek::SecretKey as DalekSecretKey;
use grin_core::global;
use grin_wallet_libwallet::api_impl::owner;
use grin_wallet_libwallet::slate_versions::v4::SlateV4;
use grin_wallet_libwallet::{
	Slate, SlateVersion, Slatepack, SlatepackAddress, SlatepackBin, Slatepacker, SlatepackerArgs,
	VersionedBinSlate, VersionedSlate,
};
use grin_wallet_util::byte_ser;
use serde_json::{json, Value};
use sha2::{Digest, Sha256};
use std::convert::TryFrom;

fn contains(hay: &[u8], needle: &[u8]) -> bool {
	if needle.is_empty() || hay.len() < needle.len() {
		return false;
	}
	hay.windows(needle.len()).any(|w| w == needle)
}

fn slate_bin(s: &Slate) -> Vec<u8> {
	let v = VersionedSlate::into_version(s.clone(), SlateVersion::V4).unwrap();
	let b = VersionedBinSlate::try_from(v).unwrap();
	byte_ser::to_bytes(&b).unwrap()
}

/// base58-decode the armor payload independently (header/footer stripped)
fn armor_payload(armored: &str) -> Option<Vec<u8>> {
	let first = armored.find('.')?;
	let rest = &armored[first + 1..];
	let second = rest.find('.')?;
	let body: String = rest[..second]
		.chars()
		.filter(|c| !['>', '\n', '\r', '\t', ' '].contains(c))
		.collect();
	bs58::decode(body.as_bytes()).into_vec().ok()
}

fn check4(payload: &[u8]) -> [u8; 4] {
	let a = Sha256::digest(payload);
	let b = Sha256::digest(&a);
	[b[0], b[1], b[2], b[3]]
}

struct Msg {
	armored: String,
	binary: Vec<u8>,
	json: String,
}

fn unpack(bytes: &[u8], key: Option<&DalekSecretKey>) -> Result<(Slate, Option<SlatepackAddress>), String> {
	let p = Slatepacker::new(SlatepackerArgs {
		sender: None,
		recipients: vec![],
		dec_key: key,
	});
	let sp = p.deser_slatepack(bytes, true).map_err(|e| format!("{:?}", e))?;
	let s = p.get_slate(&sp).map_err(|e| format!("{:?}", e))?;
	Ok((s, sp.sender))
}

fn edits_of_text(rng: &mut Rng, t: &str, budget: usize, exhaustive: bool) -> Vec<(String, String)> {
	// (kind, edited)
	let chars: Vec<char> = t.chars().collect();
	let n = chars.len();
	let alphabet: Vec<char> = "123456789ABCDEFGHJKLMNPQRSTUVWXYZabcdefghijkmnopqrstuvwxyz. \n>0OIl".chars().collect();
	let mut out = vec![];
	let positions: Vec<usize> = if exhaustive { (0..n).collect() } else { (0..budget).map(|_| rng.usize(n)).collect() };
	for &i in positions.iter() {
		// substitution
		let mut c = chars.clone();
		let mut r = *rng.pick(&alphabet);
		if r == c[i] {
			r = if r == 'z' { 'y' } else { 'z' };
		}
		c[i] = r;
		out.push(("substitute".to_string(), c.iter().collect()));
		// deletion
		let mut c = chars.clone();
		c.remove(i);
		out.push(("delete".to_string(), c.iter().collect()));
		// insertion
		let mut c = chars.clone();
		c.insert(i, *rng.pick(&alphabet));
		out.push(("insert".to_string(), c.iter().collect()));
		// transposition
		if i + 1 < n && chars[i] != chars[i + 1] {
			let mut c = chars.clone();
			c.swap(i, i + 1);
			out.push(("transpose".to_string(), c.iter().collect()));
		}
	}
	out
}

fn judge_message(
	rep: &mut Report,
	rng: &mut Rng,
	s: &Slate,
	v4j: &Value,
	sender: &Option<SlatepackAddress>,
	recipients: &[(DalekSecretKeyBytes, SlatepackAddress)],
	others: &[DalekSecretKeyBytes],
	m: &Msg,
	edit_budget: usize,
	exhaustive_edits: bool,
) {
	let case = |extra: Value| json!({"slate_v4": v4j, "recipients": recipients.len(), "sender": sender.as_ref().map(|a| a.to_string()), "armored": m.armored, "detail": extra});
	let encrypted = !recipients.is_empty();
	let forms: Vec<(&str, Vec<u8>)> = vec![
		("armored", m.armored.clone().into_bytes()),
		("binary", m.binary.clone()),
		("json", m.json.clone().into_bytes()),
	];
	// (1) each recipient recovers slate and sender
	if encrypted {
		for (fname, bytes) in forms.iter() {
			for (ri, r) in recipients.iter().enumerate() {
				rep.eval();
				let k = DalekSecretKey::from_bytes(&r.0).unwrap();
				match catch(|| unpack(bytes, Some(&k))) {
					Ok(Ok((d, snd))) => {
						let df = diff_slate(s, &d);
						if !df.is_empty() || snd != *sender {
							rep.violation(&format!("C10|recipient-decodes-different|{}", fname), &format!("recipient {} of {} decodes a different slate/sender: {:?}", ri + 1, recipients.len(), df), case(json!({"form": fname})));
						} else {
							rep.count("recipient-decrypt-ok");
						}
					}
					Ok(Err(e)) => rep.violation(
						&format!("C10|recipient-cannot-decrypt|{}|recipient-index={}", fname, if ri == 0 { "first" } else { "later" }),
						&format!("recipient {} of {} cannot decrypt: {}", ri + 1, recipients.len(), e),
						case(json!({"form": fname, "recipient_index": ri})),
					),
					Err((loc, msg)) => rep.violation(&format!("C10|panic|{}", loc), &msg, case(json!({"form": fname}))),
				}
			}
			// (2) no other key
			for (oi, o) in others.iter().enumerate() {
				if recipients.iter().any(|r| r.0 == *o) {
					continue;
				}
				rep.eval();
				let k = DalekSecretKey::from_bytes(o).unwrap();
				match catch(|| unpack(bytes, Some(&k))) {
					Ok(Ok(_)) => rep.violation(&format!("C10|non-recipient-decrypts|{}", fname), &format!("non-recipient key #{} decrypted the slatepack", oi), case(json!({"form": fname}))),
					Ok(Err(_)) => rep.count("non-recipient-refused"),
					Err((loc, msg)) => rep.violation(&format!("C10|panic|{}", loc), &msg, case(json!({"form": fname}))),
				}
			}
			// without any key get_slate must not yield the slate
			rep.eval();
			match catch(|| unpack(bytes, None)) {
				Ok(Ok((d, _))) => {
					if diff_slate(s, &d).is_empty() {
						rep.violation(&format!("C10|readable-without-key|{}", fname), "slate recovered from an encrypted slatepack without a key", case(json!({"form": fname})));
					}
				}
				_ => rep.count("no-key-refused"),
			}
		}
		// (3) encoded form contains neither the slate bytes nor the sender address in clear
		let sb = slate_bin(s);
		let sj = serde_json::to_string(s).unwrap_or_default();
		let mut needles: Vec<(String, Vec<u8>)> = vec![("slate-binary".into(), sb.clone()), ("slate-json".into(), sj.clone().into_bytes())];
		// distinctive sub-strings of the slate: id bytes, id text, participant keys
		needles.push(("slate-id-bytes".into(), s.id.as_bytes().to_vec()));
		needles.push(("slate-id-text".into(), s.id.to_string().into_bytes()));
		if let Some(a) = sender {
			needles.push(("sender-bech32".into(), a.to_string().into_bytes()));
			needles.push(("sender-key-raw".into(), a.pub_key.to_bytes().to_vec()));
			needles.push(("sender-key-hex".into(), hex(&a.pub_key.to_bytes()).into_bytes()));
		}
		let mut hays: Vec<(String, Vec<u8>)> = vec![
			("armored-text".into(), m.armored.clone().into_bytes()),
			("binary".into(), m.binary.clone()),
			("json-text".into(), m.json.clone().into_bytes()),
		];
		if let Some(p) = armor_payload(&m.armored) {
			hays.push(("armored-base58-decoded".into(), p));
		}
		if let Ok(v) = serde_json::from_str::<Value>(&m.json) {
			if let Some(pl) = v["payload"].as_str() {
				if let Ok(b) = base64::decode(pl) {
					hays.push(("json-payload-base64-decoded".into(), b));
				}
			}
			if !v["sender"].is_null() {
				rep.violation("C10|sender-in-clear|json-field", "JSON form of an encrypted slatepack has a clear 'sender' field", case(json!({})));
			}
		}
		for (hn, h) in hays.iter() {
			for (nn, n) in needles.iter() {
				rep.eval();
				if contains(h, n) {
					rep.violation(&format!("C10|cleartext|{}|in={}", nn, hn), &format!("{} occurs in clear in the {} form of an encrypted slatepack", nn, hn), case(json!({})));
				}
			}
		}
		rep.count("cleartext-searches");
	}
	// (4) tampering: every edit of the message is rejected or decodes to the identical slate+sender
	let key = recipients.get(0).map(|r| DalekSecretKey::from_bytes(&r.0).unwrap());
	let mut judge_edit = |rep: &mut Report, kind: &str, form: &str, edited: &[u8]| {
		rep.eval();
		match catch(|| unpack(edited, key.as_ref())) {
			Ok(Err(_)) => {
				rep.count(&format!("edit-rejected:{}:{}", form, kind));
			}
			Ok(Ok((d, snd))) => {
				let same = diff_slate(s, &d).is_empty() && snd == *sender;
				if same {
					rep.count(&format!("edit-harmless:{}:{}", form, kind));
				} else if !encrypted && form == "armored" {
					// unencrypted armor: a different slate is only acceptable when the 4-byte check
					// genuinely matches (independent recomputation): inherent 2^-32 collision
					let text = String::from_utf8_lossy(edited).to_string();
					let collided = armor_payload(&text).map(|p| p.len() >= 4 && check4(&p[4..]) == [p[0], p[1], p[2], p[3]]).unwrap_or(false);
					if collided {
						rep.count("inherent-checksum-collision");
					} else {
						rep.violation(&format!("C10|armor-corruption-undetected|{}", kind), "edited unencrypted armor decoded to a different slate although its checksum does not match", json!({"slate_v4": v4j, "edited": String::from_utf8_lossy(edited), "original": m.armored}));
					}
				} else if encrypted {
					rep.violation(&format!("C10|tampered-ciphertext-accepted|{}|{}", form, kind), "edited encrypted slatepack decoded to a different slate or sender", json!({"slate_v4": v4j, "form": form, "edited_hex": hex(edited), "original_hex": hex(if form == "binary" { &m.binary } else { m.armored.as_bytes() })}));
				} else {
					// unencrypted binary/JSON forms carry no integrity protection: not covered by the property
					rep.count(&format!("edit-unprotected-form:{}:{}", form, kind));
				}
			}
			Err((loc, msg)) => rep.violation(&format!("C10|panic-on-edit|{}", loc), &format!("decoder panicked on an edited message at {}: {}", loc, msg), json!({"form": form, "edited_hex": hex(edited)})),
		}
	};
	for (kind, e) in edits_of_text(rng, &m.armored, edit_budget, exhaustive_edits) {
		judge_edit(rep, &kind, "armored", e.as_bytes());
	}
	if encrypted {
		// single-byte edits of the binary form and of the JSON payload
		let nb = m.binary.len();
		let pos: Vec<usize> = if exhaustive_edits { (0..nb).collect() } else { (0..edit_budget).map(|_| rng.usize(nb)).collect() };
		for i in pos {
			let mut b = m.binary.clone();
			b[i] ^= 1 << rng.below(8);
			judge_edit(rep, "bitflip", "binary", &b);
		}
		if let Ok(mut v) = serde_json::from_str::<Value>(&m.json) {
			if let Some(pl) = v["payload"].as_str().and_then(|p| base64::decode(p).ok()) {
				for _ in 0..std::cmp::min(edit_budget, 40) {
					let mut b = pl.clone();
					let i = rng.usize(b.len());
					b[i] ^= 1 << rng.below(8);
					v["payload"] = Value::String(base64::encode(&b));
					judge_edit(rep, "bitflip", "json-payload", v.to_string().as_bytes());
				}
			}
		}
	}
}

pub fn run(a: &Args) {
	global::set_local_chain_type(global::ChainTypes::Mainnet);
	let mut rep = Report::new("C10");
	let mut rng = Rng::new(a.shard_seed() ^ 0xC10);
	let g = SlateGen::new(&mut rng);
	let mut st = FieldStats::default();
	let n_msgs = if a.thorough() { 400 } else { 20 };

	for mi in 0..n_msgs {
		let (v4, s) = g.slate(&mut rng, &mut st, if mi % 10 == 0 { 12 } else { 2 });
		let v4j = serde_json::to_value(&v4).unwrap();
		let n_rec = if mi % 5 == 0 { 0 } else { 1 + rng.usize(4) };
		let mut recipients: Vec<(DalekSecretKeyBytes, SlatepackAddress)> = vec![];
		while recipients.len() < n_rec {
			let r = g.address(&mut rng);
			if !recipients.iter().any(|x| x.0 == r.0) {
				recipients.push(r);
			}
		}
		let sender = if rng.chance(3, 4) { Some(g.address(&mut rng).1) } else { None };
		let packer = Slatepacker::new(SlatepackerArgs {
			sender: sender.clone(),
			recipients: recipients.iter().map(|r| r.1.clone()).collect(),
			dec_key: None,
		});
		let sp = match packer.create_slatepack(&s) {
			Ok(sp) => sp,
			Err(e) => {
				rep.inconclusive(&format!("create_slatepack failed: {:?}", e));
				continue;
			}
		};
		let m = Msg {
			armored: packer.armor_slatepack(&sp).unwrap(),
			binary: byte_ser::to_bytes(&SlatepackBin(sp.clone())).unwrap(),
			json: serde_json::to_string(&sp).unwrap(),
		};
		// wrong keys: all other pool keys + random keys
		let mut others: Vec<DalekSecretKeyBytes> = g.ed_keys.iter().map(|k| k.0).collect();
		for _ in 0..3 {
			let mut b = [0u8; 32];
			b.copy_from_slice(&rng.bytes(32));
			others.push(b);
		}
		// the first message of each shard gets every position edited; the rest a sample
		let exhaustive = mi == 0;
		judge_message(&mut rep, &mut rng, &s, &v4j, &sender, &recipients, &others, &m, if a.thorough() { 120 } else { 40 }, exhaustive);
		rep.distinct(&(n_rec, sender.is_some(), format!("{:?}", v4.sta), v4.coms.as_ref().map(|c| std::cmp::min(c.len(), 3)), v4.proof.is_some()));
		if rep.samples.len() < 3 {
			rep.sample(json!({"recipients": n_rec, "sender": sender.is_some(), "armored_len": m.armored.len(), "armored_head": trunc(&m.armored, 120)}));
		}
	}

	// ---- through real wallets: owner::create_slatepack_message / slate_from_slatepack_message / decode_slatepack_message
	global::set_local_chain_type(global::ChainTypes::AutomatedTesting);
	let w = World::two(&format!("{}/world", a.work));
	let n_api = if a.thorough() { 60 } else { 10 };
	for _ in 0..n_api {
		let (v4, s) = g.slate(&mut rng, &mut st, 2);
		let v4j = serde_json::to_value(&v4).unwrap();
		let idx = rng.below(3) as u32;
		let r = (|| -> Result<(), grin_wallet_libwallet::Error> {
			let addr1 = owner::get_slatepack_address(w.wallets[1].inst.clone(), w.wallets[1].m(), idx)?;
			let msg = owner::create_slatepack_message(w.wallets[0].inst.clone(), w.wallets[0].m(), &s, Some(0), vec![addr1])?;
			rep.eval();
			// right wallet, right index
			let d = owner::slate_from_slatepack_message(w.wallets[1].inst.clone(), w.wallets[1].m(), msg.clone(), vec![idx])?;
			if !diff_slate(&s, &d).is_empty() {
				rep.violation("C10|api|recipient-decodes-different", "slate_from_slatepack_message returned a different slate", json!({"slate_v4": v4j, "message": msg}));
			}
			let sp = owner::decode_slatepack_message(w.wallets[1].inst.clone(), w.wallets[1].m(), msg.clone(), vec![idx])?;
			let sender0 = owner::get_slatepack_address(w.wallets[0].inst.clone(), w.wallets[0].m(), 0)?;
			if sp.sender != Some(sender0.clone()) {
				rep.violation("C10|api|sender-not-recovered", "decode_slatepack_message did not recover the sender address", json!({"message": msg}));
			}
			// the recipient's index given among others, in any position: each recipient key decrypts, whichever
			// keys were tried before it
			let mut many: Vec<u32> = (0..4).collect();
			rng.shuffle(&mut many);
			rep.eval();
			match owner::slate_from_slatepack_message(w.wallets[1].inst.clone(), w.wallets[1].m(), msg.clone(), many.clone()) {
				Ok(d2) if diff_slate(&s, &d2).is_empty() => rep.count("api:recipient-index-among-others-decrypts"),
				Ok(_) => rep.violation("C10|api|recipient-decodes-different", "slate_from_slatepack_message (several indices) returned a different slate", json!({"message": msg, "indices": many})),
				Err(e) => rep.violation(&format!("C10|api|recipient-key-not-tried|position={}", many.iter().position(|i| *i == idx).unwrap_or(9)), &format!("the message is encrypted to derivation index {} of this wallet, but slate_from_slatepack_message with indices {:?} fails: {:?}", idx, many, e), json!({"message": msg, "index": idx, "indices": many})),
			}
			// other derivation indices of the same wallet, and the sending wallet itself
			let wrong: Vec<u32> = (0..4).filter(|i| *i != idx).collect();
			rep.eval();
			if owner::slate_from_slatepack_message(w.wallets[1].inst.clone(), w.wallets[1].m(), msg.clone(), wrong.clone()).is_ok() {
				rep.violation("C10|api|other-derivation-index-decrypts", "another derivation index of the recipient wallet decrypted the message", json!({"message": msg, "index": idx}));
			} else {
				rep.count("api:other-index-refused");
			}
			rep.eval();
			if owner::slate_from_slatepack_message(w.wallets[0].inst.clone(), w.wallets[0].m(), msg.clone(), vec![0, 1, 2, 3]).is_ok() {
				rep.violation("C10|api|sender-wallet-decrypts", "the sending (non-recipient) wallet decrypted the message", json!({"message": msg}));
			} else {
				rep.count("api:other-wallet-refused");
			}
			// undecrypted view must not reveal the sender
			let view = owner::decode_slatepack_message(w.wallets[0].inst.clone(), w.wallets[0].m(), msg.clone(), vec![])?;
			if view.sender.is_some() || view.mode != 1 {
				rep.violation("C10|api|undecrypted-view-reveals-sender", "decode without keys shows a sender or mode 0", json!({"message": msg}));
			}
			if contains(msg.as_bytes(), sender0.to_string().as_bytes()) {
				rep.violation("C10|cleartext|sender-bech32|in=api-armored-text", "sender address in clear in the armored message", json!({"message": msg}));
			}
			rep.distinct(&("api", idx, format!("{:?}", v4.sta)));
			Ok(())
		})();
		if let Err(e) = r {
			rep.inconclusive(&format!("api path failed: {:?}", e));
		}
	}
	for (k, v) in st.set.iter() {
		if k.starts_with("sta=") || k.starts_with("recipients") {
			rep.count_n(&format!("field:{}", k), *v);
		}
	}
	let _ = Slatepack::default();
	let _: Option<SlateV4> = None;
	rep.write(&a.out);
}
