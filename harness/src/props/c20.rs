//! C20 Background refresh never clobbers concurrent wallet operations.
//!
//! Hook H2 announces every `wallet_lock!` acquisition of the multi-section operations (refresh,
//! scan). The lock is not held at that point, so running another complete operation right there
//! is exactly an interleaving at lock granularity. For every position of the refresh's
//! acquisitions the harness runs the other operation(s) inline, starting each schedule from the
//! same directory snapshot, and compares the final canonical state with the states produced by
//! every serial order of the same operations.

use crate::util::*;
use crate::world::*;
use grin_util::ToHex;
use grin_wallet_libwallet as libwallet;
use grin_wallet_libwallet::verif::set_lock_hook;
use grin_wallet_libwallet::{InitTxArgs, OutputStatus, Slate, TxLogEntryType};
use serde_json::{json, Value};
use std::collections::{BTreeMap, BTreeSet};
use std::sync::{Arc, Mutex};

const SPECS: [(&str, usize, bool, &str); 2] = [("w0", 0, false, ""), ("w1", 1, false, "")];
fn specs() -> Vec<(String, usize, bool, String)> {
	SPECS.iter().map(|s| (s.0.to_string(), s.1, s.2, s.3.to_string())).collect()
}

#[derive(Clone, Debug, PartialEq)]
enum Op {
	Lock,
	Finalize,
	CancelF,
	Receive,
	Mine,
	InitSend,
	/// node event: enough blocks to take the chain past F's TTL cut-off
	MineTtl,
	/// finalize F, post it and mine it, landing in one gap
	FinPostMine,
	/// a caller looks at the wallet: `retrieve_summary_info(refresh = true)`, i.e. a complete nested
	/// refresh on another thread (the usual situation of a GUI or `info` call while the updater runs)
	Look,
	/// the user cancels the pending receipt R (a payment the other wallet has finalized but not yet mined)
	CancelR,
	/// node event: the block holding R's transaction is mined
	MineR,
	/// the user makes the wallet's other account the active one (an account whose log ids overlap with default's)
	SwitchAcct,
	/// a new payment initiated and reserved in one go (selects among whatever is spendable at that moment)
	InitLock,
}

#[derive(Clone, Copy, Debug, PartialEq)]
enum Multi {
	Refresh,
	Scan,
	/// scan with delete_unconfirmed (the repair a user runs)
	ScanDel,
}

struct Material {
	l: Option<Slate>,
	f_reply: Option<Slate>,
	f_id: Option<uuid::Uuid>,
	incoming: Option<Slate>,
	ttl_cutoff: u64,
	r_id: Option<uuid::Uuid>,
	r_tx: Option<grin_core::core::Transaction>,
}

struct HookState {
	count: usize,
	busy: bool,
	/// (position, op index) still to inject
	plan: Vec<(usize, usize)>,
	sites: Vec<String>,
	results: Vec<(usize, String)>,
}

struct Ptr(*const RunCtx);
unsafe impl Send for Ptr {}
unsafe impl Sync for Ptr {}

struct RunCtx {
	world: std::cell::RefCell<World>,
	mat: Material,
	ops: Vec<Op>,
}

lazy_static! {
	static ref HS: Mutex<HookState> = Mutex::new(HookState { count: 0, busy: false, plan: vec![], sites: vec![], results: vec![] });
}

/// Name a wallet_lock! site by file, enclosing function and its ordinal inside that function (read from
/// the source the binary was built from), so that signatures survive unrelated line shifts.
fn site_name(file: &'static str, line: u32) -> String {
	lazy_static! {
		static ref CACHE: Mutex<BTreeMap<(String, u32), String>> = Mutex::new(BTreeMap::new());
	}
	let mut c = CACHE.lock().unwrap();
	if let Some(s) = c.get(&(file.to_string(), line)) {
		return s.clone();
	}
	let base = file.rsplit('/').next().unwrap_or(file).to_string();
	let mut name = format!("{}:{}", base, line);
	let candidates = [file.to_string(), format!("/repo/{}", file), format!("/repo/libwallet/{}", file)];
	for p in candidates.iter() {
		if let Ok(src) = std::fs::read_to_string(p) {
			let mut cur_fn = String::from("?");
			let mut k = 0;
			for (i, l) in src.lines().enumerate() {
				let t = l.trim_start();
				let t2 = t.strip_prefix("pub(crate) ").or_else(|| t.strip_prefix("pub ")).unwrap_or(t);
				if let Some(rest) = t2.strip_prefix("fn ") {
					cur_fn = rest.chars().take_while(|c| c.is_alphanumeric() || *c == '_').collect();
					k = 0;
				}
				if t.starts_with("wallet_lock!(") {
					k += 1;
					if i as u32 + 1 == line {
						name = format!("{}:{}#{}", base, cur_fn, k);
					}
				}
			}
			break;
		}
	}
	c.insert((file.to_string(), line), name.clone());
	name
}

fn do_op(cx: &RunCtx, op: &Op) -> String {
	let r: Result<(), libwallet::Error> = (|| {
		match op {
			Op::Lock => {
				let w = cx.world.borrow();
				match &cx.mat.l {
					Some(s) => w.wallets[0].lock_outputs(s),
					None => Ok(()),
				}
			}
			Op::Finalize => {
				let w = cx.world.borrow();
				match &cx.mat.f_reply {
					Some(s) => w.wallets[0].finalize(s).map(|_| ()),
					None => Ok(()),
				}
			}
			Op::CancelF => {
				let w = cx.world.borrow();
				match cx.mat.f_id {
					Some(id) => w.wallets[0].cancel(None, Some(id)),
					None => Ok(()),
				}
			}
			Op::Receive => {
				let w = cx.world.borrow();
				match &cx.mat.incoming {
					Some(s) => w.wallets[0].receive(s, None).map(|_| ()),
					None => Ok(()),
				}
			}
			Op::InitSend => {
				let w = cx.world.borrow();
				w.wallets[0].init_send(InitTxArgs { amount: 1_234_000_000, minimum_confirmations: 1, selection_strategy_is_use_all: false, ..Default::default() }).map(|_| ())
			}
			Op::Mine => {
				let mut w = cx.world.borrow_mut();
				w.mine(None, true).map(|_| ()).map_err(|e| libwallet::Error::GenericError(e))
			}
			Op::MineTtl => {
				let mut w = cx.world.borrow_mut();
				let mut k = 0;
				while (w.height() < cx.mat.ttl_cutoff || k == 0) && k < 12 {
					w.mine(None, true).map(|_| ()).map_err(|e| libwallet::Error::GenericError(e))?;
					k += 1;
				}
				Ok(())
			}
			Op::Look => {
				let w = cx.world.borrow();
				w.wallets[0].info(true, 1).map(|_| ())
			}
			Op::CancelR => {
				let w = cx.world.borrow();
				match cx.mat.r_id {
					Some(id) => w.wallets[0].cancel(None, Some(id)),
					None => Ok(()),
				}
			}
			Op::MineR => {
				let mut w = cx.world.borrow_mut();
				match &cx.mat.r_tx {
					Some(tx) => w.mine_txs(None, &[tx.clone()]).map_err(|e| libwallet::Error::GenericError(e)),
					None => Ok(()),
				}
			}
			Op::SwitchAcct => {
				let w = cx.world.borrow();
				w.wallets[0].set_account("acct1")
			}
			Op::InitLock => {
				let w = cx.world.borrow();
				let s = w.wallets[0].init_send(InitTxArgs { amount: 100_000_000_000, minimum_confirmations: 1, selection_strategy_is_use_all: true, ..Default::default() })?;
				w.wallets[0].lock_outputs(&s)
			}
			Op::FinPostMine => {
				let tx = {
					let w = cx.world.borrow();
					match &cx.mat.f_reply {
						Some(s) => {
							let f = w.wallets[0].finalize(s)?;
							let tx = f.tx_or_err()?.clone();
							w.wallets[0].post(&tx)?;
							Some(tx)
						}
						None => None,
					}
				};
				if tx.is_some() {
					let mut w = cx.world.borrow_mut();
					w.mine(None, true).map(|_| ()).map_err(|e| libwallet::Error::GenericError(e))?;
				}
				Ok(())
			}
		}
	})();
	match r {
		Ok(()) => "ok".to_string(),
		Err(e) => format!("err:{}", err_kind(&e)),
	}
}

/// canonical, id-free state of a wallet: outputs with the content of their linked entry, entries as a multiset
fn canon(w: &Wallet, premade: &BTreeSet<uuid::Uuid>) -> (Vec<String>, Vec<String>, Vec<(String, u32)>) {
	let txs = w.all_txs().unwrap_or_default();
	let entry_desc = |t: &libwallet::TxLogEntry| {
		format!(
			"{}|conf={}|+{}|-{}|fee={:?}|in={}|out={}|ttl={:?}|excess={}|proof={}|stored={}",
			type_str(&t.tx_type),
			t.confirmed,
			t.amount_credited,
			t.amount_debited,
			t.fee.map(|f| f.fee()),
			t.num_inputs,
			t.num_outputs,
			t.ttl_cutoff_height,
			match (t.kernel_excess, t.tx_slate_id.map(|i| premade.contains(&i)).unwrap_or(false)) {
				(Some(e), true) => e.to_hex(),
				(Some(_), false) => "some".to_string(),
				(None, _) => "none".to_string(),
			},
			t.payment_proof.as_ref().map(|p| format!("{}/{}", p.receiver_signature.is_some(), p.sender_signature.is_some())).unwrap_or_default(),
			t.stored_tx.is_some()
		)
	};
	let mut outs: Vec<String> = w
		.all_outputs()
		.unwrap_or_default()
		.iter()
		.map(|o| {
			let link = txs.iter().find(|t| Some(t.id) == o.tx_log_entry && t.parent_key_id == o.root_key_id).map(|t| format!("{}|+{}|-{}", type_str(&t.tx_type), t.amount_credited, t.amount_debited)).unwrap_or_else(|| "none".to_string());
			format!("{}|{}|{}|cb={}|entry=({})", idstr(&o.key_id), status_str(&o.status), o.value, o.is_coinbase, link)
		})
		.collect();
	outs.sort();
	let mut ents: Vec<String> = txs.iter().map(entry_desc).collect();
	ents.sort();
	let mut idx = vec![];
	for a in w.accounts().unwrap_or_default() {
		idx.push((idstr(&a.path), w.child_index(&a.path).unwrap_or(0)));
	}
	(outs, ents, idx)
}

struct Outcome {
	/// digest of final records and of every operation's result
	state: u64,
	detail: (Vec<String>, Vec<String>, Vec<(String, u32)>),
	acquisitions: usize,
	sites: Vec<String>,
	multi_result: String,
	op_results: Vec<(usize, String)>,
}

/// Run one schedule from the snapshot: `plan` = (position, op index); position p means "right before the
/// p-th wallet-lock acquisition of the multi-section operation" (0 = before it starts, large = after it ends).
fn run_schedule(work: &str, snapshot: &str, multi: Multi, ops: &[Op], plan: &[(usize, usize)], mat_of: &dyn Fn(&World) -> Material, premade: &BTreeSet<uuid::Uuid>) -> Result<Outcome, String> {
	let dir = format!("{}/run", work);
	let _ = std::fs::remove_dir_all(&dir);
	copy_dir(std::path::Path::new(snapshot), std::path::Path::new(&dir)).map_err(|e| format!("{}", e))?;
	let world = World::open_existing(&dir, &specs()).map_err(|e| format!("{:?}", e))?;
	let mat = mat_of(&world);
	let cx = Box::new(RunCtx { world: std::cell::RefCell::new(world), mat, ops: ops.to_vec() });
	{
		let mut hs = HS.lock().unwrap();
		hs.count = 0;
		hs.busy = false;
		hs.plan = plan.to_vec();
		hs.sites.clear();
		hs.results.clear();
	}
	let ptr = Ptr(&*cx as *const RunCtx);
	let run_due = move |pos: usize, ptr: &Ptr| {
		loop {
			let next = {
				let mut hs = HS.lock().unwrap();
				match hs.plan.iter().position(|(p, _)| *p <= pos) {
					Some(i) => {
						let x = hs.plan.remove(i);
						hs.busy = true;
						Some(x)
					}
					None => None,
				}
			};
			match next {
				None => break,
				Some((_, oi)) => {
					let cx: &RunCtx = unsafe { &*ptr.0 };
					let r = do_op(cx, &cx.ops[oi]);
					let mut hs = HS.lock().unwrap();
					hs.results.push((oi, r));
					hs.busy = false;
				}
			}
		}
	};
	// operations scheduled before the multi-section operation starts
	run_due(0, &ptr);
	let ptr2 = Ptr(ptr.0);
	set_lock_hook(Some(Arc::new(move |file: &'static str, line: u32| {
		let pos = {
			let mut hs = HS.lock().unwrap();
			if hs.busy {
				return;
			}
			hs.count += 1;
			let base = site_name(file, line);
			// n-th time this site is reached in this run
			let nth = hs.sites.iter().filter(|s| s.split('~').next() == Some(base.as_str())).count() + 1;
			let site = if nth > 1 { format!("{}~{}", base, nth) } else { base };
			hs.sites.push(site);
			hs.count
		};
		run_due(pos, &ptr2);
	})));
	let multi_result = {
		let w = cx.world.borrow();
		let inst = w.wallets[0].inst.clone();
		drop(w);
		let r = match multi {
			Multi::Refresh => libwallet::api_impl::owner::update_wallet_state(inst, None, &None, false).map(|v| format!("{}", v)),
			Multi::Scan => libwallet::api_impl::owner::scan(inst, None, None, false, &None).map(|_| "done".to_string()),
			Multi::ScanDel => libwallet::api_impl::owner::scan(inst, None, None, true, &None).map(|_| "done".to_string()),
		};
		match r {
			Ok(s) => format!("ok:{}", s),
			Err(e) => format!("err:{}", err_kind(&e)),
		}
	};
	set_lock_hook(None);
	// operations scheduled after it
	run_due(usize::MAX, &ptr);
	let (acq, sites, op_results) = {
		let hs = HS.lock().unwrap();
		(hs.count, hs.sites.clone(), hs.results.clone())
	};
	let w = cx.world.borrow();
	let d0 = canon(&w.wallets[0], premade);
	// what a client observed belongs to the outcome: results of the operations, by operation
	// (whether each one took effect or was refused; the reason for a refusal is not part of the state)
	let mut res_by_op: Vec<(usize, bool)> = op_results.iter().map(|(i, r)| (*i, r == "ok")).collect();
	res_by_op.sort();
	let state = hash64(&(&d0, &res_by_op));
	drop(w);
	let cx = *cx;
	drop(cx);
	let _ = std::fs::remove_dir_all(&dir);
	Ok(Outcome { state, detail: d0, acquisitions: acq, sites, multi_result, op_results })
}

fn diff_lists(a: &[String], b: &[String]) -> (Vec<String>, Vec<String>) {
	// multiset difference
	let mut ca: BTreeMap<&String, i64> = BTreeMap::new();
	for x in a {
		*ca.entry(x).or_insert(0) += 1;
	}
	for x in b {
		*ca.entry(x).or_insert(0) -= 1;
	}
	let mut only_a = vec![];
	let mut only_b = vec![];
	for (k, n) in ca {
		for _ in 0..n.max(0) {
			only_a.push(k.clone());
		}
		for _ in 0..(-n).max(0) {
			only_b.push(k.clone());
		}
	}
	(only_a, only_b)
}

pub fn run(a: &Args) {
	let mut rep = Report::new("C20");
	let mut rng = Rng::new(a.shard_seed() ^ 0xC20);
	// ---------------- base world and start states (each a directory snapshot + side material)
	let base = format!("{}/base", a.work);
	let mut w = World::create(&base, &[WalletSpec { name: "w0".into(), mnemonic_idx: 0, masked: false, password: "".into() }, WalletSpec { name: "w1".into(), mnemonic_idx: 1, masked: false, password: "".into() }]);
	let _ = w.wallets[0].create_account("acct1");
	w.mine_n(Some(0), 6).unwrap();
	w.mine_n(Some(1), 3).unwrap();
	w.mine_n(None, 3).unwrap();
	let _ = w.wallets[0].refresh();
	let _ = w.wallets[1].refresh();
	// prepared material shared by all start states
	let l = w.wallets[0].init_send(InitTxArgs { amount: 2_000_000_000, minimum_confirmations: 1, selection_strategy_is_use_all: false, ..Default::default() }).ok();
	let (f_s1, f_reply) = match (|| -> Result<(Slate, Slate), libwallet::Error> {
		let s = w.wallets[0].init_send(InitTxArgs { amount: 3_000_000_000, minimum_confirmations: 1, selection_strategy_is_use_all: false, ttl_blocks: Some(4), ..Default::default() })?;
		w.wallets[0].lock_outputs(&s)?;
		let r = w.wallets[1].receive(&s, None)?;
		Ok((s, r))
	})() {
		Ok((s, r)) => (Some(s), Some(r)),
		Err(_) => (None, None),
	};
	let incoming = (|| -> Result<Slate, libwallet::Error> {
		let s = w.wallets[1].init_send(InitTxArgs { amount: 1_500_000_000, minimum_confirmations: 1, selection_strategy_is_use_all: false, ..Default::default() })?;
		w.wallets[1].lock_outputs(&s)?;
		Ok(s)
	})()
	.ok();
	let ttl_cutoff = f_s1.as_ref().map(|s| s.ttl_cutoff_height).unwrap_or(0);
	// R: a payment from w1 that w0 has received and w1 has finalized, not yet mined
	let (r_id, r_tx) = match (|| -> Result<(uuid::Uuid, grin_core::core::Transaction), libwallet::Error> {
		let s = w.wallets[1].init_send(InitTxArgs { amount: 1_700_000_000, minimum_confirmations: 1, selection_strategy_is_use_all: false, ..Default::default() })?;
		w.wallets[1].lock_outputs(&s)?;
		let r = w.wallets[0].receive(&s, None)?;
		let f = w.wallets[1].finalize(&r)?;
		Ok((s.id, f.tx_or_err()?.clone()))
	})() {
		Ok((i, t)) => (Some(i), Some(t)),
		Err(_) => (None, None),
	};
	// the other account of w0 gets pending receipts until its (per-account) log ids cover F's id in default
	if let Some(fid) = f_s1.as_ref().and_then(|s| w.wallets[0].all_txs().unwrap_or_default().into_iter().find(|t| t.tx_slate_id == Some(s.id)).map(|t| t.id)) {
		for k in 0..=(fid as u64) {
			let _ = (|| -> Result<(), libwallet::Error> {
				let s = w.wallets[1].init_send(InitTxArgs { amount: 100_000_000 + k, minimum_confirmations: 1, selection_strategy_is_use_all: false, ..Default::default() })?;
				w.wallets[0].receive(&s, Some("acct1")).map(|_| ())
			})();
		}
	}
	let mut premade: BTreeSet<uuid::Uuid> = BTreeSet::new();
	// (the excess of a receive depends on a random offset adjustment, so it is not compared by value)
	for s in [&l, &f_s1].iter() {
		if let Some(s) = s {
			premade.insert(s.id);
		}
	}
	// start state specifics
	// S-output: a send with change, finalized, posted and mined but not yet refreshed
	// S-kernel: a no-change send (confirmed by kernel look-up), mined, not yet refreshed
	let mut extra: Vec<(String, Multi)> = vec![];
	let t1 = (|| -> Result<grin_core::core::Transaction, libwallet::Error> {
		let s = w.wallets[0].init_send(InitTxArgs { amount: 4_000_000_000, minimum_confirmations: 1, selection_strategy_is_use_all: false, ..Default::default() })?;
		w.wallets[0].lock_outputs(&s)?;
		let r = w.wallets[1].receive(&s, None)?;
		let f = w.wallets[0].finalize(&r)?;
		premade.insert(s.id);
		Ok(f.tx_or_err()?.clone())
	})();
	let t2 = (|| -> Result<grin_core::core::Transaction, libwallet::Error> {
		// exactly one coinbase minus the fee: no change output
		let fee = grin_core::libtx::tx_fee(1, 1, 1);
		let s = w.wallets[0].init_send(InitTxArgs { amount: 60_000_000_000 - fee, minimum_confirmations: 1, selection_strategy_is_use_all: false, ..Default::default() })?;
		w.wallets[0].lock_outputs(&s)?;
		let r = w.wallets[1].receive(&s, None)?;
		let f = w.wallets[0].finalize(&r)?;
		premade.insert(s.id);
		Ok(f.tx_or_err()?.clone())
	})();
	let snap = |w: &mut World, name: &str, work: &str| -> String {
		let d = format!("{}/snap-{}", work, name);
		w.snapshot_to(&d);
		d
	};
	// snapshot A: everything pending, both sends mined, a coinbase for w0 mined, nothing refreshed; TTL not yet reached
	if let (Ok(t1), Ok(t2)) = (&t1, &t2) {
		let _ = w.mine_txs(Some(0), &[t1.clone(), t2.clone()]);
	}
	let s_a = snap(&mut w, "A", &a.work);
	extra.push((s_a.clone(), Multi::Refresh));
	// snapshot A2: the next block reaches the TTL cut-off of F
	while w.height() + 1 < ttl_cutoff {
		let _ = w.mine(None, false);
	}
	let s_a2 = snap(&mut w, "A2", &a.work);
	extra.push((s_a2.clone(), Multi::Refresh));
	// snapshot B: the chain has moved past the TTL cut-off of F (refresh will want to cancel it)
	while w.height() < ttl_cutoff {
		let _ = w.mine(None, false);
	}
	let s_b = snap(&mut w, "B", &a.work);
	extra.push((s_b.clone(), Multi::Refresh));
	// snapshot C: like A but with diverged records, repaired by a scan
	{
		let wal = &w.wallets[0];
		let outs = wal.all_outputs().unwrap_or_default();
		let _ = (|| -> Result<(), libwallet::Error> {
			with_backend!(wal, b, {
				let mut batch = b.batch(wal.m())?;
				let mut k = 0;
				for o in outs.iter().filter(|o| o.status == OutputStatus::Unspent) {
					match k {
						0 => batch.delete(&o.key_id, &o.mmr_index)?,
						1 => {
							let mut x = o.clone();
							x.status = OutputStatus::Spent;
							batch.save(x)?;
						}
						_ => {}
					}
					k += 1;
				}
				batch.commit()?;
				Ok(())
			})
		})();
	}
	let s_c = snap(&mut w, "C", &a.work);
	extra.push((s_c.clone(), Multi::Scan));
	extra.push((s_c.clone(), Multi::ScanDel));
	extra.push((s_a.clone(), Multi::ScanDel));
	let f_id = f_s1.as_ref().map(|s| s.id);
	drop(w);
	let _ = std::fs::remove_dir_all(&base);

	let mat_of = |_w: &World| Material { l: l.clone(), f_reply: f_reply.clone(), f_id, incoming: incoming.clone(), ttl_cutoff, r_id, r_tx: r_tx.clone() };
	let base_ops = vec![Op::Lock, Op::Finalize, Op::CancelF, Op::Receive, Op::Mine, Op::InitSend, Op::FinPostMine, Op::MineTtl, Op::Look, Op::CancelR, Op::MineR];

	let mut cfg_idx = 0usize;
	let mut sched_total = 0u64;
	// replay of one recorded schedule, or a filter on (start state|multi|ops)
	let mut only: Option<String> = a.get("only").cloned();
	let mut only_plan: Option<Vec<(usize, usize)>> = None;
	if let Some(f) = &a.replay {
		if let Ok(v) = serde_json::from_str::<Value>(&std::fs::read_to_string(f).unwrap_or_default()) {
			let c = if v.get("case").is_some() { v["case"].clone() } else { v.clone() };
			only = Some(format!("{}|{}|{}", c["start_state"].as_str().unwrap_or(""), c["multi"].as_str().unwrap_or(""), c["ops"].as_str().unwrap_or("")));
			only_plan = c["plan"].as_array().map(|p| p.iter().map(|x| (x[0].as_u64().unwrap_or(0) as usize, x[1].as_u64().unwrap_or(0) as usize)).collect());
		}
	}
	for (snapshot, multi) in extra.iter() {
		let sname = snapshot.rsplit('-').next().unwrap_or("?").to_string();
		// acquisitions of the multi-section operation alone
		let alone = match run_schedule(&a.work, snapshot, *multi, &[], &[], &mat_of, &premade) {
			Ok(o) => o,
			Err(e) => {
				rep.inconclusive(&format!("baseline run failed: {}", e));
				continue;
			}
		};
		let n = alone.acquisitions;
		rep.max(&format!("max:acquisitions:{:?}@{}", multi, sname), n as u64);
		if a.shard == 0 {
			rep.extra.insert(format!("lock_acquisition_sites_{:?}_{}", multi, sname), json!(alone.sites));
		}
		// (switching the active account is exercised against the refresh only)
		let mut all_ops = base_ops.clone();
		if *multi == Multi::Refresh {
			all_ops.push(Op::SwitchAcct);
		}
		// ---- single operations at every position
		let mut configs: Vec<Vec<Op>> = all_ops.iter().map(|o| vec![o.clone()]).collect();
		// ---- pairs (thorough: all; quick: the ones where a node event and an owner call meet)
		let pairs: Vec<(Op, Op)> = if a.thorough() {
			let mut p = vec![];
			for x in all_ops.iter() {
				for y in all_ops.iter() {
					if x != y {
						p.push((x.clone(), y.clone()));
					}
				}
			}
			p
		} else {
			vec![(Op::MineTtl, Op::Finalize), (Op::MineTtl, Op::CancelF), (Op::Finalize, Op::CancelF), (Op::Mine, Op::Lock), (Op::Mine, Op::Finalize), (Op::FinPostMine, Op::Look), (Op::Mine, Op::Look), (Op::CancelR, Op::MineR)]
		};
		for (x, y) in pairs {
			configs.push(vec![x, y]);
		}
		for ops in configs {
			cfg_idx += 1;
			if let Some(f) = &only {
				if *f != format!("{}|{:?}|{:?}", sname, multi, ops) {
					continue;
				}
			} else if cfg_idx % a.nshards != a.shard {
				continue;
			}
			// serial orders: every operation entirely before (0) or after (MAX) the multi-section one
			let mut serial_states: BTreeMap<u64, String> = BTreeMap::new();
			let mut serial_details: Vec<(String, (Vec<String>, Vec<String>, Vec<(String, u32)>))> = vec![];
			let m = ops.len();
			let mut serial_plans: Vec<Vec<(usize, usize)>> = vec![];
			if m == 1 {
				serial_plans.push(vec![(0, 0)]);
				serial_plans.push(vec![(usize::MAX, 0)]);
			} else {
				for first in 0..2 {
					let second = 1 - first;
					// both before, both after, one before one after (orders of the ops among themselves)
					serial_plans.push(vec![(0, first), (0, second)]);
					serial_plans.push(vec![(usize::MAX, first), (usize::MAX, second)]);
					serial_plans.push(vec![(0, first), (usize::MAX, second)]);
				}
			}
			let mut ok = true;
			for sp in serial_plans.iter() {
				match run_schedule(&a.work, snapshot, *multi, &ops, sp, &mat_of, &premade) {
					Ok(o) => {
						serial_states.insert(o.state, format!("{:?}", sp));
						let mut d = o.detail;
						let mut r: Vec<(usize, bool)> = o.op_results.iter().map(|(i, r)| (*i, r == "ok")).collect();
						r.sort();
						d.1.push(format!("took-effect|{:?}", r));
						serial_details.push((format!("{:?}", sp), d));
					}
					Err(e) => {
						rep.inconclusive(&format!("serial run failed: {}", e));
						ok = false;
					}
				}
			}
			if !ok {
				continue;
			}
			let order_matters = serial_states.len() > 1;
			// interleavings
			let mut plans: Vec<Vec<(usize, usize)>> = vec![];
			if m == 1 {
				for p in 1..=n {
					plans.push(vec![(p, 0)]);
				}
			} else {
				let full = a.thorough() || n <= 14;
				for p in 1..=n {
					for q in p..=n {
						if !full && (p + q) % 2 == 1 {
							continue;
						}
						plans.push(vec![(p, 0), (q, 1)]);
						plans.push(vec![(p, 1), (q, 0)]);
					}
				}
			}
			for plan in plans {
				if let Some(p) = &only_plan {
					if *p != plan {
						continue;
					}
				}
				rep.eval();
				sched_total += 1;
				let mut o = match run_schedule(&a.work, snapshot, *multi, &ops, &plan, &mat_of, &premade) {
					Ok(o) => o,
					Err(e) => {
						rep.inconclusive(&format!("schedule failed: {}", e));
						continue;
					}
				};
				rep.distinct(&(sname.clone(), format!("{:?}", ops), plan.clone(), o.state));
				if std::env::var("GWV_DEBUG").is_ok() {
					eprintln!("SCHED {}|{:?}|{:?} plan={:?} multi={} ops={:?} state={:016x} serial={}", sname, multi, ops, plan, o.multi_result, o.op_results, o.state, serial_states.contains_key(&o.state));
				}
				if o.multi_result.starts_with("err") {
					// observed, not judged: the property is about the records; see DESIGN.md
					rep.count(&format!("refresh-or-scan-returned-{}-under-interleaving", o.multi_result));
				}
				if order_matters {
					rep.count("schedules-in-configs-where-order-matters");
				}
				if !serial_states.contains_key(&o.state) {
					let mut r: Vec<(usize, bool)> = o.op_results.iter().map(|(i, r)| (*i, r == "ok")).collect();
					r.sort();
					o.detail.1.push(format!("took-effect|{:?}", r));
					// closest serial state for the report
					let mut best: Option<(usize, String, Vec<String>, Vec<String>)> = None;
					for (name, d) in serial_details.iter() {
						let (a1, b1) = diff_lists(&o.detail.0, &d.0);
						let (mut a2, mut b2) = diff_lists(&o.detail.1, &d.1);
						let i1: Vec<String> = o.detail.2.iter().map(|(p, i)| format!("child-index|{}={}", p, i)).collect();
						let i2: Vec<String> = d.2.iter().map(|(p, i)| format!("child-index|{}={}", p, i)).collect();
						let (a3, b3) = diff_lists(&i1, &i2);
						a2.extend(a3);
						b2.extend(b3);
						let sz = a1.len() + b1.len() + a2.len() + b2.len();
						let only_here: Vec<String> = a1.into_iter().chain(a2.into_iter()).collect();
						let only_serial: Vec<String> = b1.into_iter().chain(b2.into_iter()).collect();
						if best.as_ref().map(|b| sz < b.0).unwrap_or(true) {
							best = Some((sz, name.clone(), only_here, only_serial));
						}
					}
					let (_, near, here, there) = best.unwrap_or((0, "?".into(), vec![], vec![]));
					// which record kinds are clobbered
					let kinds: BTreeSet<String> = here.iter().chain(there.iter()).map(|s| s.split('|').next().unwrap_or("").chars().take_while(|c| c.is_alphabetic()).collect::<String>()).collect();
					let site = plan.iter().map(|(p, oi)| format!("{:?}@{}", ops[*oi], o.sites.get(p - 1).cloned().unwrap_or_default())).collect::<Vec<_>>().join(",");
					rep.violation(
						&format!("C20|not-serializable|{:?}|start={}|{}", multi, sname, site),
						&format!("schedule {} of {:?} with {:?} from start state {} ends in a state no serial order produces (nearest serial order {}): only in this schedule {:?}; only in the serial order {:?}", site, multi, ops, sname, near, here, there),
						json!({"job":"c20","start_state": sname, "multi": format!("{:?}", multi), "ops": format!("{:?}", ops), "plan": plan, "acquisition_sites": o.sites, "multi_result": o.multi_result, "op_results": o.op_results, "record_kinds": kinds}),
					);
				} else {
					rep.count("schedule-serializable");
				}
				if rep.samples.len() < 4 && sched_total % 17 == 3 {
					rep.sample(json!({"start_state": sname, "multi": format!("{:?}", multi), "ops": format!("{:?}", ops), "plan(position,op)": plan, "acquisitions": o.acquisitions, "multi_result": o.multi_result, "op_results": o.op_results, "serial_orders_give_distinct_states": serial_states.len()}));
				}
			}
		}
	}
	for s in [&s_a, &s_a2, &s_b, &s_c].iter() {
		let _ = std::fs::remove_dir_all(s);
	}
	let _: Option<(TxLogEntryType, Value)> = None;
	let _ = rng.next();
	rep.exhaustive = Some(true);
	rep.write(&a.out);
}
