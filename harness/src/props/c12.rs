//! C12 (b),(c): the seed file opens only with its password; an interrupted password change or
//! phrase recovery leaves the original seed recoverable. (a),(d) are judged by the history engine
//! (props/chist.rs, job c12h).

use crate::util::*;
use crate::world::*;
use chacha20poly1305::aead::{Aead, NewAead};
use chacha20poly1305::{ChaCha20Poly1305, Key, Nonce};
use grin_util::ZeroingString;
use hmac::Hmac;
use serde_json::{json, Value};
use sha2::Sha512;
use std::process::Command;

fn dummy_node() -> DirectNode {
	DirectNode {
		chain: std::sync::Arc::new(grin_util::Mutex::new(None)),
		st: std::sync::Arc::new(grin_util::Mutex::new(NodeState::default())),
	}
}

/// Independent decryption of an EncryptedWalletSeed JSON file (RustCrypto, not ring)
pub fn independent_decrypt(file_content: &[u8], password: &str) -> Option<Vec<u8>> {
	let v: Value = serde_json::from_slice(file_content).ok()?;
	let enc = unhex(v["encrypted_seed"].as_str()?)?;
	let salt = unhex(v["salt"].as_str()?)?;
	let nonce = unhex(v["nonce"].as_str()?)?;
	if nonce.len() != 12 {
		return None;
	}
	let mut key = [0u8; 32];
	pbkdf2::pbkdf2::<Hmac<Sha512>>(password.as_bytes(), &salt, 100, &mut key);
	let cipher = ChaCha20Poly1305::new(Key::from_slice(&key));
	cipher.decrypt(Nonce::from_slice(&nonce), &enc[..]).ok()
}

fn seed_files(data_dir: &str) -> Vec<(String, Vec<u8>)> {
	let mut v = vec![];
	if let Ok(rd) = std::fs::read_dir(data_dir) {
		for e in rd.flatten() {
			let n = e.file_name().to_string_lossy().to_string();
			if n.starts_with("wallet.seed") {
				v.push((n, std::fs::read(e.path()).unwrap_or_default()));
			}
		}
	}
	v.sort();
	v
}

pub fn child(a: &Args) {
	let dir = a.get("dir").cloned().unwrap();
	let op = a.get("op").cloned().unwrap();
	let p: Value = serde_json::from_str(&std::fs::read_to_string(a.get("params").unwrap()).unwrap()).unwrap();
	let arm = a.get("arm").cloned().unwrap();
	let result_file = a.get("result").cloned().unwrap();
	let inst = Wallet::new_inst(dummy_node(), &dir);
	std::fs::write(&arm, b"armed").unwrap();
	let r = catch(|| {
		let mut w = inst.lock();
		let lc = w.lc_provider().unwrap();
		match op.as_str() {
			"change_password" => lc.change_password(None, ZeroingString::from(p["old"].as_str().unwrap()), ZeroingString::from(p["new"].as_str().unwrap())),
			_ => lc.recover_from_mnemonic(ZeroingString::from(p["mnemonic"].as_str().unwrap()), ZeroingString::from(p["new"].as_str().unwrap())),
		}
	});
	let out = match r {
		Ok(Ok(())) => json!({"status":"ok"}),
		Ok(Err(e)) => json!({"status":"err","error":format!("{:?}", e)}),
		Err((loc, msg)) => json!({"status":"panic","loc":loc,"msg":msg}),
	};
	std::fs::write(&result_file, out.to_string()).unwrap();
}

struct ChildOut {
	signal: Option<i32>,
	result: Option<Value>,
	log: Vec<String>,
}

fn run_child(a: &Args, dir: &str, op: &str, params: &Value, at: usize, mode: &str) -> ChildOut {
	use std::os::unix::process::ExitStatusExt;
	let gwv = a.get("gwv").cloned().unwrap_or_else(|| std::env::current_exe().unwrap().to_string_lossy().to_string());
	let shim = a.get("shim").cloned().unwrap_or_default();
	let side = format!("{}/side", a.work);
	let _ = std::fs::remove_dir_all(&side);
	std::fs::create_dir_all(&side).unwrap();
	let params_f = format!("{}/params.json", side);
	std::fs::write(&params_f, params.to_string()).unwrap();
	let (log_f, res_f, arm_f) = (format!("{}/calls.log", side), format!("{}/result.json", side), format!("{}/armed", side));
	let abs = std::fs::canonicalize(dir).unwrap().to_string_lossy().to_string();
	let st = Command::new(&gwv)
		.args(&["c12child", "--dir", &abs, "--op", op, "--params", &params_f, "--arm", &arm_f, "--result", &res_f])
		.env("LD_PRELOAD", &shim)
		.env("VP_PREFIX", &abs)
		.env("VP_ARM", &arm_f)
		.env("VP_LOG", &log_f)
		.env("VP_AT", at.to_string())
		.env("VP_MODE", mode)
		.stdout(std::process::Stdio::null())
		.stderr(std::process::Stdio::null())
		.status();
	let signal = st.ok().and_then(|s| s.signal());
	let result = std::fs::read_to_string(&res_f).ok().and_then(|s| serde_json::from_str(&s).ok());
	let log = std::fs::read_to_string(&log_f).unwrap_or_default().lines().map(|l| l.to_string()).collect();
	ChildOut { signal, result, log }
}

pub fn run(a: &Args) {
	let mut rep = Report::new("C12");
	let mut rng = Rng::new(a.shard_seed() ^ 0xC12);
	let node = dummy_node();
	let long_pw: String = std::iter::repeat("pässwörd-長い-").take(60).collect();
	let passwords: Vec<String> = vec!["".into(), "hunter2".into(), "pässwörd€😀".into(), " leading and trailing ".into(), long_pw];
	let seed_lens = [16usize, 20, 24, 28, 32];
	let mut case_no = 0usize;
	// ---------------- (b) the seed file opens only with the password it was last saved under
	for &len in seed_lens.iter() {
		for pw in passwords.iter() {
			case_no += 1;
			if case_no % a.nshards != a.shard {
				continue;
			}
			let entropy = rng.bytes(len);
			let mnemonic = match grin_keychain::mnemonic::from_entropy(&entropy) {
				Ok(m) => m,
				Err(_) => continue,
			};
			let dir = format!("{}/b{}", a.work, case_no);
			let _ = std::fs::remove_dir_all(&dir);
			let inst = Wallet::new_inst(node.clone(), &dir);
			let data_dir = format!("{}/wallet_data", dir);
			let created = {
				let mut w = inst.lock();
				let lc = w.lc_provider().unwrap();
				lc.create_wallet(None, Some(ZeroingString::from(mnemonic.as_str())), 32, ZeroingString::from(pw.as_str()), false)
			};
			if let Err(e) = created {
				rep.inconclusive(&format!("create_wallet failed: {:?}", e));
				continue;
			}
			let case = || json!({"job":"c12s","seed_bytes": len, "password_len": pw.len(), "password_class": if pw.is_empty() { "empty" } else if pw.is_ascii() { "ascii" } else { "unicode" }});
			rep.eval();
			// right password -> the same phrase; independent implementation agrees
			let got = {
				let mut w = inst.lock();
				w.lc_provider().unwrap().get_mnemonic(None, ZeroingString::from(pw.as_str()))
			};
			match got {
				Ok(m) if &*m == mnemonic.as_str() => rep.count("right-password-opens"),
				Ok(m) => rep.violation("C12|right-password-different-seed", &format!("get_mnemonic with the right password returned another phrase ({} words)", m.split(' ').count()), case()),
				Err(e) => rep.violation("C12|right-password-refused", &format!("{:?}", e), case()),
			}
			let file = std::fs::read(format!("{}/wallet.seed", data_dir)).unwrap_or_default();
			match independent_decrypt(&file, pw) {
				Some(s) if s == entropy => rep.count("independent-decrypt-agrees"),
				other => rep.violation("C12|seed-file-not-decryptable-independently", &format!("independent PBKDF2-HMAC-SHA512 + ChaCha20-Poly1305 decryption gave {:?} bytes", other.map(|s| s.len())), case()),
			}
			// the file must not contain the seed or phrase in clear
			let words: Vec<&str> = mnemonic.split(' ').collect();
			let mut leaks = vec![];
			let hay = &file;
			for nd in [entropy.clone(), hex(&entropy).into_bytes(), base64::encode(&entropy).into_bytes(), words[..4].join(" ").into_bytes()].iter() {
				if hay.windows(nd.len()).any(|w| w == &nd[..]) {
					leaks.push(nd.len());
				}
			}
			if !leaks.is_empty() {
				rep.violation("C12|seed-file-contains-seed-in-clear", "wallet.seed contains the seed or phrase in clear", case());
			}
			// wrong passwords: error, never a different seed
			let mut wrong: Vec<String> = vec![format!("{}x", pw), format!("{} ", pw), pw.to_uppercase() + "!", "wrong".into(), String::from_utf8_lossy(&rng.bytes(12)).to_string()];
			if !pw.is_empty() {
				wrong.push("".into());
				let mut c: Vec<char> = pw.chars().collect();
				c.pop();
				wrong.push(c.iter().collect());
				// one bit off in the first byte
				let mut b = pw.clone().into_bytes();
				b[0] ^= 1;
				wrong.push(String::from_utf8_lossy(&b).to_string());
			}
			// a different password that differs only by trailing NUL bytes (HMAC pads short keys with zeros)
			let nul_padded = vec![format!("{}\0", pw), format!("{}\0\0\0", pw)];
			for wp in nul_padded.iter() {
				rep.eval();
				let r = {
					let mut w = inst.lock();
					let lc = w.lc_provider().unwrap();
					(lc.get_mnemonic(None, ZeroingString::from(wp.as_str())), lc.open_wallet(None, ZeroingString::from(wp.as_str()), false, false))
				};
				match r {
					(Err(_), Err(_)) => rep.count("wrong-password-refused"),
					(a1, b1) => rep.violation("C12|wrong-password-accepted|password-plus-trailing-NUL-bytes", &format!("a password that differs from the saved one by trailing NUL bytes was accepted: get_mnemonic ok={} open_wallet ok={}", a1.is_ok(), b1.is_ok()), case()),
				}
			}
			for wp in wrong.iter().filter(|w| *w != pw) {
				rep.eval();
				let r = {
					let mut w = inst.lock();
					let lc = w.lc_provider().unwrap();
					(lc.get_mnemonic(None, ZeroingString::from(wp.as_str())), lc.open_wallet(None, ZeroingString::from(wp.as_str()), false, false))
				};
				match r {
					(Err(_), Err(_)) => rep.count("wrong-password-refused"),
					(a1, b1) => rep.violation("C12|wrong-password-accepted", &format!("a wrong password was accepted: get_mnemonic ok={} open_wallet ok={}", a1.is_ok(), b1.is_ok()), case()),
				}
				if independent_decrypt(&file, wp).is_some() {
					rep.violation("C12|wrong-password-decrypts-independently", "the independent implementation decrypts the seed file with a wrong password", case());
				}
			}
			rep.distinct(&("seed", len, pw.len()));
			let _ = std::fs::remove_dir_all(&dir);
		}
	}
	// ---------------- (c) interrupted change_password / recover_from_mnemonic
	let shim = a.get("shim").cloned().unwrap_or_default();
	if shim.is_empty() || !std::path::Path::new(&shim).exists() {
		rep.inconclusive("interposer not built");
		rep.write(&a.out);
		return;
	}
	let mut seqs = vec![];
	let combos: Vec<(usize, usize, usize)> = if a.thorough() { vec![(32, 0, 1), (16, 1, 2), (24, 2, 0), (32, 4, 3), (20, 3, 4)] } else { vec![(32, 0, 1), (16, 2, 1)] };
	for (len, oi, ni) in combos {
		for op in ["change_password", "recover"].iter() {
			let old = passwords[oi].clone();
			let new = passwords[ni].clone();
			let entropy = rng.bytes(len);
			let mnemonic = grin_keychain::mnemonic::from_entropy(&entropy).unwrap();
			let other_mnemonic = MNEMONICS[3];
			let base = format!("{}/c-base", a.work);
			let _ = std::fs::remove_dir_all(&base);
			{
				let inst = Wallet::new_inst(node.clone(), &base);
				let mut w = inst.lock();
				let lc = w.lc_provider().unwrap();
				if lc.create_wallet(None, Some(ZeroingString::from(mnemonic.as_str())), 32, ZeroingString::from(old.as_str()), false).is_err() {
					rep.inconclusive("create failed");
					continue;
				}
			}
			let params = json!({"old": old, "new": new, "mnemonic": other_mnemonic});
			// pass 1
			let refd = format!("{}/c-ref", a.work);
			let _ = std::fs::remove_dir_all(&refd);
			copy_dir(std::path::Path::new(&base), std::path::Path::new(&refd)).unwrap();
			let r = run_child(a, &refd, op, &params, 0, "count");
			if r.result.as_ref().map(|v| v["status"] == "ok") != Some(true) {
				rep.inconclusive(&format!("{} failed uninterrupted: {:?}", op, r.result));
				continue;
			}
			let n = r.log.len();
			if a.shard == 0 {
				seqs.push(json!({"op": op, "persistence_calls": r.log.iter().map(|l| { let p: Vec<&str> = l.split(' ').collect(); format!("{} {} {}", p.get(1).unwrap_or(&""), p.get(2).map(|x| x.rsplit('/').next().unwrap_or("")).unwrap_or(""), p.get(3).unwrap_or(&"")) }).collect::<Vec<_>>()}));
			}
			rep.count_n(&format!("persistence-calls:{}", op), n as u64);
			let mut modes: Vec<(usize, String)> = vec![];
			for i in 1..=n {
				modes.push((i, "kill-before".into()));
				modes.push((i, "fail:5".into()));
				modes.push((i, "fail:28".into()));
				if r.log[i - 1].contains(" write ") {
					let l: usize = r.log[i - 1].rsplit(' ').next().and_then(|x| x.parse().ok()).unwrap_or(0);
					for k in [0usize, 1, l / 2, l.saturating_sub(1)].iter() {
						modes.push((i, format!("short:{}", k)));
					}
				}
			}
			modes.push((n, "kill-after".into()));
			for (i, mode) in modes {
				case_no += 1;
				if case_no % a.nshards != a.shard {
					continue;
				}
				rep.eval();
				let cd = format!("{}/c-case", a.work);
				let _ = std::fs::remove_dir_all(&cd);
				copy_dir(std::path::Path::new(&base), std::path::Path::new(&cd)).unwrap();
				let c = run_child(a, &cd, op, &params, i, &mode);
				let files = seed_files(&format!("{}/wallet_data", cd));
				// the original seed must be recoverable from some file with the old or the new password
				let mut recovered = false;
				for (_, content) in files.iter() {
					for pw in [&old, &new].iter() {
						if independent_decrypt(content, pw).map(|s| s == entropy).unwrap_or(false) {
							recovered = true;
						}
					}
				}
				let case = json!({"job":"c12s","op": op, "persistence_call_index": i, "mode": mode, "call": r.log.get(i - 1), "child_signal": c.signal, "child_result": c.result, "files_after": files.iter().map(|(n, c)| format!("{} ({} bytes)", n, c.len())).collect::<Vec<_>>()});
				if !recovered {
					rep.violation(
						&format!("C12|seed-lost-on-interruption|{}|{}", op, mode.split(':').next().unwrap_or("")),
						&format!("{} interrupted at persistence call {} ({}) left no file from which the original seed can be recovered with the old or the new password", op, i, mode),
						case.clone(),
					);
				} else {
					rep.count(&format!("interrupted:{}:recoverable", op));
				}
				rep.distinct(&(op.to_string(), i, mode.clone(), len));
				if rep.samples.len() < 3 {
					rep.sample(case);
				}
				let _ = std::fs::remove_dir_all(&cd);
			}
			// after the uninterrupted run: new password opens (change) / original still recoverable (recover)
			rep.eval();
			let files = seed_files(&format!("{}/wallet_data", refd));
			let main = files.iter().find(|f| f.0 == "wallet.seed").map(|f| f.1.clone()).unwrap_or_default();
			if *op == "change_password" {
				if independent_decrypt(&main, &new).map(|s| s == entropy) != Some(true) {
					rep.violation("C12|change-password-result-wrong", "after change_password the seed file does not decrypt to the same seed under the new password", json!({"job":"c12s"}));
				}
				if old != new && independent_decrypt(&main, &old).is_some() {
					rep.violation("C12|old-password-still-opens", "after change_password the old password still decrypts wallet.seed", json!({"job":"c12s"}));
				}
				rep.count("change-password-completed");
			} else {
				let orig_ok = files.iter().any(|f| independent_decrypt(&f.1, &old).map(|s| s == entropy).unwrap_or(false));
				if !orig_ok {
					rep.violation("C12|recover-dropped-original-seed", "after recover_from_mnemonic no file holds the original seed under the old password", json!({"job":"c12s"}));
				}
				rep.count("recover-completed");
			}
			let _ = std::fs::remove_dir_all(&refd);
			let _ = std::fs::remove_dir_all(&base);
		}
	}
	if !seqs.is_empty() {
		rep.extra.insert("observed_persistence_call_sequences".into(), Value::Array(seqs));
	}
	rep.write(&a.out);
}
