//! C20 under real threads: background updaters (the loop of `owner_updater::Updater::run`, plus an
//! occasional scan) run concurrently with worker threads that drive complete payment flows through
//! `api::Owner` / `api::Foreign` on the same two wallets, and with a miner thread. Hook H2 is used
//! only to (a) count at which refresh section an operation arrived and (b) widen the windows between
//! the refresh's critical sections with short sleeps in the updater threads (the lock is not held
//! at that point).
//!
//! The oracle runs at quiescent points (all threads joined, pool mined, wallets refreshed):
//!   * per-flight postconditions that hold under *every* serial order of the operations, because
//!     every flight has its own slate id: an operation that returned Ok keeps its recorded effect
//!     (finalize => the entry's kernel excess and stored transaction are the final ones; cancel =>
//!     entry cancelled, inputs released, change/incoming outputs gone; mined => both entries
//!     confirmed, recipient output of the agreed amount present);
//!   * the structural reservation invariants (every Locked output belongs to exactly one live sent
//!     entry, every live sent entry holds its logged inputs);
//!   * the books (Unspent/Locked <=> in the UTXO set, ledger equality) per account;
//!   * no finalized transaction is refused by the node or conflicts with another one in the pool;
//!   * no deadlock: a round in which no thread makes progress while the process burns no CPU.
//! Real-thread schedules are not replayable; a violation's replay file carries the seed and the
//! complete operation log of the round as the witness.

use crate::util::*;
use crate::world::*;
use grin_keychain::ExtKeychain;
use grin_util::ToHex;
use grin_wallet_api::{Foreign, Owner};
use grin_wallet_libwallet as libwallet;
use grin_wallet_libwallet::api_impl::owner;
use grin_wallet_libwallet::verif::set_lock_hook;
use grin_wallet_libwallet::{InitTxArgs, IssueInvoiceTxArgs, OutputData, OutputStatus, Slate, TxLogEntry, TxLogEntryType};
use serde_json::{json, Value};
use std::cell::{Cell, RefCell};
use std::collections::{BTreeMap, BTreeSet};
use std::sync::atomic::{AtomicBool, AtomicU32, AtomicU64, Ordering};
use std::sync::{Arc, Mutex};
use std::time::{Duration, Instant};
use uuid::Uuid;

type Own = Owner<LC, DirectNode, ExtKeychain>;

thread_local! {
	/// >= 0: this thread is the updater of that wallet
	static UPDATER_OF: Cell<i32> = Cell::new(-1);
	static TRNG: RefCell<Rng> = RefCell::new(Rng::new(1));
}

struct Sh {
	wallets: Vec<Wallet>,
	owners: Vec<Arc<Own>>,
	world: Mutex<World>,
	stop: AtomicBool,
	progress: AtomicU64,
	/// per wallet: 0 = no refresh running, k = the updater announced its k-th lock acquisition
	section: Vec<AtomicU32>,
	seq: AtomicU64,
	log: Mutex<Vec<Value>>,
	curop: Mutex<BTreeMap<String, String>>,
	interleave: Mutex<BTreeSet<(String, u32)>>,
	stats: Mutex<BTreeMap<String, u64>>,
	widen: bool,
}

impl Sh {
	fn stat(&self, k: &str) {
		*self.stats.lock().unwrap().entry(k.to_string()).or_insert(0) += 1;
	}
	fn ev(&self, thread: &str, op: &str, detail: Value, res: &str) {
		let s = self.seq.fetch_add(1, Ordering::SeqCst);
		self.log.lock().unwrap().push(json!({"seq": s, "thread": thread, "op": op, "detail": detail, "result": res}));
	}
}

#[derive(Clone, Debug, Default)]
struct Fl {
	id: Option<Uuid>,
	kind: String,
	payer: usize,
	payee: usize,
	src_acct: Option<String>,
	dest_acct: Option<String>,
	amount: u64,
	ttl_cutoff: Option<u64>,
	lock_ok: bool,
	recv_ok: bool,
	fin_ok: bool,
	posted: bool,
	post_err: Option<String>,
	cancel_payer_ok: bool,
	cancel_payee_ok: bool,
	final_excess: Option<String>,
	final_tx: Option<String>,
	final_outputs: Vec<String>,
	steps: Vec<String>,
	worker: usize,
}

fn ek(e: &libwallet::Error) -> String {
	err_kind(e)
}

/// run one wallet operation on behalf of a worker: progress, current-op bookkeeping, interleaving class
fn op<T, F: FnOnce() -> Result<T, libwallet::Error>>(sh: &Sh, tname: &str, wallet: usize, name: &str, f: F) -> Result<T, libwallet::Error> {
	let k = sh.section[wallet].load(Ordering::SeqCst);
	sh.curop.lock().unwrap().insert(tname.to_string(), format!("{} on wallet {}", name, wallet));
	let r = f();
	let k2 = sh.section[wallet].load(Ordering::SeqCst);
	sh.curop.lock().unwrap().insert(tname.to_string(), "idle".to_string());
	sh.progress.fetch_add(1, Ordering::SeqCst);
	sh.interleave.lock().unwrap().insert((name.to_string(), k));
	if k != k2 {
		sh.stat("threads:ops-overlapping-a-refresh-section-change");
	}
	sh.stat(&format!("threads:op:{}:{}", name, if r.is_ok() { "ok".to_string() } else { format!("err:{}", r.as_ref().err().map(ek).unwrap_or_default()) }));
	r
}

fn pause(rng: &mut Rng) {
	match rng.below(4) {
		0 => std::thread::yield_now(),
		1 => std::thread::sleep(Duration::from_micros(50 + rng.below(400))),
		2 => std::thread::sleep(Duration::from_micros(500 + rng.below(3000))),
		_ => {}
	}
}

fn entry_of(sh: &Sh, wi: usize, id: Uuid, sent: bool) -> Option<TxLogEntry> {
	sh.wallets[wi].all_txs().ok()?.into_iter().find(|t| {
		t.tx_slate_id == Some(id)
			&& if sent {
				matches!(t.tx_type, TxLogEntryType::TxSent | TxLogEntryType::TxSentCancelled)
			} else {
				matches!(t.tx_type, TxLogEntryType::TxReceived | TxLogEntryType::TxReceivedCancelled)
			}
	})
}

fn cancel_side(sh: &Sh, tn: &str, fl: &mut Fl, payer_side: bool) {
	let (wi, acct) = if payer_side { (fl.payer, fl.src_acct.clone()) } else { (fl.payee, fl.dest_acct.clone()) };
	if acct.is_some() {
		return; // entries of a non-active account cannot be addressed without switching the shared active account
	}
	let id = match fl.id {
		Some(i) => i,
		None => return,
	};
	let o = sh.owners[wi].clone();
	let r = op(sh, tn, wi, "cancel_tx", || o.cancel_tx(None, None, Some(id)));
	fl.steps.push(format!("cancel({})={:?}", if payer_side { "payer" } else { "payee" }, r.as_ref().map_err(ek)));
	sh.ev(tn, "cancel_tx", json!({"slate": id.to_string(), "wallet": wi}), &format!("{:?}", r.as_ref().map_err(ek)));
	if r.is_ok() {
		if payer_side {
			fl.cancel_payer_ok = true;
		} else {
			fl.cancel_payee_ok = true;
		}
	}
}

fn run_flight(sh: &Sh, rng: &mut Rng, tn: &str, worker: usize, ttl_ok: bool) -> Fl {
	let payer = rng.usize(2);
	let payee = 1 - payer;
	let kind = match rng.below(6) {
		0 => "invoice",
		1 => "late-lock",
		_ => "send",
	};
	let mut fl = Fl { kind: kind.to_string(), payer, payee, worker, ..Default::default() };
	fl.src_acct = if rng.chance(1, 4) { Some("acct1".to_string()) } else { None };
	fl.dest_acct = if rng.chance(1, 4) { Some("acct1".to_string()) } else { None };
	fl.amount = 100_000_000 + rng.below(3_000_000_000);
	let ttl: Option<u64> = if ttl_ok && kind != "invoice" && rng.chance(1, 3) { Some(2 + rng.below(4)) } else { None };
	let cancel_stage = if rng.chance(1, 4) { 1 + rng.below(3) } else { 0 };
	let own_p = sh.owners[payer].clone();
	let own_r = sh.owners[payee].clone();
	let args = InitTxArgs {
		src_acct_name: fl.src_acct.clone(),
		amount: fl.amount,
		minimum_confirmations: 1,
		max_outputs: 500,
		num_change_outputs: 1 + rng.below(2) as u32,
		selection_strategy_is_use_all: rng.chance(1, 12),
		ttl_blocks: ttl,
		late_lock: Some(kind == "late-lock"),
		..Default::default()
	};
	let detail = json!({"kind": kind, "payer": payer, "src": fl.src_acct, "dest": fl.dest_acct, "amount": fl.amount.to_string(), "ttl": ttl, "cancel_stage": cancel_stage, "worker": worker});
	// ---- step 1: initiate
	let (s1, reply_from_payee): (Slate, bool);
	if kind == "invoice" {
		let ia = IssueInvoiceTxArgs { dest_acct_name: fl.dest_acct.clone(), amount: fl.amount, ..Default::default() };
		let r = op(sh, tn, payee, "issue_invoice_tx", || own_r.issue_invoice_tx(None, ia));
		sh.ev(tn, "issue_invoice_tx", detail.clone(), &format!("{:?}", r.as_ref().map(|s| s.id.to_string()).map_err(ek)));
		match r {
			Ok(s) => {
				fl.id = Some(s.id);
				fl.recv_ok = true;
				s1 = s;
				reply_from_payee = false;
			}
			Err(_) => return fl,
		}
	} else {
		let r = op(sh, tn, payer, "init_send_tx", || own_p.init_send_tx(None, args.clone()));
		sh.ev(tn, "init_send_tx", detail.clone(), &format!("{:?}", r.as_ref().map(|s| s.id.to_string()).map_err(ek)));
		match r {
			Ok(s) => {
				fl.id = Some(s.id);
				fl.ttl_cutoff = if s.ttl_cutoff_height != 0 { Some(s.ttl_cutoff_height) } else { None };
				s1 = s;
				reply_from_payee = true;
			}
			Err(_) => return fl,
		}
	}
	let id = fl.id.unwrap();
	pause(rng);
	// ---- step 2: the payer's side builds / reserves
	let s2: Slate;
	if reply_from_payee {
		if kind == "send" {
			let r = op(sh, tn, payer, "tx_lock_outputs", || own_p.tx_lock_outputs(None, &s1));
			sh.ev(tn, "tx_lock_outputs", json!({"slate": id.to_string()}), &format!("{:?}", r.as_ref().map_err(ek)));
			fl.steps.push(format!("lock={:?}", r.as_ref().map_err(ek)));
			if r.is_err() {
				return fl; // another flight reserved the coins first: refused, nothing reserved
			}
			fl.lock_ok = true;
		}
		if cancel_stage == 1 {
			cancel_side(sh, tn, &mut fl, true);
			return fl;
		}
		pause(rng);
		let dest = fl.dest_acct.clone();
		let inst = sh.wallets[payee].inst.clone();
		let r = op(sh, tn, payee, "foreign.receive_tx", || Foreign::new(inst, None, None, false).receive_tx(&s1, dest.as_deref(), None));
		sh.ev(tn, "receive_tx", json!({"slate": id.to_string(), "wallet": payee, "dest": fl.dest_acct}), &format!("{:?}", r.as_ref().map(|_| ()).map_err(ek)));
		fl.steps.push(format!("receive={:?}", r.as_ref().map(|_| ()).map_err(ek)));
		match r {
			Ok(s) => {
				fl.recv_ok = true;
				s2 = s;
			}
			Err(_) => {
				cancel_side(sh, tn, &mut fl, true);
				return fl;
			}
		}
	} else {
		let pa = InitTxArgs { src_acct_name: fl.src_acct.clone(), minimum_confirmations: 1, num_change_outputs: 1, selection_strategy_is_use_all: false, ..Default::default() };
		let r = op(sh, tn, payer, "process_invoice_tx", || own_p.process_invoice_tx(None, &s1, pa));
		sh.ev(tn, "process_invoice_tx", json!({"slate": id.to_string(), "wallet": payer}), &format!("{:?}", r.as_ref().map(|_| ()).map_err(ek)));
		let i2 = match r {
			Ok(s) => s,
			Err(_) => {
				cancel_side(sh, tn, &mut fl, false);
				return fl;
			}
		};
		pause(rng);
		let r = op(sh, tn, payer, "tx_lock_outputs", || own_p.tx_lock_outputs(None, &i2));
		sh.ev(tn, "tx_lock_outputs", json!({"slate": id.to_string()}), &format!("{:?}", r.as_ref().map_err(ek)));
		fl.steps.push(format!("lock={:?}", r.as_ref().map_err(ek)));
		if r.is_err() {
			cancel_side(sh, tn, &mut fl, false);
			return fl;
		}
		fl.lock_ok = true;
		s2 = i2;
	}
	if cancel_stage == 2 {
		if rng.bool() {
			cancel_side(sh, tn, &mut fl, true);
		}
		cancel_side(sh, tn, &mut fl, false);
		if !fl.cancel_payer_ok {
			cancel_side(sh, tn, &mut fl, true);
		}
		return fl;
	}
	pause(rng);
	// sometimes a user looks at the wallet in between (nested refresh on a caller thread)
	if rng.chance(1, 3) {
		let w = rng.usize(2);
		let o = sh.owners[w].clone();
		if rng.bool() {
			let _ = op(sh, tn, w, "retrieve_summary_info(refresh)", || o.retrieve_summary_info(None, true, 1).map(|_| ()));
		} else {
			let _ = op(sh, tn, w, "retrieve_txs(refresh)", || o.retrieve_txs(None, true, None, None, None).map(|_| ()));
		}
	}
	// ---- step 3: finalize
	let r = if reply_from_payee {
		op(sh, tn, payer, "finalize_tx", || own_p.finalize_tx(None, &s2))
	} else {
		let inst = sh.wallets[payee].inst.clone();
		op(sh, tn, payee, "foreign.finalize_tx", || Foreign::new(inst, None, None, false).finalize_tx(&s2, false))
	};
	sh.ev(tn, "finalize_tx", json!({"slate": id.to_string()}), &format!("{:?}", r.as_ref().map(|_| ()).map_err(ek)));
	fl.steps.push(format!("finalize={:?}", r.as_ref().map(|_| ()).map_err(ek)));
	let s3 = match r {
		Ok(s) => s,
		Err(_) => {
			cancel_side(sh, tn, &mut fl, true);
			cancel_side(sh, tn, &mut fl, false);
			return fl;
		}
	};
	fl.fin_ok = true;
	if kind == "late-lock" {
		fl.lock_ok = true;
	}
	if let Some(tx) = &s3.tx {
		fl.final_excess = tx.kernels().get(0).map(|k| k.excess.to_hex());
		fl.final_outputs = tx.outputs().iter().map(|o| o.commitment().to_hex()).collect();
		fl.final_tx = Some(format!("{:016x}", hash64(&tx_hex(tx))));
	}
	if cancel_stage == 3 {
		cancel_side(sh, tn, &mut fl, true);
		cancel_side(sh, tn, &mut fl, false);
		return fl;
	}
	pause(rng);
	// ---- step 4: broadcast, unless the wallet has meanwhile given the transaction up (TTL)
	if let Some(cut) = fl.ttl_cutoff {
		let h = sh.wallets[payer].inst.clone();
		let _ = h;
		let tip = sh.world.lock().unwrap().height();
		let still_live = entry_of(sh, payer, id, true).map(|e| e.tx_type == TxLogEntryType::TxSent).unwrap_or(false);
		if !still_live || tip + 2 > cut {
			fl.steps.push(format!("not-posted(ttl: tip {} cutoff {} live {})", tip, cut, still_live));
			cancel_side(sh, tn, &mut fl, true);
			cancel_side(sh, tn, &mut fl, false);
			return fl;
		}
	}
	let poster = if reply_from_payee { own_p.clone() } else { own_r.clone() };
	let pw = if reply_from_payee { payer } else { payee };
	let r = op(sh, tn, pw, "post_tx", || poster.post_tx(None, &s3, true));
	sh.ev(tn, "post_tx", json!({"slate": id.to_string()}), &format!("{:?}", r.as_ref().map_err(|e| format!("{:?}", e))));
	match r {
		Ok(_) => fl.posted = true,
		Err(e) => {
			fl.post_err = Some(format!("{:?}", e));
			cancel_side(sh, tn, &mut fl, true);
			cancel_side(sh, tn, &mut fl, false);
		}
	}
	fl
}

struct Judge<'a> {
	rep: &'a mut Report,
	seed: u64,
	round: usize,
	tainted: &'a mut BTreeSet<(usize, String)>,
}

fn acct_root(w: &Wallet, label: &Option<String>) -> Option<grin_keychain::Identifier> {
	let l = label.clone().unwrap_or_else(|| "default".to_string());
	w.accounts().ok()?.into_iter().find(|a| a.label == l).map(|a| a.path)
}

impl<'a> Judge<'a> {
	fn viol(&mut self, sig: &str, what: &str, fl: Option<&Fl>, log: &[Value]) {
		let mut tail: Vec<Value> = vec![];
		if let Some(f) = fl {
			if let Some(id) = f.id {
				let ids = id.to_string();
				tail = log.iter().filter(|e| e["detail"]["slate"].as_str() == Some(&ids) || e["result"].as_str().map(|r| r.contains(&ids)).unwrap_or(false)).cloned().collect();
			}
		}
		let n = log.len();
		self.rep.violation(
			&format!("C20|threads|{}", sig),
			what,
			json!({"job": "c20t", "seed": self.seed, "round": self.round, "flight": fl.map(|f| format!("{:?}", f)), "flight_events": tail, "log_tail": log[n.saturating_sub(40)..].to_vec(),
				"note": "real-thread schedule: replay re-runs the same seed and workload, the interleaving itself is not reproducible"}),
		);
	}

	fn run(&mut self, sh: &Sh, flights: &[Fl], log: &[Value]) {
		let world = sh.world.lock().unwrap();
		let chain = world.chain();
		let tip = chain.head().unwrap().height;
		// accounts whose books may legitimately diverge: a transaction with a TTL that was mined at or
		// after its cutoff was given up by the wallet while it sat in the pool (the excluded
		// "cancelled after broadcast" case)
		for fl in flights {
			let mined_at = fl.final_excess.as_ref().and_then(|x| unhex(x)).and_then(|b| chain.get_kernel_height(&grin_util::secp::pedersen::Commitment::from_vec(b), None, None).ok().flatten()).map(|(_, h, _)| h);
			if let (Some(c), Some(h)) = (fl.ttl_cutoff, mined_at) {
				if h >= c {
					self.tainted.insert((fl.payer, fl.src_acct.clone().unwrap_or_else(|| "default".into())));
					self.tainted.insert((fl.payee, fl.dest_acct.clone().unwrap_or_else(|| "default".into())));
				}
			}
		}
		for wi in 0..2 {
			let wal = &sh.wallets[wi];
			let outs: Vec<OutputData> = wal.all_outputs().unwrap_or_default();
			let txs: Vec<TxLogEntry> = wal.all_txs().unwrap_or_default();
			// ---- structural reservation invariants
			let live: Vec<&TxLogEntry> = txs.iter().filter(|t| t.tx_type == TxLogEntryType::TxSent && !t.confirmed).collect();
			for o in outs.iter().filter(|o| o.status == OutputStatus::Locked) {
				let n = live.iter().filter(|t| Some(t.id) == o.tx_log_entry && t.parent_key_id == o.root_key_id).count();
				if n != 1 {
					self.viol("locked-output-without-live-transaction", &format!("wallet {}: output {} is Locked but {} live sent entries claim it (entry {:?})", wi, idstr(&o.key_id), n, o.tx_log_entry), None, log);
				}
			}
			for t in live.iter() {
				let linked: Vec<&OutputData> = outs.iter().filter(|o| o.tx_log_entry == Some(t.id) && o.root_key_id == t.parent_key_id && matches!(o.status, OutputStatus::Locked | OutputStatus::Spent)).collect();
				let val: u64 = linked.iter().map(|o| o.value).sum();
				if linked.len() != t.num_inputs || val != t.amount_debited {
					self.viol("live-transaction-lost-its-reserved-inputs", &format!("wallet {}: live sent entry {} (slate {:?}) logs {} inputs worth {} but {} outputs worth {} are reserved for it", wi, t.id, t.tx_slate_id, t.num_inputs, t.amount_debited, linked.len(), val), None, log);
				}
			}
			let mut paths: BTreeMap<String, usize> = BTreeMap::new();
			for o in outs.iter() {
				*paths.entry(idstr(&o.key_id)).or_insert(0) += 1;
			}
			if let Some((p, c)) = paths.iter().find(|(_, c)| **c > 1) {
				self.viol("two-records-share-a-path", &format!("wallet {}: {} output records share derivation path {}", wi, c, p), None, log);
			}
			self.rep.count("threads:judged:reservation-invariants");
			// ---- books per account
			for acct in wal.accounts().unwrap_or_default() {
				if self.tainted.contains(&(wi, acct.label.clone())) {
					self.rep.count("threads:books-skipped-tainted");
					continue;
				}
				let aouts: Vec<&OutputData> = outs.iter().filter(|o| o.root_key_id == acct.path).collect();
				let atxs: Vec<&TxLogEntry> = txs.iter().filter(|t| t.parent_key_id == acct.path).collect();
				for o in aouts.iter() {
					let in_utxo = matches!(chain.get_unspent(wal.commit_of(o)), Ok(Some(_)));
					let says = matches!(o.status, OutputStatus::Unspent | OutputStatus::Locked);
					if in_utxo != says {
						self.viol(
							&format!("books|utxo-mismatch|status={}|in_utxo={}", status_str(&o.status), in_utxo),
							&format!("wallet {} account {} at tip {}: output {} value {} is {} in the wallet but in_utxo={} (height {}, entry {:?}, coinbase {})", wi, acct.label, tip, idstr(&o.key_id), o.value, status_str(&o.status), in_utxo, o.height, o.tx_log_entry, o.is_coinbase),
							None,
							log,
						);
					}
				}
				let held: u128 = aouts.iter().filter(|o| matches!(o.status, OutputStatus::Unspent | OutputStatus::Locked)).map(|o| o.value as u128).sum();
				let cred: u128 = atxs.iter().filter(|t| t.confirmed).map(|t| t.amount_credited as u128).sum();
				let deb: u128 = atxs.iter().filter(|t| t.confirmed).map(|t| t.amount_debited as u128).sum();
				if cred < deb || held != cred - deb {
					let od: Vec<String> = aouts.iter().map(|o| format!("{}:{}:{}:h{}:e{:?}{}", &idstr(&o.key_id)[8..20], status_str(&o.status), o.value, o.height, o.tx_log_entry, if o.is_coinbase { ":cb" } else { "" })).collect();
					let td: Vec<String> = atxs.iter().map(|t| format!("#{}:{}:{}:+{}:-{}:{}", t.id, type_str(&t.tx_type), if t.confirmed { "conf" } else { "unconf" }, t.amount_credited, t.amount_debited, t.tx_slate_id.map(|i| i.to_string()[..8].to_string()).unwrap_or_default())).collect();
					self.viol("books|ledger", &format!("wallet {} account {}: unspent+locked = {} but confirmed credits - debits = {} - {}; outputs {:?}; entries {:?}", wi, acct.label, held, cred, deb, od, td), None, log);
				}
				self.rep.count("threads:judged:books");
			}
		}
		// ---- per-flight postconditions
		// (first pass: accounts in which a time-to-live expired while the transaction sat in the pool - the wallet gave
		// it up, released its inputs, and it was mined afterwards: the excluded "cancelled after broadcast" case. A
		// later payment of such an account may have been built on the released, in truth spent, inputs.)
		for fl in flights {
			let mined_at = fl.final_excess.as_ref().and_then(|x| unhex(x)).and_then(|b| chain.get_kernel_height(&grin_util::secp::pedersen::Commitment::from_vec(b), None, None).ok().flatten()).map(|(_, h, _)| h);
			if let (Some(c), Some(h)) = (fl.ttl_cutoff, mined_at) {
				if h >= c {
					self.tainted.insert((fl.payer, fl.src_acct.clone().unwrap_or_else(|| "default".into())));
					self.tainted.insert((fl.payee, fl.dest_acct.clone().unwrap_or_else(|| "default".into())));
				}
			}
		}
		for fl in flights {
			let id = match fl.id {
				Some(i) => i,
				None => continue,
			};
			self.rep.eval();
			let (pw, rw) = (&sh.wallets[fl.payer], &sh.wallets[fl.payee]);
			let p_entry = entry_of(sh, fl.payer, id, true);
			let r_entry = entry_of(sh, fl.payee, id, false);
			let p_outs = pw.all_outputs().unwrap_or_default();
			let r_outs = rw.all_outputs().unwrap_or_default();
			let mined_at = fl.final_excess.as_ref().and_then(|x| unhex(x)).and_then(|b| chain.get_kernel_height(&grin_util::secp::pedersen::Commitment::from_vec(b), None, None).ok().flatten()).map(|(_, h, _)| h);
			let expired_in_pool = match (fl.ttl_cutoff, mined_at) {
				(Some(c), Some(h)) => h >= c,
				_ => false,
			};
			if expired_in_pool {
				// the wallet gave the transaction up while it sat in the pool: the excluded "cancelled after broadcast" case
				self.tainted.insert((fl.payer, fl.src_acct.clone().unwrap_or_else(|| "default".into())));
				self.tainted.insert((fl.payee, fl.dest_acct.clone().unwrap_or_else(|| "default".into())));
				self.rep.count("threads:flight:tainted-expired-in-pool");
				continue;
			}
			let cls = format!("{}|lock={}|recv={}|fin={}|posted={}|cp={}|cr={}|mined={}|ttl={}", fl.kind, fl.lock_ok, fl.recv_ok, fl.fin_ok, fl.posted, fl.cancel_payer_ok, fl.cancel_payee_ok, mined_at.is_some(), fl.ttl_cutoff.is_some());
			self.rep.distinct(&("flight", cls.clone()));
			self.rep.count(&format!("threads:flight:{}", if mined_at.is_some() { "mined" } else if fl.cancel_payer_ok || fl.cancel_payee_ok { "cancelled" } else if fl.fin_ok { "finalized-not-posted" } else { "abandoned" }));
			// (p0) a finalized transaction the node refuses, or that never gets mined, conflicts with another one
			let payer_tainted = self.tainted.contains(&(fl.payer, fl.src_acct.clone().unwrap_or_else(|| "default".into())));
			if payer_tainted && (fl.post_err.is_some() || (fl.posted && mined_at.is_none())) {
				self.rep.count("threads:flight:not-judged(payer-account-gave-up-a-broadcast-transaction)");
				continue;
			}
			if let Some(e) = &fl.post_err {
				self.viol(&format!("finalized-tx-refused-by-node|{}", fl.kind), &format!("the node refused the finalized transaction of slate {}: {}", id, e), Some(fl), log);
			}
			if fl.posted && mined_at.is_none() {
				self.viol(&format!("posted-tx-never-mined|{}", fl.kind), &format!("slate {}: posted transaction was dropped from the pool (its inputs were spent by another transaction)", id), Some(fl), log);
				continue;
			}
			// (p1) finalize completed: its recorded effects are the final ones
			if fl.fin_ok {
				let fin_wallet = if fl.kind == "invoice" { fl.payee } else { fl.payer };
				let e = if fl.kind == "invoice" { r_entry.clone() } else { p_entry.clone() };
				match e {
					None => self.viol(&format!("finalize-ok-but-entry-missing|{}", fl.kind), &format!("slate {}: finalize returned Ok but the finalizing wallet {} has no log entry for it", id, fin_wallet), Some(fl), log),
					Some(e) => {
						let got = e.kernel_excess.map(|x| x.to_hex());
						if got != fl.final_excess {
							self.viol(&format!("finalize-effect-overwritten|kernel_excess|{}", fl.kind), &format!("slate {}: finalize returned Ok with kernel excess {:?} but the log entry (type {}) records {:?}", id, fl.final_excess, type_str(&e.tx_type), got), Some(fl), log);
						}
						if fl.kind != "invoice" {
							match sh.wallets[fin_wallet].get_stored_tx(None, Some(&id)) {
								Ok(Some(st)) => {
									let h = st.tx.as_ref().map(|t| format!("{:016x}", hash64(&tx_hex(t))));
									if h != fl.final_tx {
										self.viol(&format!("finalize-effect-overwritten|stored_tx|{}", fl.kind), &format!("slate {}: the stored transaction differs from the transaction finalize returned", id), Some(fl), log);
									}
								}
								other => self.viol(&format!("finalize-effect-overwritten|stored_tx-missing|{}", fl.kind), &format!("slate {}: finalize returned Ok but get_stored_tx gives {:?}", id, other.map(|o| o.is_some()).map_err(|e| ek(&e))), Some(fl), log),
							}
						}
					}
				}
			}
			// (p2) cancel completed on the payer's side
			if fl.cancel_payer_ok && mined_at.is_none() {
				match &p_entry {
					Some(e) => {
						if e.tx_type != TxLogEntryType::TxSentCancelled {
							self.viol(&format!("cancel-effect-overwritten|type|{}", fl.kind), &format!("slate {}: cancel_tx returned Ok on the payer but the entry is {}", id, type_str(&e.tx_type)), Some(fl), log);
						}
						let still: Vec<String> = p_outs.iter().filter(|o| o.tx_log_entry == Some(e.id) && o.root_key_id == e.parent_key_id && matches!(o.status, OutputStatus::Locked | OutputStatus::Unconfirmed)).map(|o| format!("{}:{}", idstr(&o.key_id), status_str(&o.status))).collect();
						if !still.is_empty() {
							self.viol(&format!("cancel-effect-overwritten|outputs|{}", fl.kind), &format!("slate {}: cancelled on the payer but outputs of entry {} are still reserved/pending: {:?}", id, e.id, still), Some(fl), log);
						}
					}
					None => {
						if fl.lock_ok {
							self.viol(&format!("cancel-ok-but-entry-missing|{}", fl.kind), &format!("slate {}: payer entry vanished", id), Some(fl), log);
						}
					}
				}
			}
			// (p3) cancel completed on the payee's side
			if fl.cancel_payee_ok && mined_at.is_none() {
				if let Some(e) = &r_entry {
					if e.tx_type != TxLogEntryType::TxReceivedCancelled {
						self.viol(&format!("cancel-effect-overwritten|type-payee|{}", fl.kind), &format!("slate {}: cancel_tx returned Ok on the payee but the entry is {}", id, type_str(&e.tx_type)), Some(fl), log);
					}
					let still = r_outs.iter().filter(|o| o.tx_log_entry == Some(e.id) && o.root_key_id == e.parent_key_id && o.status == OutputStatus::Unconfirmed).count();
					if still > 0 {
						self.viol(&format!("cancel-effect-overwritten|outputs-payee|{}", fl.kind), &format!("slate {}: cancelled on the payee but {} incoming outputs remain", id, still), Some(fl), log);
					}
				}
			}
			// (p4) mined and nobody cancelled: both sides confirmed, recipient output present with the agreed amount
			if let Some(h) = mined_at {
				if !fl.cancel_payer_ok && !fl.cancel_payee_ok {
					match &p_entry {
						Some(e) if e.confirmed && e.tx_type == TxLogEntryType::TxSent => {}
						other => self.viol(&format!("mined-but-payer-entry-not-confirmed|{}", fl.kind), &format!("slate {} mined at {} (tip {}): payer entry is {:?}", id, h, tip, other.as_ref().map(|e| (type_str(&e.tx_type), e.confirmed))), Some(fl), log),
					}
					match &r_entry {
						Some(e) if e.confirmed && e.tx_type == TxLogEntryType::TxReceived => {
							// (a later spend re-links the record to the spending entry, so identify it by commitment)
							let mine: Vec<&OutputData> = r_outs.iter().filter(|o| o.root_key_id == e.parent_key_id && fl.final_outputs.contains(&rw.commit_of(o).to_hex())).collect();
							let v: u64 = mine.iter().map(|o| o.value).sum();
							if mine.len() != 1 || v != fl.amount {
								let cands: Vec<String> = r_outs.iter().filter(|o| o.value == fl.amount).map(|o| format!("{} {} root {} entry {:?} h{}", idstr(&o.key_id), status_str(&o.status), idstr(&o.root_key_id), o.tx_log_entry, o.height)).collect();
								let ents: Vec<String> = rw.all_txs().unwrap_or_default().iter().filter(|t| t.amount_credited == fl.amount || t.tx_slate_id == Some(id)).map(|t| format!("#{} {} parent {} conf {} cred {} slate {:?}", t.id, type_str(&t.tx_type), idstr(&t.parent_key_id), t.confirmed, t.amount_credited, t.tx_slate_id.is_some())).collect();
								self.viol(&format!("mined-but-recipient-output-wrong|{}", fl.kind), &format!("slate {}: recipient holds {} outputs worth {} for entry {} (parent {}), agreed amount {}; outputs of that value: {:?}; entries: {:?}", id, mine.len(), v, e.id, idstr(&e.parent_key_id), fl.amount, cands, ents), Some(fl), log);
							}
						}
						other => self.viol(&format!("mined-but-payee-entry-not-confirmed|{}", fl.kind), &format!("slate {} mined at {} (tip {}): payee entry is {:?}", id, h, tip, other.as_ref().map(|e| (type_str(&e.tx_type), e.confirmed))), Some(fl), log),
					}
				}
			}
			// (p5) a received slate nobody cancelled and that is not expired has exactly one entry and one output
			if fl.recv_ok && !fl.cancel_payee_ok && fl.kind != "invoice" {
				let n = rw.all_txs().unwrap_or_default().iter().filter(|t| t.tx_slate_id == Some(id) && matches!(t.tx_type, TxLogEntryType::TxReceived | TxLogEntryType::TxReceivedCancelled)).count();
				if n != 1 {
					self.viol(&format!("received-entry-count|{}", fl.kind), &format!("slate {}: {} receive entries on the payee", id, n), Some(fl), log);
				}
			}
			// (p6) expiry: an unposted transaction of the active account whose cutoff the refreshed tip has reached is released
			if let (Some(c), None) = (fl.ttl_cutoff, mined_at) {
				if tip >= c && fl.src_acct.is_none() && fl.lock_ok {
					if let Some(e) = &p_entry {
						if e.tx_type == TxLogEntryType::TxSent {
							self.viol(&format!("expired-transaction-not-released|{}", fl.kind), &format!("slate {}: cutoff {} reached (tip {}) and refreshed, but the payer entry is still live", id, c, tip), Some(fl), log);
						}
					}
				}
			}
			let _ = acct_root;
		}
	}
}

pub fn run(a: &Args) {
	let mut rep = Report::new("C20");
	let mut rng = Rng::new(a.shard_seed() ^ 0xC20_7);
	let rounds = a.get_u64("rounds", if a.thorough() { 6 } else { 2 }) as usize;
	let n_workers = a.get_u64("workers", 4) as usize;
	let flights_per_worker = a.get_u64("flights", if a.thorough() { 10 } else { 7 }) as usize;
	let dir = format!("{}/world", a.work);
	let mut world = World::two(&dir);
	for i in 0..2 {
		let _ = world.wallets[i].create_account("acct1");
	}
	// funding: plenty of separate coins on both accounts of both wallets
	for i in 0..2 {
		let _ = world.mine_n(Some(i), 8);
		let _ = world.wallets[i].set_account("acct1");
		let _ = world.mine_n(Some(i), 4);
		let _ = world.wallets[i].set_account("default");
	}
	let _ = world.mine_n(None, 4);
	for i in 0..2 {
		let _ = world.wallets[i].refresh_all();
	}
	let handles: Vec<Wallet> = world.wallets.iter().map(|w| Wallet { name: w.name.clone(), dir: w.dir.clone(), inst: w.inst.clone(), mask: w.mask.clone(), mnemonic: w.mnemonic.clone(), password: w.password.clone(), masked: w.masked }).collect();
	let owners: Vec<Arc<Own>> = handles.iter().map(|w| Arc::new(Owner::new(w.inst.clone(), None))).collect();
	let sh = Arc::new(Sh {
		wallets: handles,
		owners,
		world: Mutex::new(world),
		stop: AtomicBool::new(false),
		progress: AtomicU64::new(0),
		section: vec![AtomicU32::new(0), AtomicU32::new(0)],
		seq: AtomicU64::new(0),
		log: Mutex::new(vec![]),
		curop: Mutex::new(BTreeMap::new()),
		interleave: Mutex::new(BTreeSet::new()),
		stats: Mutex::new(BTreeMap::new()),
		widen: a.get_u64("widen", 1) == 1,
	});
	{
		let shh = sh.clone();
		set_lock_hook(Some(Arc::new(move |_file, _line| {
			let w = UPDATER_OF.with(|u| u.get());
			if w >= 0 {
				shh.section[w as usize].fetch_add(1, Ordering::SeqCst);
				if shh.widen {
					let d = TRNG.with(|r| {
						let mut r = r.borrow_mut();
						if r.chance(1, 2) {
							30 + r.below(600)
						} else {
							0
						}
					});
					if d > 0 {
						std::thread::sleep(Duration::from_micros(d));
					}
				}
			}
		})));
	}
	let mut tainted: BTreeSet<(usize, String)> = BTreeSet::new();
	let mut all_flights = 0u64;
	'rounds: for round in 0..rounds {
		sh.stop.store(false, Ordering::SeqCst);
		sh.log.lock().unwrap().clear();
		let ttl_ok = round % 2 == 1 || rounds == 1;
		let mut bg = vec![];
		// updaters
		for wi in 0..2 {
			let shh = sh.clone();
			let seed = rng.next();
			bg.push(std::thread::Builder::new().name(format!("updater-{}", wi)).spawn(move || {
				init_chain_type();
				UPDATER_OF.with(|u| u.set(wi as i32));
				TRNG.with(|r| *r.borrow_mut() = Rng::new(seed));
				let mut lr = Rng::new(seed ^ 77);
				let inst = shh.wallets[wi].inst.clone();
				let (stx, srx) = std::sync::mpsc::channel();
				let stx = Some(stx);
				while !shh.stop.load(Ordering::SeqCst) {
					shh.section[wi].store(1, Ordering::SeqCst);
					let what = lr.below(16);
					let r = if what == 0 {
						owner::scan(inst.clone(), None, None, false, &stx).map(|_| true)
					} else {
						owner::update_wallet_state(inst.clone(), None, &stx, what < 6)
					};
					shh.section[wi].store(0, Ordering::SeqCst);
					// what the refresh / scan says it repaired (the wallet's own status messages)
					while let Ok(m) = srx.try_recv() {
						let t = format!("{:?}", m);
						if t.contains("Marking unspent") || t.contains("Restoring") || t.contains("Unlocking") || t.contains("Deleting") {
							shh.ev(&format!("updater-{}", wi), if what == 0 { "scan-repair" } else { "refresh-repair" }, json!({"wallet": wi}), &trunc(&t, 300));
							shh.stat("threads:updater:repair-messages");
						}
					}
					shh.stat(&format!("threads:updater:{}:{}", if what == 0 { "scan" } else if what < 6 { "refresh-all" } else { "refresh" }, match &r {
						Ok(true) => "ok".to_string(),
						Ok(false) => "not-validated".to_string(),
						Err(e) => format!("err:{}", ek(e)),
					}));
					shh.progress.fetch_add(1, Ordering::SeqCst);
					std::thread::sleep(Duration::from_micros(lr.below(2500)));
				}
			}).unwrap());
		}
		// miner
		{
			let shh = sh.clone();
			let seed = rng.next();
			bg.push(std::thread::Builder::new().name("miner".into()).spawn(move || {
				init_chain_type();
				let mut lr = Rng::new(seed);
				while !shh.stop.load(Ordering::SeqCst) {
					std::thread::sleep(Duration::from_millis(25 + lr.below(60)));
					let to = match lr.below(4) {
						0 => Some(0usize),
						1 => Some(1usize),
						_ => None,
					};
					let r = shh.world.lock().unwrap().mine(to, true);
					shh.ev("miner", "mine", json!({"to": to}), &format!("{:?}", r.as_ref().map(|t| t.len())));
					shh.stat(if r.is_ok() { "threads:blocks-mined" } else { "threads:mine-failed" });
					shh.progress.fetch_add(1, Ordering::SeqCst);
				}
			}).unwrap());
		}
		// workers
		let results: Arc<Mutex<Vec<Fl>>> = Arc::new(Mutex::new(vec![]));
		let done = Arc::new(AtomicU64::new(0));
		let mut ws = vec![];
		for k in 0..n_workers {
			let shh = sh.clone();
			let seed = rng.next();
			let res = results.clone();
			let dn = done.clone();
			ws.push(std::thread::Builder::new().name(format!("worker-{}", k)).spawn(move || {
				init_chain_type();
				let mut lr = Rng::new(seed);
				let tn = format!("worker-{}", k);
				for _ in 0..flights_per_worker {
					let r = catch(|| run_flight(&shh, &mut lr, &tn, k, ttl_ok));
					match r {
						Ok(fl) => res.lock().unwrap().push(fl),
						Err((loc, msg)) => {
							shh.ev(&tn, "panic", json!({"at": loc.clone()}), &msg);
							shh.stats.lock().unwrap().insert(format!("PANIC|{}|{}", loc, trunc(&msg, 200)), 1);
						}
					}
				}
				dn.fetch_add(1, Ordering::SeqCst);
			}).unwrap());
		}
		// watchdog while the workers run
		let mut last = sh.progress.load(Ordering::SeqCst);
		let mut last_change = Instant::now();
		let t_round = Instant::now();
		loop {
			if done.load(Ordering::SeqCst) as usize == n_workers {
				break;
			}
			std::thread::sleep(Duration::from_millis(100));
			let p = sh.progress.load(Ordering::SeqCst);
			if p != last {
				last = p;
				last_change = Instant::now();
			} else if last_change.elapsed() > Duration::from_secs(60) {
				// nobody progressed for a minute: deadlock iff the process is idle too
				let c0 = process_cpu_s();
				std::thread::sleep(Duration::from_secs(5));
				let c1 = process_cpu_s();
				let cur = sh.curop.lock().map(|c| c.clone()).unwrap_or_default();
				if c1 - c0 < 0.2 && sh.progress.load(Ordering::SeqCst) == last {
					let log = sh.log.lock().map(|l| l.clone()).unwrap_or_default();
					let n = log.len();
					rep.violation("C20|threads|deadlock", &format!("no thread made progress for 65 s while the process used {:.2} s CPU; threads were in: {:?}", c1 - c0, cur), json!({"job": "c20t", "seed": a.seed, "round": round, "threads": cur, "log_tail": log[n.saturating_sub(40)..].to_vec()}));
					rep.write(&a.out);
					std::process::exit(0);
				} else {
					rep.inconclusive(&format!("round {}: no progress for 60 s but the process was busy (loaded machine); threads: {:?}", round, cur));
					last_change = Instant::now();
				}
			}
			if t_round.elapsed() > Duration::from_secs(900) {
				rep.inconclusive(&format!("round {} exceeded its wall-clock watchdog", round));
				rep.write(&a.out);
				std::process::exit(0);
			}
		}
		for w in ws {
			let _ = w.join();
		}
		sh.stop.store(true, Ordering::SeqCst);
		for b in bg {
			let _ = b.join();
		}
		// panics inside wallet code on a worker thread
		let panics: Vec<String> = sh.stats.lock().unwrap().keys().filter(|k| k.starts_with("PANIC|")).cloned().collect();
		for p in panics {
			let loc = p.split('|').nth(1).unwrap_or("?").to_string();
			if loc.starts_with("src/") {
				rep.inconclusive(&format!("harness panic on a worker thread: {}", p));
			} else {
				rep.violation(&format!("C20|threads|panic|{}", loc), &format!("wallet code panicked on a worker thread: {}", p), json!({"job": "c20t", "seed": a.seed, "round": round}));
			}
			sh.stats.lock().unwrap().remove(&p);
		}
		// ---- quiescence: mine the pool dry, refresh everything
		{
			let mut w = sh.world.lock().unwrap();
			let mut guard = 0;
			while w.node.pool_len() > 0 && guard < 80 {
				let _ = w.mine(None, true);
				guard += 1;
			}
			if w.node.pool_len() > 0 {
				rep.inconclusive(&format!("round {}: pool not empty after {} blocks", round, guard));
			}
			let _ = w.mine(None, true);
		}
		// a refresh only looks at the active account: visit every account, then return to the default one
		for wi in 0..2 {
			for acct in ["acct1", "default"].iter() {
				let _ = sh.wallets[wi].set_account(acct);
				for _ in 0..2 {
					if let Err(e) = sh.wallets[wi].refresh_all() {
						rep.note(&format!("final refresh returned {:?}", ek(&e)));
					}
				}
			}
		}
		let flights: Vec<Fl> = results.lock().unwrap().clone();
		all_flights += flights.len() as u64;
		let log = sh.log.lock().unwrap().clone();
		{
			let mut j = Judge { rep: &mut rep, seed: a.seed, round, tainted: &mut tainted };
			j.run(&sh, &flights, &log);
		}
		if rep.samples.len() < 2 {
			let n = log.len();
			rep.sample(json!({"round": round, "flights": flights.len(), "events": n, "flight_example": flights.get(0).map(|f| format!("{:?}", f)), "log_tail": log[n.saturating_sub(12)..].to_vec()}));
		}
		if !rep.violations.is_empty() {
			break 'rounds;
		}
	}
	set_lock_hook(None);
	for (k, v) in sh.stats.lock().unwrap().iter() {
		rep.count_n(k, *v);
	}
	for (opn, k) in sh.interleave.lock().unwrap().iter() {
		rep.distinct(&("op-arrived-at-refresh-section", opn.clone(), *k));
		if *k > 0 {
			rep.count("threads:distinct-(operation,refresh-section)-pairs-with-a-refresh-in-progress");
		}
	}
	rep.count_n("threads:flights", all_flights);
	rep.write(&a.out);
	let _ = std::fs::remove_dir_all(&dir);
}

fn process_cpu_s() -> f64 {
	let mut ts = libc::timespec { tv_sec: 0, tv_nsec: 0 };
	unsafe {
		libc::clock_gettime(libc::CLOCK_PROCESS_CPUTIME_ID, &mut ts);
	}
	ts.tv_sec as f64 + ts.tv_nsec as f64 * 1e-9
}
