//! C03 / C04 / C15 / C12(a,d) checks built on the history engine: same workload, each property
//! judged by its own monitor.

use crate::hist::*;
use crate::util::*;
use crate::world::*;
use serde_json::json;

pub fn cfg_for(prop: &str, thorough: bool) -> Config {
	let steps = if thorough { 400 } else { 160 };
	match prop {
		"C03" => Config { steps, allow_cancel_after_post: false, allow_minconf0: false, duplicates: true, outages: false, restarts: true, secrets_every: 0, max_in_flight: 4, invoices: true, late_lock: true, self_send: true, hostile_invoice: false, burst: false, stale_coinbase: false, self_invoice: true, third_account: false },
		"C04" => Config { steps, allow_cancel_after_post: false, allow_minconf0: true, duplicates: false, outages: true, restarts: true, secrets_every: 0, max_in_flight: 3, invoices: true, late_lock: true, self_send: true, hostile_invoice: false, burst: true, stale_coinbase: true, self_invoice: true, third_account: false },
		"C15" => Config { steps, allow_cancel_after_post: true, allow_minconf0: true, duplicates: true, outages: true, restarts: true, secrets_every: 0, max_in_flight: 4, invoices: true, late_lock: true, self_send: true, hostile_invoice: false, burst: false, stale_coinbase: true, self_invoice: false, third_account: false },
		// (duplicates: a protocol step repeated with the same slate emits a second message for the same transaction)
		_ => Config { steps, allow_cancel_after_post: false, allow_minconf0: false, duplicates: true, outages: false, restarts: false, secrets_every: 40, max_in_flight: 3, invoices: true, late_lock: true, self_send: true, hostile_invoice: true, burst: false, stale_coinbase: false, self_invoice: true, third_account: false },
	}
}

pub fn run(a: &Args, prop: &'static str) {
	let mut rep = Report::new(prop);
	let mut rng = Rng::new(a.shard_seed() ^ hash64(&prop));
	let n_hist = a.get_u64("histories", if a.thorough() { 6 } else { 2 }) as usize;
	for hi in 0..n_hist {
		let dir = format!("{}/h{}", a.work, hi);
		let mut world = World::two(&dir);
		let scratch = format!("{}/scratch", dir);
		std::fs::create_dir_all(&scratch).unwrap();
		let cfg = cfg_for(prop, a.thorough());
		let hseed = rng.next();
		let mut hrng = Rng::new(hseed);
		let mut h = History::new(&mut world, cfg, &scratch);
		let r = catch(|| h.run(&mut hrng));
		if let Err((loc, msg)) = r {
			// a panic inside a wallet call during a history: reported under the property being checked
			// only if it is in repo code; harness panics are inconclusive
			if loc.starts_with("src/") {
				rep.inconclusive(&format!("harness panic at {}: {}", loc, msg));
			} else {
				rep.violation(&format!("{}|panic|{}", prop, loc), &format!("wallet code panicked during a history at {}: {}", loc, msg), json!({"job": a.prop, "history_seed": hseed, "events_tail": h.tail(12)}));
			}
		}
		rep.evaluations += h.step as u64;
		for d in h.distinct.iter() {
			rep.distinct.insert(*d);
		}
		for (k, v) in h.stats.iter() {
			rep.count_n(k, *v);
		}
		for (k, v) in h.transitions.iter() {
			rep.count_n(&format!("transition:{}", k), *v);
		}
		rep.max("max:live-sent-transactions-at-once", h.max_live as u64);
		rep.count_n("flights", h.flights.len() as u64);
		let tail = h.tail(25);
		let mut other: std::collections::BTreeMap<String, u64> = Default::default();
		for v in h.viols.iter() {
			if v.prop == prop {
				let upto: Vec<_> = h.events.iter().filter(|e| e["step"].as_u64().unwrap_or(0) as usize <= v.step).cloned().collect();
				let s = upto.len().saturating_sub(30);
				rep.violation(&v.signature, &v.what, json!({"job": a.prop, "history_seed": hseed, "history_index": hi, "at_step": v.step, "events_before": upto[s..].to_vec()}));
			} else {
				*other.entry(v.signature.clone()).or_insert(0) += 1;
			}
		}
		for (k, v) in other {
			rep.note(&format!("observation of another property's monitor during this run (judged by its own check): {} x{}", k, v));
		}
		if rep.samples.len() < 2 {
			rep.sample(json!({"history_seed": hseed, "steps": h.step, "events_tail": tail}));
		}
		drop(h);
		drop(world);
		let _ = std::fs::remove_dir_all(&dir);
	}
	if prop == "C12" && (a.shard % 2 == 0 || a.thorough()) {
		second_reply_after_finalization(a, &mut rep, &mut rng);
	}
	rep.write(&a.out);
}

/// C12, "no two slates a wallet takes part in ever carry the same public nonce from it", at the one place where the
/// wallet could be made to sign twice with one nonce: a second, *different* reply to a transaction it has already
/// finalized (the nonce lives in the stored context, which finalization consumes). Invoice flow: the honest payer's
/// reply is finalized, then a reply built by hand over another coin arrives. Send flow: the recipient's first reply is
/// finalized, then the reply of a second receipt (the recipient cancelled and received the same slate again) arrives.
/// Violated if the second finalization succeeds and returns a different kernel carrying the same public nonce from
/// the finalizing wallet (two messages signed under one nonce reveal the secret excess).
fn second_reply_after_finalization(a: &Args, rep: &mut Report, rng: &mut Rng) {
	use grin_keychain::{ExtKeychain, Keychain};
	use grin_wallet_libwallet::{InitTxArgs, IssueInvoiceTxArgs, Slate};
	let dir = format!("{}/second-reply", a.work);
	let mut w = World::two(&dir);
	let _ = w.mine_n(Some(0), 7);
	let _ = w.mine_n(Some(1), 3);
	let _ = w.mine_n(None, 3);
	let _ = w.wallets[0].refresh();
	let _ = w.wallets[1].refresh();
	let secp = grin_util::static_secp_instance();
	let nonce_hex = |s: &Slate, i: usize| -> Option<String> {
		let secp = secp.lock();
		s.participant_data.get(i).map(|p| hex(&p.public_nonce.serialize_vec(&secp, true)))
	};
	let nonces_of = |s: &Slate| -> Vec<String> { (0..s.participant_data.len()).filter_map(|i| nonce_hex(s, i)).collect() };
	for flow in ["Invoice", "Send"].iter() {
		let amount = 1_000_000_000 + rng.below(2_000_000_000);
		let args = InitTxArgs { amount, minimum_confirmations: 1, num_change_outputs: 1, selection_strategy_is_use_all: false, ..Default::default() };
		// (finalizing wallet, its first slate, reply A, reply B)
		let built: Result<(usize, Slate, Slate, Slate), String> = (|| {
			let e = |x: grin_wallet_libwallet::Error| format!("{:?}", x);
			if *flow == "Invoice" {
				let i1 = w.wallets[1].issue_invoice(IssueInvoiceTxArgs { amount, ..Default::default() }).map_err(e)?;
				let ra = w.wallets[0].process_invoice(&i1, args.clone()).map_err(e)?;
				w.wallets[0].lock_outputs(&ra).map_err(e)?;
				let height = w.node.chain().head().map(|h| h.height).unwrap_or(0);
				let fee = grin_core::libtx::tx_fee(1, 2, 1);
				let coin = w.wallets[0].all_outputs().map_err(e)?.into_iter().find(|o| o.eligible_to_spend(height, 1) && o.value > amount + fee + 1_000_000).ok_or("no second coin")?;
				let kc0 = w.wallets[0].keychain();
				let change_key = ExtKeychain::derive_key_id(3, 0, 0, 4_000_000 + (rng.next() as u32 % 1_000_000), 0);
				let rb = crate::props::c02::hand_built_invoice_reply(&kc0, &i1, &coin, 0, fee, amount, &change_key).map_err(e)?;
				Ok((1, i1, ra, rb))
			} else {
				let s1 = w.wallets[0].init_send(args.clone()).map_err(e)?;
				w.wallets[0].lock_outputs(&s1).map_err(e)?;
				let ra = w.wallets[1].receive(&s1, None).map_err(e)?;
				w.wallets[1].cancel(None, Some(s1.id)).map_err(e)?;
				let rb = w.wallets[1].receive(&s1, None).map_err(e)?;
				Ok((0, s1, ra, rb))
			}
		})();
		let (fin, first, ra, rb) = match built {
			Ok(x) => x,
			Err(e) => {
				rep.inconclusive(&format!("second reply after finalization ({}): setup failed: {}", flow, e));
				continue;
			}
		};
		let own_nonce = match nonce_hex(&first, 0) {
			Some(n) => n,
			None => continue,
		};
		if nonces_of(&ra) == nonces_of(&rb) {
			rep.inconclusive(&format!("second reply after finalization ({}): the two replies do not differ", flow));
			continue;
		}
		let finalize = |w: &World, s: &Slate| if *flow == "Invoice" { w.wallets[fin].foreign_finalize(s) } else { w.wallets[fin].finalize(s) };
		rep.eval();
		let f1 = match finalize(&w, &ra) {
			Ok(f) => f,
			Err(e) => {
				rep.inconclusive(&format!("second reply after finalization ({}): the first reply was refused: {:?}", flow, e));
				continue;
			}
		};
		rep.count(&format!("second-reply-after-finalization:{}:context-{}", flow, if w.wallets[fin].context(&first.id).is_err() { "gone" } else { "STILL-STORED" }));
		rep.eval();
		match catch(|| finalize(&w, &rb)) {
			Err((loc, msg)) => rep.violation(&format!("C12|panic|{}", loc), &format!("finalize of a second reply panicked: {}", msg), json!({"job": a.prop, "flow": flow})),
			Ok(Err(_)) => {
				rep.count(&format!("second-reply-after-finalization:{}:refused", flow));
				rep.distinct(&("second-reply", *flow, "refused"));
			}
			Ok(Ok(f2)) => {
				rep.count(&format!("second-reply-after-finalization:{}:ACCEPTED", flow));
				let k1 = f1.tx.as_ref().and_then(|t| t.kernels().get(0).cloned());
				let k2 = f2.tx.as_ref().and_then(|t| t.kernels().get(0).cloned());
				let differ = match (&k1, &k2) {
					(Some(a), Some(b)) => a.excess != b.excess || a.excess_sig != b.excess_sig,
					_ => false,
				};
				if differ && nonces_of(&f1).contains(&own_nonce) && nonces_of(&f2).contains(&own_nonce) {
					rep.violation(
						&format!("C12|nonce-signed-two-messages|second-reply-after-finalization:{}", flow),
						&format!("wallet {} finalized two different replies to its {} {}: both finalized slates carry its public nonce {}.. and their kernels differ (excess {} vs {}), i.e. one secret nonce signed two messages", fin, if *flow == "Invoice" { "invoice" } else { "send" }, first.id, &own_nonce[..16], k1.map(|k| hex(&k.excess.0[..8])).unwrap_or_default(), k2.map(|k| hex(&k.excess.0[..8])).unwrap_or_default()),
						json!({"job": a.prop, "flow": flow, "scenario": "second, different reply to an already finalized transaction"}),
					);
				}
			}
		}
		for i in 0..2 {
			if let Ok(txs) = w.wallets[i].all_txs() {
				for t in txs {
					if !t.confirmed && (t.tx_type == grin_wallet_libwallet::TxLogEntryType::TxSent || t.tx_type == grin_wallet_libwallet::TxLogEntryType::TxReceived) {
						let _ = w.wallets[i].cancel(Some(t.id), None);
					}
				}
			}
		}
	}
	drop(w);
	let _ = std::fs::remove_dir_all(&dir);
}

/// C15 restore clause: after a restore from seed + scan, the next path handed out lies beyond
/// every path of that seed found on chain, and new outputs do not reuse any of them.
pub fn run_restore(a: &Args) {
	use grin_wallet_libwallet::OutputStatus;
	let mut rep = Report::new("C15");
	let mut rng = Rng::new(a.shard_seed() ^ 0xC15E);
	let n_hist = if a.thorough() { 4 } else { 2 };
	for hi in 0..n_hist {
		let dir = format!("{}/r{}", a.work, hi);
		let mut world = World::two(&dir);
		let scratch = format!("{}/scratch", dir);
		std::fs::create_dir_all(&scratch).unwrap();
		let mut cfg = cfg_for("C04", false);
		cfg.steps = 60 + rng.usize(60);
		let hseed = rng.next();
		let mut hrng = Rng::new(hseed);
		let mut h = History::new(&mut world, cfg, &scratch);
		if catch(|| h.run(&mut hrng)).is_err() {
			rep.inconclusive("history panicked before restore");
			continue;
		}
		let keypaths = h.keypaths.clone();
		drop(h);
		let _ = world.mine_n(None, 2);
		for wi in 0..2 {
			rep.eval();
			let rdir = format!("{}/restored{}", dir, wi);
			let rw = match Wallet::create(world.node.clone(), &rdir, "restored", MNEMONICS[wi], "", false) {
				Ok(w) => w,
				Err(e) => {
					rep.inconclusive(&format!("restore create failed: {:?}", e));
					continue;
				}
			};
			let calls0 = world.node.st.lock().calls;
			{
				let mut st = world.node.st.lock();
				st.call_log.clear();
				st.log_calls = true;
			}
			if let Err(e) = rw.scan(None, false) {
				rep.inconclusive(&format!("scan failed: {:?}", e));
				continue;
			}
			let n_calls = world.node.st.lock().calls - calls0;
			// ordinal (within the scan) of the last page of the UTXO listing: the repairs come right after it
			let last_listing = {
				let mut st = world.node.st.lock();
				st.log_calls = false;
				let l = st.call_log.iter().filter(|c| c.ends_with(":get_outputs_by_pmmr_index")).filter_map(|c| c.split(':').next().and_then(|n| n.parse::<u64>().ok())).max().map(|n| n - calls0).unwrap_or(n_calls);
				st.call_log.clear();
				l
			};
			judge_restored(&mut rep, &world, &rw, wi, &keypaths, hseed, "plain");
			// The same restore, interrupted: the fresh wallet first receives a pending payment, then scans with
			// delete_unconfirmed while one node call fails; the scan is then repeated without fault. What the
			// first run restored must still count for the next path handed out.
			rep.eval();
			let fdir = format!("{}/restoredf{}", dir, wi);
			let fw = match Wallet::create(world.node.clone(), &fdir, "restoredf", MNEMONICS[wi], "", false) {
				Ok(w) => w,
				Err(_) => continue,
			};
			let pend = (|| -> Result<(), grin_wallet_libwallet::Error> {
				let s = world.wallets[1 - wi].init_send(grin_wallet_libwallet::InitTxArgs { amount: 150_000_000, minimum_confirmations: 1, selection_strategy_is_use_all: false, ..Default::default() })?;
				fw.receive(&s, None).map(|_| ())
			})();
			let k = if rng.chance(2, 3) { last_listing + 1 + rng.below(2) } else { 2 + rng.below(n_calls + 2) }; // mostly right after the listing, where the repairs start
			world.node.fail_kth_from_now(k);
			let first = fw.scan(None, true);
			world.node.clear_faults();
			rep.count(&format!("restore:interrupted:first-scan-{}", if first.is_ok() { "completed(fault not reached)" } else { "failed" }));
			if pend.is_err() {
				rep.count("restore:interrupted:no-pending-receipt");
			}
			match fw.scan(None, true) {
				Ok(_) => {
					let had_restored = first.is_err() && !fw.all_outputs().unwrap_or_default().is_empty();
					if judge_restored(&mut rep, &world, &fw, wi, &keypaths, hseed, "interrupted-then-repeated") && had_restored {
						rep.count("restore:interrupted-scan-then-repeated:next-path-beyond-chain");
					}
				}
				Err(e) => rep.inconclusive(&format!("repeated scan failed: {:?}", e)),
			}
			let _ = world.wallets[1 - wi].refresh();
		}
		drop(world);
		let _ = std::fs::remove_dir_all(&dir);
	}
	rep.write(&a.out);
}

/// Restore clause of C15: the next path a restored wallet hands out lies beyond every path of its seed on chain.
fn judge_restored(rep: &mut Report, world: &World, rw: &Wallet, wi: usize, keypaths: &std::collections::BTreeMap<(usize, String), (String, u64, bool, usize)>, hseed: u64, variant: &str) -> bool {
	use grin_wallet_libwallet::OutputStatus;
	let case = json!({"job": "c15r", "history_seed": hseed, "wallet": wi, "restore": variant});
	// paths of this seed on chain = every path the original ever used whose commitment is in the UTXO set
	let mut max_on_chain: std::collections::BTreeMap<String, u32> = Default::default();
	for ((w, path), (commit, _, _, _)) in keypaths.iter() {
		if *w != wi {
			continue;
		}
		let c = grin_util::secp::pedersen::Commitment::from_vec(unhex(commit).unwrap());
		if world.is_unspent(&c) {
			let id = grin_keychain::Identifier::from_hex(path).unwrap();
			let parent = idstr(&id.parent_path());
			let n = id.to_path().last_path_index();
			let e = max_on_chain.entry(parent).or_insert(0);
			if n > *e {
				*e = n;
			}
		}
	}
	let mut ok = true;
	for acct in rw.accounts().unwrap_or_default() {
		let next = rw.child_index(&acct.path).unwrap_or(0);
		if let Some(m) = max_on_chain.get(&idstr(&acct.path)) {
			if next <= *m {
				ok = false;
				rep.violation("C15|restore-next-path-not-beyond-chain", &format!("restored wallet {} ({}) account {}: next derivation index {} is not beyond the highest index {} found on chain", wi, variant, acct.label, next, m), case.clone());
			}
		}
	}
	for (parent, m) in max_on_chain.iter() {
		if !rw.accounts().unwrap_or_default().iter().any(|a| idstr(&a.path) == *parent) {
			ok = false;
			rep.violation("C15|restore-account-missing", &format!("restored wallet {} ({}): account path {} (highest on-chain index {}) was not restored", wi, variant, parent, m), case.clone());
		}
	}
	// new outputs after the restore must not collide with any path on chain
	let before: std::collections::BTreeSet<String> = rw.all_outputs().unwrap_or_default().iter().map(|o| idstr(&o.key_id)).collect();
	for acct in rw.accounts().unwrap_or_default() {
		let _ = rw.set_account(&acct.label);
		let bf = grin_wallet_libwallet::BlockFees { fees: 0, key_id: None, height: world.height() + 1 };
		let _ = rw.build_coinbase(&bf);
	}
	for o in rw.all_outputs().unwrap_or_default() {
		let k = idstr(&o.key_id);
		if !before.contains(&k) && o.status == OutputStatus::Unconfirmed {
			if let Some((commit, _, _, _)) = keypaths.get(&(wi, k.clone())) {
				let c = grin_util::secp::pedersen::Commitment::from_vec(unhex(commit).unwrap());
				if world.is_unspent(&c) {
					ok = false;
					rep.violation("C15|restored-wallet-reuses-chain-path", &format!("restored wallet {} ({}) handed out path {} which an on-chain output of this seed already uses", wi, variant, k), case.clone());
				}
			}
		}
	}
	if ok && variant == "plain" {
		rep.count("restore:next-path-beyond-chain");
		rep.distinct(&("restore", wi, max_on_chain.len(), max_on_chain.values().cloned().max()));
	}
	ok
}

/// A miner's account that is not the active one: coinbases are built into account `mining`, the wallet
/// switches back to `default` without ever refreshing `mining`, and the chain grows by more than 100
/// blocks. C04 (job c04m): after a refresh of `default` and then of `mining`, the records of `mining` must
/// be exactly its outputs in the UTXO set (one account's refresh must not lose another account's outputs).
/// C16 (job c16m): a scan with a start height near the tip (and `default` active) must not lose or
/// misrecord what lies below its range either.
pub fn run_accounts(a: &Args, prop: &'static str) {
	use grin_wallet_libwallet::OutputStatus;
	let mut rep = Report::new(prop);
	let mut rng = Rng::new(a.shard_seed() ^ 0xACC7);
	let rounds = if a.thorough() { 3 } else { 1 };
	for ri in 0..rounds {
		let dir = format!("{}/acct{}", a.work, ri);
		let mut w = World::two(&dir);
		// wallet 0 is replaced by a brand-new wallet (own seed, init status "no scanning")
		match Wallet::create_new(w.node.clone(), &format!("{}/wnew", dir), "wnew", "") {
			Ok(nw) => w.wallets[0] = nw,
			Err(e) => {
				rep.inconclusive(&format!("could not create a new wallet: {:?}", e));
				continue;
			}
		}
		let n_cb = 3 + rng.usize(4);
		let _ = w.wallets[0].create_account("mining");
		let _ = w.wallets[0].set_account("mining");
		let _ = w.mine_n(Some(0), n_cb);
		let _ = w.wallets[0].set_account("default");
		let mined: Vec<(String, u64)> = w.wallets[0].all_outputs().unwrap_or_default().iter().filter(|o| o.is_coinbase).map(|o| (grin_util::ToHex::to_hex(&w.wallets[0].commit_of(o)), o.value)).collect();
		// a few coinbases for the default account too, then a long stretch of other people's blocks
		let _ = w.mine_n(Some(0), 2);
		let extra = 101 + rng.usize(8);
		for _ in 0..extra {
			let _ = w.mine(None, false);
		}
		let tip = w.height();
		let case = json!({"job": a.prop, "coinbases_built_into_account_mining": n_cb, "blocks_since": extra + 2, "tip": tip});
		let wal = &w.wallets[0];
		let in_utxo: Vec<&(String, u64)> = mined.iter().filter(|(c, _)| w.is_unspent(&grin_util::secp::pedersen::Commitment::from_vec(unhex(c).unwrap()))).collect();
		rep.eval();
		if prop == "C04" {
			let r1 = wal.info(true, 1);
			let _ = wal.set_account("mining");
			let r2 = wal.info(true, 1);
			match (r1, r2) {
				(Ok((true, _)), Ok((true, info))) => {
					let outs = wal.all_outputs().unwrap_or_default();
					let have: Vec<String> = outs.iter().filter(|o| o.status == OutputStatus::Unspent).map(|o| grin_util::ToHex::to_hex(&wal.commit_of(o))).collect();
					let missing: Vec<&&(String, u64)> = in_utxo.iter().filter(|(c, _)| !have.contains(c)).collect();
					let want: u64 = in_utxo.iter().map(|(_, v)| *v).sum();
					if !missing.is_empty() {
						rep.violation("C04|utxo-output-forgotten|other-account-refreshed-first", &format!("account 'mining' holds {} outputs in the UTXO set (value {}), but after refreshing 'default' and then 'mining' {} of them are not recorded (account total {})", in_utxo.len(), want, missing.len(), info.total), case.clone());
					} else if info.total != want {
						rep.violation("C04|figures|other-account-refreshed-first", &format!("account 'mining' reports total {} but its outputs in the UTXO set are worth {}", info.total, want), case.clone());
					} else {
						rep.count("books:judged-for-an-account-refreshed-after-another");
						rep.distinct(&("acct-refresh-order", n_cb, extra));
					}
				}
				_ => rep.inconclusive("refresh not validated"),
			}
		} else {
			// C16: a scan of the last blocks only, run while 'default' is active and 'mining' has never been refreshed;
			// whatever the wallet had recorded and is in the UTXO set must still be recorded (as unspent) afterwards
			let before: Vec<String> = wal.all_outputs().unwrap_or_default().iter().map(|o| grin_util::ToHex::to_hex(&wal.commit_of(o))).collect();
			let start = tip.saturating_sub(5 + rng.below(10));
			match wal.scan(Some(start), false) {
				Err(e) => rep.violation(&format!("C16|partial-scan-failed|{}", err_kind(&e)), &format!("{:?}", e), case.clone()),
				Ok(()) => {
					let after: Vec<String> = wal.all_outputs().unwrap_or_default().iter().filter(|o| o.status == OutputStatus::Unspent).map(|o| grin_util::ToHex::to_hex(&wal.commit_of(o))).collect();
					let lost: Vec<&String> = before.iter().filter(|c| !after.contains(c) && w.is_unspent(&grin_util::secp::pedersen::Commitment::from_vec(unhex(c).unwrap()))).collect();
					if !lost.is_empty() {
						rep.violation("C16|partial-scan|lost-outputs-below-its-range", &format!("a scan starting at height {} (tip {}) removed {} unspent records whose outputs are in the UTXO set below its range", start, tip, lost.len()), case.clone());
					} else {
						rep.count("partial-scan:keeps-records-below-its-range");
						rep.distinct(&("acct-partial-scan", n_cb, tip - start));
					}
				}
			}
		}
		let _ = wal.set_account("default");
		drop(w);
		let _ = std::fs::remove_dir_all(&dir);
	}
	rep.sample(json!({"scenario": "coinbases built into a non-active account, >100 blocks later"}));
	rep.write(&a.out);
}
