//! C16 Scanning restores and repairs the wallet to the chain's truth, idempotently.

use crate::hist::*;
use crate::props::chist::cfg_for;
use crate::util::*;
use crate::world::*;
use grin_util::secp::pedersen::Commitment;
use grin_util::ToHex;
use grin_wallet_libwallet as libwallet;
use grin_wallet_libwallet::{OutputData, OutputStatus, TxLogEntry, TxLogEntryType};
use serde_json::json;
use std::collections::{BTreeMap, BTreeSet};

/// chain truth for one seed: commitment -> (value, account root, height, coinbase) of every output in the UTXO set
fn truth(w: &World, seen: &BTreeMap<String, (String, u64)>) -> BTreeMap<String, (u64, String, u64, bool)> {
	let chain = w.chain();
	let mut t = BTreeMap::new();
	for (c, (root, value)) in seen.iter() {
		let commit = Commitment::from_vec(unhex(c).unwrap());
		if let Ok(Some((_, pos))) = chain.get_unspent(commit) {
			let cb = chain.get_unspent_output_at(pos.pos - 1).map(|o| o.is_coinbase()).unwrap_or(false);
			t.insert(c.clone(), (*value, root.clone(), pos.height, cb));
		}
	}
	t
}

fn compare_with_truth(rep: &mut Report, what: &str, wal: &Wallet, tr: &BTreeMap<String, (u64, String, u64, bool)>, tip: u64, allow_locked: bool, case: &serde_json::Value) -> bool {
	let mut ok = true;
	let outs = wal.all_outputs().unwrap_or_default();
	let mut have: BTreeMap<String, &OutputData> = BTreeMap::new();
	for o in outs.iter() {
		if o.status == OutputStatus::Unspent || (allow_locked && o.status == OutputStatus::Locked) {
			have.insert(wal.commit_of(o).to_hex(), o);
		}
	}
	for (c, (value, root, height, cb)) in tr.iter() {
		match have.get(c) {
			None => {
				ok = false;
				let st = outs.iter().find(|o| wal.commit_of(o).to_hex() == *c).map(|o| status_str(&o.status)).unwrap_or("absent");
				rep.violation(&format!("C16|{}|utxo-output-not-unspent|wallet-status={}|coinbase={}", what, st, cb), &format!("{}: output {} (value {}, height {}) is in the UTXO set but the scanned wallet has it as {}", what, &c[..16], value, height, st), case.clone());
			}
			Some(o) => {
				let mut wrong = vec![];
				if o.value != *value {
					wrong.push("value");
				}
				if o.height != *height {
					wrong.push("height");
				}
				if o.is_coinbase != *cb {
					wrong.push("coinbase-flag");
				}
				if idstr(&o.root_key_id) != *root {
					wrong.push("account");
				}
				let want_lock = if *cb { *height + grin_core::global::coinbase_maturity() } else { *height };
				if *cb && o.lock_height != want_lock {
					wrong.push("maturity");
				}
				if !wrong.is_empty() {
					ok = false;
					rep.violation(&format!("C16|{}|wrong-{}", what, wrong.join("+")), &format!("{}: output {} recorded with value {} height {} lock_height {} coinbase {} account {}, chain truth: value {} height {} coinbase {} account {}", what, &c[..16], o.value, o.height, o.lock_height, o.is_coinbase, idstr(&o.root_key_id), value, height, cb, root), case.clone());
				}
			}
		}
	}
	for (c, o) in have.iter() {
		if !tr.contains_key(c) {
			ok = false;
			rep.violation(&format!("C16|{}|unspent-record-not-in-utxo|coinbase={}", what, o.is_coinbase), &format!("{}: the wallet records output {} (value {}) as {} but it is not in the UTXO set", what, &c[..16], o.value, status_str(&o.status)), case.clone());
		}
	}
	// every account path that holds outputs on chain must be reachable through an account of the wallet
	let paths: Vec<String> = wal.accounts().unwrap_or_default().iter().map(|a| idstr(&a.path)).collect();
	let mut roots: Vec<&String> = tr.values().map(|(_, root, _, _)| root).collect();
	roots.sort();
	roots.dedup();
	for r in roots {
		if !paths.contains(r) {
			ok = false;
			let v: u64 = tr.values().filter(|(_, root, _, _)| root == r).map(|(v, _, _, _)| *v).sum();
			rep.violation(&format!("C16|{}|account-path-unreachable", what), &format!("{}: outputs worth {} lie on account path {} but no account of the scanned wallet has that path (accounts: {:?})", what, v, r, wal.accounts().unwrap_or_default().iter().map(|a| format!("{}={}", a.label, idstr(&a.path))).collect::<Vec<_>>()), case.clone());
		}
	}
	// spendable / immature totals per account from chain truth
	for acct in wal.accounts().unwrap_or_default() {
		let _ = wal.set_account(&acct.label);
		// (a refresh first: the per-account confirmed height is what the balance figures are relative to)
		if let Ok((true, info)) = wal.info(true, 1) {
			let mut spend = 0u64;
			let mut imm = 0u64;
			for (c, (value, root, height, cb)) in tr.iter() {
				if *root != idstr(&acct.path) {
					continue;
				}
				let locked = outs.iter().any(|o| wal.commit_of(o).to_hex() == *c && o.status == OutputStatus::Locked);
				if locked {
					continue;
				}
				if *cb && *height + grin_core::global::coinbase_maturity() > tip {
					imm += value;
				} else {
					spend += value;
				}
			}
			if info.amount_currently_spendable != spend || info.amount_immature != imm {
				ok = false;
				rep.violation(&format!("C16|{}|balance", what), &format!("{} account {}: reports spendable {} immature {} but chain truth gives {} / {}", what, acct.label, info.amount_currently_spendable, info.amount_immature, spend, imm), case.clone());
			}
		}
	}
	let _ = wal.set_account("default");
	ok
}

fn proj_no_ts(w: &Wallet) -> u64 {
	w.projection().map(|p| hash64(&(p.outs, p.txs, p.accounts, p.child_idx))).unwrap_or(0)
}

pub fn run(a: &Args) {
	let mut rep = Report::new("C16");
	let mut rng = Rng::new(a.shard_seed() ^ 0xC16);
	let n_scen = a.get_u64("scenarios", if a.thorough() { 6 } else { 3 }) as usize;
	for si in 0..n_scen {
		let dir = format!("{}/s{}", a.work, si);
		let mut world = World::two(&dir);
		let scratch = format!("{}/scratch", dir);
		std::fs::create_dir_all(&scratch).unwrap();
		let mut cfg = cfg_for("C04", false);
		cfg.allow_minconf0 = false;
		cfg.third_account = si % 2 == 1;
		cfg.stale_coinbase = true;
		cfg.steps = 70 + rng.usize(80);
		let hseed = rng.next();
		let mut hrng = Rng::new(hseed);
		let mut h = History::new(&mut world, cfg, &scratch);
		if catch(|| h.run(&mut hrng)).is_err() {
			rep.inconclusive("history panicked");
			continue;
		}
		let seen: Vec<BTreeMap<String, (String, u64)>> = h.seen_commits.clone();
		let flights: Vec<uuid::Uuid> = h.flights.iter().map(|f| f.id).collect();
		for (k, n) in h.stats.iter().filter(|(k, _)| k.starts_with("op:coinbase-")) {
			rep.count_n(k, *n);
		}
		drop(h);
		// settle: nothing pending in the pool, everything refreshed
		let _ = world.mine_n(None, 2);
		world.node.st.lock().pool.clear();
		for i in 0..2 {
			for acct in ["default", "acct1"].iter() {
				let _ = world.wallets[i].set_account(acct);
				let _ = world.wallets[i].refresh();
			}
			let _ = world.wallets[i].set_account("default");
		}
		let tip = world.height();
		let page = *rng.pick(&[0u64, 1, 2, 3, 7, 1000]);
		world.node.set_page(page);
		let case = json!({"job":"c16","history_seed": hseed, "scenario": si, "node_page_size": page, "tip": tip});
		for wi in 0..2 {
			let tr = truth(&world, &seen[wi]);
			// ---------------- (a) restore from the phrase into a fresh wallet
			rep.eval();
			let rdir = format!("{}/restored{}", dir, wi);
			match Wallet::create(world.node.clone(), &rdir, "restored", MNEMONICS[wi], "", false) {
				Err(e) => rep.inconclusive(&format!("restore create: {:?}", e)),
				Ok(rw) => {
					// sometimes the user has already created an account in the new wallet before scanning, with a
					// label of the kind the scan itself hands out
					if rng.chance(1, 2) {
						let l = *rng.pick(&["account_1", "account_2", "savings"]);
						if rw.create_account(l).is_ok() {
							rep.count("restore:account-created-before-the-scan");
						}
					}
					let start = *rng.pick(&[None, Some(1u64)]);
					match catch(|| rw.scan(start, false)) {
						Err((loc, msg)) => rep.violation(&format!("C16|panic|{}", loc), &msg, case.clone()),
						Ok(Err(e)) => rep.violation(&format!("C16|restore-scan-failed|{}", err_kind(&e)), &format!("{:?}", e), case.clone()),
						Ok(Ok(())) => {
							let ok = compare_with_truth(&mut rep, "restore", &rw, &tr, tip, false, &case);
							// same spendable total as the original (judged when the original holds no reservations)
							let orig_locked = world.wallets[wi].all_outputs().unwrap_or_default().iter().any(|o| o.status == OutputStatus::Locked);
							if !orig_locked {
								let mut so = 0u64;
								let mut sr = 0u64;
								for acct in world.wallets[wi].accounts().unwrap_or_default() {
									let _ = world.wallets[wi].set_account(&acct.label);
									so += world.wallets[wi].info(true, 1).map(|i| i.1.amount_currently_spendable).unwrap_or(0);
								}
								let _ = world.wallets[wi].set_account("default");
								for acct in rw.accounts().unwrap_or_default() {
									let _ = rw.set_account(&acct.label);
									sr += rw.info(true, 1).map(|i| i.1.amount_currently_spendable).unwrap_or(0);
								}
								let _ = rw.set_account("default");
								if so != sr {
									rep.violation("C16|restore|spendable-differs-from-original", &format!("restored wallet reports spendable {} but the original wallet {}", sr, so), case.clone());
								} else {
									rep.count("restore:spendable-equals-original");
								}
							}
							// idempotence
							let p1 = proj_no_ts(&rw);
							let n1 = rw.all_txs().map(|t| t.len()).unwrap_or(0);
							let _ = rw.scan(start, false);
							if proj_no_ts(&rw) != p1 {
								rep.violation("C16|restore|second-scan-changes-state", &format!("a second scan changed the restored wallet (entries {} -> {})", n1, rw.all_txs().map(|t| t.len()).unwrap_or(0)), case.clone());
							} else {
								rep.count("restore:second-scan-no-change");
							}
							if ok {
								rep.count("restore:matches-chain-truth");
							}
							rep.distinct(&("restore", wi, tr.len(), page, start.is_some()));
							if rep.samples.len() < 3 {
								rep.sample(json!({"kind":"restore","wallet": wi, "utxo_outputs_of_seed": tr.len(), "node_page_size": page, "start_height": start, "history_seed": hseed}));
							}
						}
					}
				}
			}
			// ---------------- (b) divergences injected into the existing wallet
			let wal = &world.wallets[wi];
			let outs = wal.all_outputs().unwrap_or_default();
			let unspent: Vec<OutputData> = outs.iter().filter(|o| o.status == OutputStatus::Unspent).cloned().collect();
			let delete_unconfirmed = rng.bool();
			let mut injected = vec![];
			let r = (|| -> Result<(), libwallet::Error> {
				with_backend!(wal, b, {
					let mut batch = b.batch(wal.m())?;
					for (k, o) in unspent.iter().enumerate() {
						match (k + si) % 5 {
							0 => {
								batch.delete(&o.key_id, &o.mmr_index)?;
								injected.push("deleted-output");
							}
							1 => {
								let mut x = o.clone();
								x.status = OutputStatus::Spent;
								batch.save(x)?;
								injected.push("unspent->spent");
							}
							2 if delete_unconfirmed => {
								// reserved by a fabricated pending entry
								let id = batch.next_tx_log_id(&o.root_key_id)?;
								let mut t = TxLogEntry::new(o.root_key_id.clone(), TxLogEntryType::TxSent, id);
								t.amount_debited = o.value;
								t.num_inputs = 1;
								batch.save_tx_log_entry(t, &o.root_key_id)?;
								let mut x = o.clone();
								x.status = OutputStatus::Locked;
								x.tx_log_entry = Some(id);
								batch.save(x)?;
								injected.push("unspent->locked(fake pending)");
							}
							_ => {}
						}
					}
					if delete_unconfirmed {
						// a stale unconfirmed output that never reached the chain
						let root = unspent.get(0).map(|o| o.root_key_id.clone());
						if let Some(root) = root {
							let key = grin_keychain::ExtKeychain::derive_key_id(3, 0, 7_000 + si as u32, 0, 0);
							use grin_keychain::Keychain;
							batch.save(OutputData { root_key_id: root, key_id: key, n_child: 7000, commit: None, mmr_index: None, value: 12345, status: OutputStatus::Unconfirmed, height: tip, lock_height: 0, is_coinbase: false, tx_log_entry: None })?;
							injected.push("stale-unconfirmed");
						}
					}
					batch.commit()?;
					Ok(())
				})
			})();
			if r.is_err() || injected.is_empty() {
				continue;
			}
			rep.eval();
			let case2 = json!({"job":"c16","history_seed": hseed, "scenario": si, "wallet": wi, "injected": injected, "delete_unconfirmed": delete_unconfirmed, "node_page_size": page});
			match catch(|| wal.scan(None, delete_unconfirmed)) {
				Err((loc, msg)) => rep.violation(&format!("C16|panic|{}", loc), &msg, case2.clone()),
				Ok(Err(e)) => rep.violation(&format!("C16|repair-scan-failed|{}", err_kind(&e)), &format!("{:?}", e), case2.clone()),
				Ok(Ok(())) => {
					let ok = compare_with_truth(&mut rep, "repair", wal, &tr, tip, !delete_unconfirmed, &case2);
					if delete_unconfirmed {
						let left: Vec<_> = wal.all_outputs().unwrap_or_default().into_iter().filter(|o| o.status == OutputStatus::Unconfirmed || o.status == OutputStatus::Locked).collect();
						if !left.is_empty() {
							rep.violation("C16|repair|pending-records-left-with-delete-unconfirmed", &format!("scan with delete_unconfirmed left {} reserved/unconfirmed records", left.len()), case2.clone());
						}
					}
					let p1 = proj_no_ts(wal);
					let _ = wal.scan(None, delete_unconfirmed);
					if proj_no_ts(wal) != p1 {
						rep.violation("C16|repair|second-scan-changes-state", "a second scan changed the repaired wallet", case2.clone());
					} else {
						rep.count("repair:second-scan-no-change");
					}
					if ok {
						rep.count("repair:matches-chain-truth");
					}
					let mut inj = injected.clone();
					inj.sort();
					inj.dedup();
					rep.distinct(&("repair", wi, inj, delete_unconfirmed, page));
				}
			}
		}
		// ---------------- (c) divergence by cancelling a broadcast transaction that is then mined
		let mut seen = seen;
		let note_outputs = |world: &World, seen: &mut Vec<BTreeMap<String, (String, u64)>>| {
			for i in 0..2 {
				for o in world.wallets[i].all_outputs().unwrap_or_default() {
					seen[i].insert(world.wallets[i].commit_of(&o).to_hex(), (idstr(&o.root_key_id), o.value));
				}
			}
		};
		world.node.set_page(0);
		{
			let r = (|| -> Result<(), libwallet::Error> {
				let (a, b) = (&world.wallets[0], &world.wallets[1]);
				let s1 = a.init_send(libwallet::InitTxArgs { amount: 500_000_000 + rng.below(2_000_000_000), minimum_confirmations: 1, num_change_outputs: 1, selection_strategy_is_use_all: false, ..Default::default() })?;
				a.lock_outputs(&s1)?;
				let s2 = b.receive(&s1, None)?;
				let s3 = a.finalize(&s2)?;
				a.post(s3.tx_or_err()?)?;
				Ok(())
			})();
			if r.is_ok() {
				note_outputs(&world, &mut seen);
				// the sender gives the transaction up although it is in the pool; then it is mined
				let id = world.wallets[0].all_txs().unwrap_or_default().iter().filter(|t| t.tx_type == TxLogEntryType::TxSent && !t.confirmed).map(|t| t.id).max();
				let c = world.wallets[0].cancel(id, None);
				let _ = world.mine_n(None, 2);
				if c.is_ok() {
					let tip = world.height();
					for wi in 0..2 {
						let tr = truth(&world, &seen[wi]);
						let wal = &world.wallets[wi];
						rep.eval();
						let case3 = json!({"job":"c16","history_seed": hseed, "scenario": si, "wallet": wi, "divergence": "a broadcast transaction cancelled by the sender, then mined"});
						match catch(|| wal.scan(None, false)) {
							Err((loc, msg)) => rep.violation(&format!("C16|panic|{}", loc), &msg, case3.clone()),
							Ok(Err(e)) => rep.violation(&format!("C16|repair-scan-failed|{}", err_kind(&e)), &format!("{:?}", e), case3.clone()),
							Ok(Ok(())) => {
								if compare_with_truth(&mut rep, "repair-after-cancel-of-broadcast", wal, &tr, tip, true, &case3) {
									rep.count("repair-after-cancel-of-broadcast:matches-chain-truth");
								}
								let p1 = proj_no_ts(wal);
								let _ = wal.scan(None, false);
								if proj_no_ts(wal) != p1 {
									rep.violation("C16|repair-after-cancel-of-broadcast|second-scan-changes-state", "a second scan changed the repaired wallet", case3.clone());
								}
								rep.distinct(&("repair-cancel-broadcast", wi));
							}
						}
					}
				}
			}
		}
		// ---------------- (d) divergence by a reorganisation: the last blocks (with whatever of the wallets' transactions
		// and coinbases they held) are replaced by a longer fork of neutral blocks; done last
		{
			note_outputs(&world, &mut seen);
			let tip0 = world.height();
			let d = 2 + rng.below(4);
			if tip0 > d + 2 {
				match world.build_fork(tip0 - d, d as usize + 1, &[], 4242 + si as u32) {
					Err(e) => rep.inconclusive(&format!("fork builder failed: {}", e)),
					Ok(_) => {
						world.node.st.lock().pool.clear();
						let tip = world.height();
						for wi in 0..2 {
							let tr = truth(&world, &seen[wi]);
							let wal = &world.wallets[wi];
							rep.eval();
							let case4 = json!({"job":"c16","history_seed": hseed, "scenario": si, "wallet": wi, "divergence": format!("the last {} blocks replaced by a fork of {} neutral blocks", d, d + 1)});
							match catch(|| wal.scan(None, false)) {
								Err((loc, msg)) => rep.violation(&format!("C16|panic|{}", loc), &msg, case4.clone()),
								Ok(Err(e)) => rep.violation(&format!("C16|repair-scan-failed|{}", err_kind(&e)), &format!("{:?}", e), case4.clone()),
								Ok(Ok(())) => {
									if compare_with_truth(&mut rep, "repair-after-reorg", wal, &tr, tip, true, &case4) {
										rep.count("repair-after-reorg:matches-chain-truth");
									}
									let p1 = proj_no_ts(wal);
									let _ = wal.scan(None, false);
									if proj_no_ts(wal) != p1 {
										rep.violation("C16|repair-after-reorg|second-scan-changes-state", "a second scan changed the repaired wallet", case4.clone());
									}
									rep.distinct(&("repair-reorg", wi, d));
								}
							}
						}
					}
				}
			}
		}
		let _ = flights;
		drop(world);
		let _ = std::fs::remove_dir_all(&dir);
	}
	let _: BTreeSet<u8> = BTreeSet::new();
	rep.write(&a.out);
}
