//! C09 Decoding untrusted input never crashes the wallet.
//!
//! Every decoder entry point is called under catch_unwind with a counting allocator, a CPU-time
//! meter, a journal (so that an abort can be attributed to its input) and a watchdog. Inputs are
//! random, grammar-near-valid, exhaustive single-position mutations/truncations of valid
//! encodings, and validly encrypted slatepacks with malformed plaintext.

use crate::gen::*;
use crate::util::*;
use crate::world::*;
use ed25519_dalek::SecretKey as DalekSecretKey;
use futures::executor::block_on;
use grin_api::Handler;
use grin_core::global;
use grin_util::secp::key::SecretKey;
use grin_util::{static_secp_instance, Mutex};
use grin_wallet_controller::controller::{ForeignAPIHandlerV2, OwnerAPIHandlerV3};
use grin_wallet_impls::{PathToSlatepack, SlateGetter};
use grin_wallet_libwallet as libwallet;
use grin_wallet_libwallet::api_impl::owner;
use grin_wallet_libwallet::{
	BlockFees, InitTxArgs, PaymentProof, RetrieveTxQueryArgs, Slate, SlateVersion, Slatepack,
	SlatepackAddress, SlatepackArmor, SlatepackBin, Slatepacker, SlatepackerArgs,
	VersionedBinSlate, VersionedSlate,
};
use grin_wallet_util::byte_ser;
use grin_wallet_util::OnionV3Address;
use hyper::{Body, Request};
use serde_json::{json, Value};
use std::convert::TryFrom;
use std::io::Write;
use std::os::unix::io::AsRawFd;
use std::sync::atomic::{AtomicU64, Ordering};
use std::sync::Arc;

// ---------------------------------------------------------------- journal + watchdog

static CASE_NO: AtomicU64 = AtomicU64::new(0);
static CASE_START_CPU_MS: AtomicU64 = AtomicU64::new(0);

struct Journal {
	f: std::fs::File,
}

impl Journal {
	fn new(path: &str) -> Journal {
		Journal {
			f: std::fs::OpenOptions::new()
				.create(true)
				.write(true)
				.truncate(true)
				.open(path)
				.unwrap(),
		}
	}
	fn note(&self, entry: &str, input: &[u8]) {
		let n = std::cmp::min(input.len(), 3000);
		let mut rec = Vec::with_capacity(n + 64);
		let _ = write!(rec, "{}\n{}\n", entry, input.len());
		rec.extend_from_slice(hex(&input[..n]).as_bytes());
		rec.push(b'\n');
		// fixed-position overwrite; trailing garbage from a longer previous record is cut by the
		// length line
		unsafe {
			libc::pwrite(self.f.as_raw_fd(), rec.as_ptr() as *const libc::c_void, rec.len(), 0);
			libc::ftruncate(self.f.as_raw_fd(), rec.len() as i64);
		}
	}
}

fn process_cpu_ms() -> u64 {
	let mut ts = libc::timespec {
		tv_sec: 0,
		tv_nsec: 0,
	};
	unsafe {
		libc::clock_gettime(libc::CLOCK_PROCESS_CPUTIME_ID, &mut ts);
	}
	ts.tv_sec as u64 * 1000 + ts.tv_nsec as u64 / 1_000_000
}

/// exits the process with code 77 when one case burns more than `limit_s` of CPU
fn start_watchdog(limit_s: u64) {
	std::thread::spawn(move || {
		let mut last_case = u64::MAX;
		loop {
			std::thread::sleep(std::time::Duration::from_millis(500));
			let c = CASE_NO.load(Ordering::Relaxed);
			let now = process_cpu_ms();
			if c != last_case {
				last_case = c;
				continue;
			}
			let st = CASE_START_CPU_MS.load(Ordering::Relaxed);
			if st > 0 && now.saturating_sub(st) > limit_s * 1000 {
				eprintln!("GWV-CPU-WATCHDOG case {} used more than {}s CPU", c, limit_s);
				std::process::exit(77);
			}
		}
	});
}

// ---------------------------------------------------------------- entry points

struct Ctx {
	dec_key: DalekSecretKey,
	dec_key_bytes: [u8; 32],
	my_addr: SlatepackAddress,
	world: World,
	foreign: ForeignAPIHandlerV2<LC, DirectNode, grin_keychain::ExtKeychain>,
	owner_h: OwnerAPIHandlerV3<LC, DirectNode, grin_keychain::ExtKeychain>,
	shared_key: SecretKey,
	scratch: String,
	stored_tx_id: uuid::Uuid,
	seed_wallet_dir: String,
}

pub fn post(h: &dyn Handler, body: Vec<u8>) -> Result<Vec<u8>, String> {
	let req = Request::post("http://127.0.0.1/v3/owner")
		.body(Body::from(body))
		.map_err(|e| format!("{}", e))?;
	let resp = block_on(h.post(req)).map_err(|e| format!("{:?}", e))?;
	let b = block_on(hyper::body::to_bytes(resp.into_body())).map_err(|e| format!("{}", e))?;
	Ok(b.to_vec())
}

pub fn enc_body(key: &SecretKey, plaintext: &[u8], id: u32) -> Vec<u8> {
	use ring::aead;
	let mut to_encrypt = plaintext.to_vec();
	let nonce = [7u8; 12];
	let unbound = aead::UnboundKey::new(&aead::AES_256_GCM, &key.0).unwrap();
	let sealing = aead::LessSafeKey::new(unbound);
	sealing
		.seal_in_place_append_tag(aead::Nonce::assume_unique_for_key(nonce), aead::Aad::from(&[]), &mut to_encrypt)
		.unwrap();
	json!({"jsonrpc":"2.0","method":"encrypted_request_v3","id":id,"params":{"nonce": hex(&nonce), "body_enc": base64::encode(&to_encrypt)}})
		.to_string()
		.into_bytes()
}

pub fn init_secure(h: &dyn Handler, seed: u8) -> Result<SecretKey, String> {
	// never hold the static secp lock across a handler call (the handler takes it too)
	let (sk, pk_hex) = {
		let secp_inst = static_secp_instance();
		let secp = secp_inst.lock();
		let sk = SecretKey::from_slice(&secp, &[seed; 32]).unwrap();
		let pk = grin_util::secp::key::PublicKey::from_secret_key(&secp, &sk).unwrap();
		(sk, hex(&pk.serialize_vec(&secp, true)))
	};
	let req = json!({"jsonrpc":"2.0","method":"init_secure_api","params":{"ecdh_pubkey": pk_hex},"id":1});
	let resp = post(h, req.to_string().into_bytes())?;
	let v: Value = serde_json::from_slice(&resp).map_err(|e| format!("{}", e))?;
	let their = v["result"]["Ok"].as_str().ok_or_else(|| format!("no key in {}", v))?;
	let secp_inst = static_secp_instance();
	let secp = secp_inst.lock();
	let mut shared = grin_util::secp::key::PublicKey::from_slice(&secp, &unhex(their).ok_or("hex")?).map_err(|e| format!("{:?}", e))?;
	shared.mul_assign(&secp, &sk).map_err(|e| format!("{:?}", e))?;
	let x = shared.serialize_vec(&secp, true);
	SecretKey::from_slice(&secp, &x[1..]).map_err(|e| format!("{:?}", e))
}

/// outcome of one decoder call: accepted / rejected
type Outcome = bool;

const ENTRIES: [&str; 27] = [
	"armor_decode",
	"deser_slatepack+decrypt+get_slate",
	"deser_slatepack(no-key)",
	"Slate::deserialize_upgrade",
	"json:VersionedSlate",
	"json:Slatepack",
	"json:PaymentProof",
	"json:InitTxArgs",
	"json:RetrieveTxQueryArgs",
	"json:BlockFees",
	"bin:VersionedBinSlate",
	"bin:SlatepackBin",
	"SlatepackAddress::try_from",
	"OnionV3Address::try_from",
	"owner::slate_from_slatepack_message",
	"owner::decode_slatepack_message",
	"PathToSlatepack::get_tx",
	"get_stored_tx(file)",
	"wallet.seed(open_wallet)",
	"foreign-rpc:body",
	"owner-rpc:plaintext-body",
	"owner-rpc:encrypted-hostile-plaintext",
	"foreign-rpc:receive_tx(param)",
	"foreign-rpc:finalize_tx(param)",
	"owner-rpc:encrypted:slate_from_slatepack_message(param)",
	"owner-rpc:encrypted:verify_payment_proof(param)",
	"owner-rpc:encrypted:finalize_tx(param)",
];

fn is_text_entry(e: usize) -> bool {
	matches!(e, 3..=9 | 12 | 13)
}

fn call_entry(cx: &Ctx, e: usize, input: &[u8]) -> Outcome {
	let text = || String::from_utf8_lossy(input).to_string();
	let packer_key = Slatepacker::new(SlatepackerArgs {
		sender: None,
		recipients: vec![],
		dec_key: Some(&cx.dec_key),
	});
	let packer_nokey = Slatepacker::new(SlatepackerArgs {
		sender: None,
		recipients: vec![],
		dec_key: None,
	});
	// "rejected" = an explicit error reply. A notification (no id: executed, answered with []) or any
	// reply without an error member counts as accepted, so that its effects are not held against it.
	let rpc_ok = |resp: Result<Vec<u8>, String>| -> bool {
		match resp {
			Ok(b) => {
				if std::env::var("GWV_DEBUG").is_ok() {
					eprintln!("RPC reply: {}", trunc(&String::from_utf8_lossy(&b), 600));
				}
				serde_json::from_slice::<Value>(&b)
					.map(|v| v["error"].is_null() && v["result"]["Err"].is_null())
					.unwrap_or(false)
			}
			Err(_) => false,
		}
	};
	match e {
		0 => SlatepackArmor::decode(input).is_ok(),
		1 => match packer_key.deser_slatepack(input, true) {
			Ok(sp) => packer_key.get_slate(&sp).is_ok(),
			Err(_) => false,
		},
		2 => match packer_nokey.deser_slatepack(input, false) {
			Ok(sp) => packer_nokey.get_slate(&sp).is_ok(),
			Err(_) => false,
		},
		3 => Slate::deserialize_upgrade(&text()).is_ok(),
		4 => serde_json::from_str::<VersionedSlate>(&text()).map(|v| Slate::from(v)).is_ok(),
		5 => serde_json::from_str::<Slatepack>(&text()).is_ok(),
		6 => serde_json::from_str::<PaymentProof>(&text()).is_ok(),
		7 => serde_json::from_str::<InitTxArgs>(&text()).is_ok(),
		8 => serde_json::from_str::<RetrieveTxQueryArgs>(&text()).is_ok(),
		9 => serde_json::from_str::<BlockFees>(&text()).is_ok(),
		10 => byte_ser::from_bytes::<VersionedBinSlate>(input)
			.map(|b| {
				let v: VersionedSlate = b.into();
				Slate::from(v)
			})
			.is_ok(),
		11 => byte_ser::from_bytes::<SlatepackBin>(input).is_ok(),
		12 => SlatepackAddress::try_from(text().as_str()).is_ok(),
		13 => OnionV3Address::try_from(text().as_str()).is_ok(),
		14 => owner::slate_from_slatepack_message(cx.world.wallets[0].inst.clone(), None, text(), vec![0, 1]).is_ok(),
		15 => owner::decode_slatepack_message(cx.world.wallets[0].inst.clone(), None, text(), vec![0]).is_ok(),
		16 => {
			let p = format!("{}/in.slatepack", cx.scratch);
			std::fs::write(&p, input).unwrap();
			PathToSlatepack::new(p.into(), &packer_key, true).get_tx().is_ok()
		}
		17 => {
			let w = &cx.world.wallets[0];
			let p = format!("{}/saved_txs/{}.grintx", w.data_dir(), cx.stored_tx_id);
			let orig = std::fs::read(&p).ok();
			std::fs::write(&p, input).unwrap();
			// restore the file even when the call unwinds, then let the panic continue
			let r = std::panic::catch_unwind(std::panic::AssertUnwindSafe(|| w.get_stored_tx(None, Some(&cx.stored_tx_id))));
			match &orig {
				Some(o) => std::fs::write(&p, o).unwrap(),
				None => {
					let _ = std::fs::remove_file(&p);
				}
			}
			let r = match r {
				Ok(r) => r,
				Err(e) => std::panic::resume_unwind(e),
			};
			matches!(r, Ok(Some(_)))
		}
		18 => {
			let p = format!("{}/wallet_data/wallet.seed", cx.seed_wallet_dir);
			std::fs::write(&p, input).unwrap();
			let inst = Wallet::new_inst(cx.world.node.clone(), &cx.seed_wallet_dir);
			let mut w = inst.lock();
			let lc = w.lc_provider().unwrap();
			let a = lc.get_mnemonic(None, grin_util::ZeroingString::from("pw")).is_ok();
			let b = lc.open_wallet(None, grin_util::ZeroingString::from("pw"), false, false).is_ok();
			let _ = lc.close_wallet(None);
			a || b
		}
		19 => rpc_ok(post(&cx.foreign, input.to_vec())),
		20 => rpc_ok(post(&cx.owner_h, input.to_vec())),
		21 => {
			let body = enc_body(&cx.shared_key, input, 1);
			post(&cx.owner_h, body).is_ok()
		}
		22 | 23 => {
			let method = if e == 22 { "receive_tx" } else { "finalize_tx" };
			let slate: Value = serde_json::from_slice(input).unwrap_or_else(|_| Value::String(text()));
			let req = if e == 22 {
				// the third parameter (where to send the reply; a string from outside like the slate): absent, not an
				// address, a well-formed slatepack address, or text taken from the input
				let dest = match input.len() % 5 {
					0 | 1 => Value::Null,
					2 => json!("not-an-address"),
					3 => json!(format!("{}", cx.my_addr)),
					_ => json!(text().chars().take(70).collect::<String>()),
				};
				json!({"jsonrpc":"2.0","method":method,"id":1,"params":[slate, null, dest]})
			} else {
				json!({"jsonrpc":"2.0","method":method,"id":1,"params":[slate]})
			};
			rpc_ok(post(&cx.foreign, req.to_string().into_bytes()))
		}
		24 | 25 | 26 => {
			let inner = match e {
				24 => json!({"jsonrpc":"2.0","method":"slate_from_slatepack_message","id":1,"params":{"token":null,"message": text(),"secret_indices":[0]}}),
				25 => {
					let proof: Value = serde_json::from_slice(input).unwrap_or_else(|_| Value::String(text()));
					json!({"jsonrpc":"2.0","method":"verify_payment_proof","id":1,"params":{"token":null,"proof": proof}})
				}
				_ => {
					let slate: Value = serde_json::from_slice(input).unwrap_or_else(|_| Value::String(text()));
					json!({"jsonrpc":"2.0","method":"finalize_tx","id":1,"params":{"token":null,"slate": slate}})
				}
			};
			let body = enc_body(&cx.shared_key, inner.to_string().as_bytes(), 1);
			match post(&cx.owner_h, body) {
				Ok(b) => {
					// decrypt the reply and look for result.Ok
					let v: Value = serde_json::from_slice(&b).unwrap_or(Value::Null);
					let enc = &v["result"]["Ok"];
					if enc.is_null() {
						return false;
					}
					let er: Result<grin_wallet_api::EncryptedResponse, _> = serde_json::from_value(v.clone());
					match er.ok().and_then(|er| er.decrypt(&cx.shared_key).ok()) {
						Some(inner) => !inner["result"]["Ok"].is_null(),
						None => false,
					}
				}
				Err(_) => false,
			}
		}
		_ => false,
	}
}

fn touches_wallet(e: usize) -> bool {
	e == 14 || e == 15 || e >= 19
}

// ---------------------------------------------------------------- the monitor around one call

struct Mon<'a> {
	rep: &'a mut Report,
	journal: Journal,
	cx: &'a Ctx,
	state_digest: u64,
	since_state_check: u32,
	last_dump: Vec<(Vec<u8>, Vec<u8>)>,
	/// percentage of the non-valid inputs to run (valgrind jobs run a deterministic sample)
	pct: u64,
	/// CPU seconds per input above which the input counts as unbounded work (raised under sanitizers / valgrind,
	/// where the native run is the one that judges CPU use)
	cpu_limit: f64,
}

impl<'a> Mon<'a> {
	fn wallet_dump(&self) -> Vec<(Vec<u8>, Vec<u8>)> {
		// every stored key/value except the key-derivation counters ('d'): a refused receive may
		// have consumed a derivation index, which reserves nothing and is not observable state
		let w = &self.cx.world.wallets[0];
		let mut dump: Vec<(Vec<u8>, Vec<u8>)> = w.db_dump(&self.cx.scratch).into_iter().filter(|(k, _)| k.first() != Some(&b'd')).collect();
		for (name, content) in w.files_list() {
			dump.push((format!("file:{}", name).into_bytes(), format!("{} bytes, hash {:016x}", content.len(), hash64(&content)).into_bytes()));
		}
		dump
	}

	fn wallet_digest(&mut self) -> u64 {
		let d = self.wallet_dump();
		let h = hash64(&d);
		self.last_dump = d;
		h
	}

	fn dump_diff(a: &[(Vec<u8>, Vec<u8>)], b: &[(Vec<u8>, Vec<u8>)]) -> Vec<String> {
		use std::collections::BTreeMap;
		let ma: BTreeMap<&Vec<u8>, &Vec<u8>> = a.iter().map(|(k, v)| (k, v)).collect();
		let mb: BTreeMap<&Vec<u8>, &Vec<u8>> = b.iter().map(|(k, v)| (k, v)).collect();
		let mut d = vec![];
		for (k, v) in ma.iter() {
			match mb.get(k) {
				None => d.push(format!("deleted '{}': {}", String::from_utf8_lossy(&k[..std::cmp::min(k.len(), 60)]), trunc(&String::from_utf8_lossy(v), 160))),
				Some(w) if w != v => d.push(format!("changed '{}': {} -> {}", String::from_utf8_lossy(&k[..std::cmp::min(k.len(), 60)]), trunc(&String::from_utf8_lossy(v), 200), trunc(&String::from_utf8_lossy(w), 200))),
				_ => {}
			}
		}
		for (k, v) in mb.iter() {
			if !ma.contains_key(k) {
				d.push(format!("added '{}': {}", String::from_utf8_lossy(&k[..std::cmp::min(k.len(), 60)]), trunc(&String::from_utf8_lossy(v), 200)));
			}
		}
		d
	}

	fn run(&mut self, e: usize, input: &[u8], class: &str) {
		let name = ENTRIES[e];
		if self.pct < 100 && class != "valid" && hash64(&(e, input)) % 100 >= self.pct {
			return;
		}
		self.rep.eval();
		CASE_NO.fetch_add(1, Ordering::Relaxed);
		CASE_START_CPU_MS.store(process_cpu_ms(), Ordering::Relaxed);
		self.journal.note(name, input);
		let cpu0 = thread_cpu_secs();
		alloc_start();
		let r = catch(|| call_entry(self.cx, e, input));
		let (peak, biggest) = alloc_stop();
		let cpu = thread_cpu_secs() - cpu0;
		CASE_START_CPU_MS.store(0, Ordering::Relaxed);
		let case = || json!({"entry": name, "class": class, "input_len": input.len(), "input_hex": hex(&input[..std::cmp::min(input.len(), 6000)]), "input_text": trunc(&String::from_utf8_lossy(input), 600)});
		match r {
			Err((loc, msg)) => {
				self.rep.violation(
					&format!("C09|panic|{}", loc),
					&format!("{} panicked at {}: {}", name, loc, trunc(&msg, 300)),
					case(),
				);
				self.rep.count(&format!("panic:{}", name));
			}
			Ok(accepted) => {
				self.rep.count(&format!("{}:{}", if accepted { "accepted" } else { "rejected" }, name));
				self.rep.distinct(&(e, class.to_string(), accepted, std::cmp::min(input.len() / 64, 40)));
				if self.rep.samples.len() < 6 && self.rep.evaluations % 1013 == 7 {
					self.rep.sample(json!({"entry": name, "class": class, "outcome": if accepted { "accepted" } else { "rejected" }, "input_len": input.len(), "input": trunc(&String::from_utf8_lossy(input), 240)}));
				}
				let allow = (64u64 << 20) + 64 * input.len() as u64;
				if peak > allow {
					self.rep.violation(
						&format!("C09|allocation|{}", name),
						&format!("{} allocated {} bytes (largest single {}) for a {}-byte input (allowed {})", name, peak, biggest, input.len(), allow),
						case(),
					);
				}
				self.rep.max("max:peak-alloc-bytes", peak);
				// "without bound" is judged relative to the size of the input: work that grows in proportion to it (a
				// cryptographic step per element of a list the caller supplied) is bounded by the request size limit
				if cpu > self.cpu_limit + 0.0005 * input.len() as f64 {
					self.rep.violation(
						&format!("C09|cpu|{}", name),
						&format!("{} used {:.1}s CPU on a {}-byte input", name, cpu, input.len()),
						case(),
					);
				}
				self.rep.max("max:cpu-ms-per-input", (cpu * 1000.0) as u64);
				// a rejected input leaves wallet state untouched (checked for wallet-facing entries)
				if touches_wallet(e) {
					self.since_state_check += 1;
					if !accepted {
						let every = matches!(e, 19 | 22 | 23 | 26);
						if every || self.since_state_check >= 25 || self.rep.evaluations % 97 == 0 {
							let before = std::mem::take(&mut self.last_dump);
							let d = self.wallet_digest();
							if d != self.state_digest {
								let diff = Mon::dump_diff(&before, &self.last_dump);
								if std::env::var("GWV_DEBUG").is_ok() {
									eprintln!("STATE DIFF {:?}", diff);
								}
								self.rep.note(&format!("state diff sample: {:?}", diff));
								self.rep.violation(
									&format!("C09|rejected-input-changed-state|{}{}", name, if every { "" } else { "|one-of-last-batch" }),
									"wallet state changed although every input since the last check was rejected",
									case(),
								);
								self.state_digest = d;
							}
							self.since_state_check = 0;
						}
					} else {
						self.state_digest = self.wallet_digest();
						self.since_state_check = 0;
					}
				}
			}
		}
	}
}

// ---------------------------------------------------------------- corpora and mutators

fn hostile_strings(rng: &mut Rng) -> Vec<String> {
	let mut v: Vec<String> = vec![
		"".into(),
		"a".into(),
		"aéa".into(),
		"é".into(),
		"00".into(),
		"0".into(),
		"zz".into(),
		"€€€€".into(),
		"\u{1F600}\u{1F600}".into(),
		"BEGINSLATEPACK".into(),
		"BEGINSLATEPACK.".into(),
		"BEGINSLATEPACK. ".into(),
		"BEGINSLATEPACK. 1. ENDSLATEPACK.".into(),
		"BEGINSLATEPACK. 11. ENDSLATEPACK.".into(),
		"BEGINSLATEPACK. 2VT. ENDSLATEPACK.".into(),
		"BEGINSLATEPACK. abc".into(),
		"BEGINSLATEPACK. abc.".into(),
		"BEGINSLATEPACK. abc. ENDSLATEPACK".into(),
		"BEGINSLATEPACK..".into(),
		"BEGINSLATEPACK...".into(),
		". ENDSLATEPACK.".into(),
		"{}".into(),
		"[]".into(),
		"null".into(),
		"\"x\"".into(),
		"[[[[[[[[[[[[[[[[[[[[[[[[[[[[[[[[[[[[[[[[[[[[[[[[[[[[[[[[[[[[[[[[[[[[[[[[[[[[[[[[[[[[[[[[[[[[[[[[[[[[[[[[[[[[[[[[[[[[[[[[[[[[[[[[[[[[[[[[[[[[[[[[[[[[[[[[[[[[[[[[[[[[[".into(),
		"{\"jsonrpc\":\"2.0\",\"method\":\"check_version\",\"id\":1,\"params\":[]}".into(),
		"{\"jsonrpc\":\"2.0\",\"method\":\"receive_tx\",\"id\":1,\"params\":[]}".into(),
		"{\"jsonrpc\":\"2.0\",\"method\":\"receive_tx\",\"id\":1,\"params\":[null,null,null]}".into(),
		"{\"jsonrpc\":\"2.0\",\"method\":\"build_coinbase\",\"id\":1,\"params\":[{\"fees\":0,\"height\":18446744073709551615,\"key_id\":null}]}".into(),
		"{\"jsonrpc\":\"2.0\",\"method\":\"build_coinbase\",\"id\":1,\"params\":[{\"fees\":18446744073709551615,\"height\":1,\"key_id\":null}]}".into(),
		"[{\"jsonrpc\":\"2.0\",\"method\":\"check_version\",\"id\":1,\"params\":[]},{\"jsonrpc\":\"2.0\",\"method\":\"check_version\",\"id\":2,\"params\":[]}]".into(),
		"grin1".into(),
		"tgrin1qqqqqqqqqqqqqqqqqqqqqqqqqqqqqqqqqqqqqqqqqqqqqqqqqqqqqqqqqq".into(),
		"http://.onion".into(),
		"HTTP://aaaaaaaaaaaaaaaaaaaaaaaaaaaaaaaaaaaaaaaaaaaaaaaaaaaaaaaa.onion".into(),
		"aaaaaaaaaaaaaaaaaaaaaaaaaaaaaaaaaaaaaaaaaaaaaaaaaa======".into(),
		"aaaaaaaaaaaaaaaaaaaaaaaaaaaaaaaaaaaaaaaaaaaaaaaaaaaaaaa=".into(),
		"aaaaaaaaaaaaaaaaaaaaaaaaaaaaaaaaaaaaaaaaaaaaaaaa========".into(),
		"================================================aaaaaaaa".into(),
		"ééééééééééééééééééééééééééééééééééééééééééééééééééééééééé".into(),
		"éaaaaaaaaaaaaaaaaaaaaaaaaaaaaaaaaaaaaaaaaaaaaaaaaaaaaaaaaaaaaaaa".into(),
	];
	for _ in 0..20 {
		let n = rng.usize(80);
		let mut s = String::new();
		for _ in 0..n {
			match rng.below(6) {
				0 => s.push(char::from_u32(0x80 + rng.below(0x700) as u32).unwrap_or('é')),
				1 => s.push(*rng.pick(&['{', '}', '[', ']', '"', ':', ',', '.', ' ', '\n', '\\'])),
				2 => s.push(*rng.pick(&['0', '1', '9', 'a', 'f', 'A', 'F'])),
				_ => s.push((32 + rng.below(95) as u8) as char),
			}
		}
		v.push(s);
	}
	v
}

/// byte-level single-position mutations, truncations, extensions of a valid encoding
static STRIDE: AtomicU64 = AtomicU64::new(1 << 32);

fn byte_mutants(rng: &mut Rng, valid: &[u8], exhaustive_limit: usize, sample: usize) -> Vec<(String, Vec<u8>)> {
	let st = STRIDE.load(Ordering::Relaxed);
	let (shard, nshards) = ((st & 0xffff_ffff) as usize, std::cmp::max((st >> 32) as usize, 1));
	let mut out = vec![];
	let n = valid.len();
	let positions: Vec<usize> = if n <= exhaustive_limit { (0..n).filter(|i| i % nshards == shard).collect() } else { (0..sample).map(|_| rng.usize(n)).collect() };
	for &i in positions.iter() {
		for (k, f) in [("set00", 0u8), ("setff", 0xffu8)].iter() {
			if valid[i] != *f {
				let mut b = valid.to_vec();
				b[i] = *f;
				out.push((format!("byte-{}", k), b));
			}
		}
		let mut b = valid.to_vec();
		b[i] = b[i].wrapping_add(1);
		out.push(("byte-inc".into(), b));
		let mut b = valid.to_vec();
		b[i] ^= 1 << rng.below(8);
		out.push(("bit-flip".into(), b));
		// truncation at this length
		out.push(("truncate".into(), valid[..i].to_vec()));
		// deletion / duplication of a byte
		let mut b = valid.to_vec();
		b.remove(i);
		out.push(("byte-delete".into(), b));
	}
	for k in [1usize, 7, 100].iter() {
		let mut b = valid.to_vec();
		b.extend(rng.bytes(*k));
		out.push(("extend".into(), b));
	}
	out
}

fn hostile_leaf_values(rng: &mut Rng, orig: &Value) -> Vec<Value> {
	let mut v = vec![
		Value::Null,
		json!(""),
		json!("aéa"),
		json!("0"),
		json!("00"),
		json!("zz"),
		json!(0),
		json!(-1),
		json!(1.5),
		json!(18446744073709551615u64),
		json!("18446744073709551616"),
		json!("-1"),
		json!([]),
		json!({}),
		json!(true),
	];
	if let Some(s) = orig.as_str() {
		// shorter / longer / odd-length / non-ascii at hex positions
		if s.len() > 2 {
			v.push(json!(&s[..s.len() - 1]));
			v.push(json!(&s[..2]));
			v.push(json!(format!("{}00", s)));
			let cut = std::cmp::min(s.len() - 1, 1 + rng.usize(s.len() - 1));
			if s.is_char_boundary(cut) {
				v.push(json!(format!("{}é{}", &s[..cut], &s[cut..])));
			}
			v.push(json!(s.to_uppercase()));
			v.push(json!(s.repeat(3)));
		}
	}
	v
}

/// JSON-level single-field mutations of a valid JSON document
fn json_mutants(rng: &mut Rng, valid: &Value) -> Vec<(String, Vec<u8>)> {
	fn paths(v: &Value, cur: Vec<String>, out: &mut Vec<Vec<String>>) {
		match v {
			Value::Object(m) => {
				for (k, c) in m.iter() {
					let mut p = cur.clone();
					p.push(k.clone());
					out.push(p.clone());
					paths(c, p, out);
				}
			}
			Value::Array(a) => {
				for (i, c) in a.iter().enumerate() {
					let mut p = cur.clone();
					p.push(format!("#{}", i));
					out.push(p.clone());
					paths(c, p, out);
				}
			}
			_ => {}
		}
	}
	fn get_mut<'a>(v: &'a mut Value, p: &[String]) -> Option<&'a mut Value> {
		let mut cur = v;
		for k in p {
			cur = if let Some(i) = k.strip_prefix('#') {
				cur.get_mut(i.parse::<usize>().ok()?)?
			} else {
				cur.get_mut(k.as_str())?
			};
		}
		Some(cur)
	}
	let mut ps = vec![];
	paths(valid, vec![], &mut ps);
	let mut out = vec![];
	for p in ps.iter() {
		let orig = {
			let mut c = valid.clone();
			get_mut(&mut c, p).cloned().unwrap_or(Value::Null)
		};
		for h in hostile_leaf_values(rng, &orig) {
			let mut c = valid.clone();
			if let Some(slot) = get_mut(&mut c, p) {
				*slot = h;
			}
			out.push((format!("json-field:{}", p.last().unwrap()), c.to_string().into_bytes()));
		}
		// delete the key / element
		let mut c = valid.clone();
		if let Some(parent) = get_mut(&mut c, &p[..p.len() - 1]) {
			let k = p.last().unwrap();
			match parent {
				Value::Object(m) => {
					m.remove(k.as_str());
				}
				Value::Array(a) => {
					if let Some(i) = k.strip_prefix('#').and_then(|i| i.parse::<usize>().ok()) {
						if i < a.len() {
							a.remove(i);
						}
					}
				}
				_ => {}
			}
		}
		out.push((format!("json-delete:{}", p.last().unwrap()), c.to_string().into_bytes()));
		// duplicate array element many times
		let mut c = valid.clone();
		if let Some(Value::Array(a)) = get_mut(&mut c, p) {
			if let Some(first) = a.get(0).cloned() {
				for _ in 0..300 {
					a.push(first.clone());
				}
				out.push((format!("json-array-x300:{}", p.last().unwrap()), c.to_string().into_bytes()));
			}
		}
	}
	out
}

/// age-encrypt arbitrary plaintext to the wallet's slatepack address and wrap it in every form
fn encrypted_with_plaintext(cx: &Ctx, plaintext: &[u8]) -> Vec<(String, Vec<u8>)> {
	let rk: age::x25519::Recipient = match cx.my_addr.to_age_pubkey_str().ok().and_then(|s| s.parse().ok()) {
		Some(r) => r,
		None => return vec![],
	};
	let enc = age::Encryptor::with_recipients(vec![Box::new(rk)]);
	let mut ct = vec![];
	{
		let mut w = match enc.wrap_output(&mut ct) {
			Ok(w) => w,
			Err(_) => return vec![],
		};
		let _ = w.write_all(plaintext);
		let _ = w.finish();
	}
	wrap_payload(ct, "valid-age")
}

fn wrap_payload(ct: Vec<u8>, tag: &str) -> Vec<(String, Vec<u8>)> {
	let mut sp = Slatepack::default();
	sp.mode = 1;
	sp.payload = ct;
	let mut out = vec![];
	if let Ok(a) = SlatepackArmor::encode(&sp) {
		out.push((format!("{}:armored", tag), a.into_bytes()));
	}
	if let Ok(b) = byte_ser::to_bytes(&SlatepackBin(sp.clone())) {
		out.push((format!("{}:binary", tag), b));
	}
	if let Ok(j) = serde_json::to_vec(&sp) {
		out.push((format!("{}:json", tag), j));
	}
	out
}

fn malformed_plaintexts(rng: &mut Rng, valid_slate_bin: &[u8]) -> Vec<Vec<u8>> {
	let meta_ok: Vec<u8> = vec![0, 0, 0, 2, 0, 0]; // len=2, flags=0
	let mut v: Vec<Vec<u8>> = vec![
		vec![],
		vec![0],
		vec![0, 0, 0],
		vec![0, 0, 0, 0],
		vec![0, 0, 0, 1],
		vec![0, 0, 0, 2, 0],
		vec![0xff, 0xff, 0xff, 0xff],
		vec![0xff, 0xff, 0xff, 0xff, 0, 0],
		vec![0, 0, 0, 100, 0, 0],
		vec![0, 0, 0, 2, 0, 1],          // sender flag, no sender
		vec![0, 0, 0, 2, 0, 2, 0xff, 0xff], // 65535 recipients, none present
		vec![0, 0, 0, 3, 0, 1, 200],     // sender length 200, absent
	];
	let mut ok = meta_ok.clone();
	ok.extend_from_slice(valid_slate_bin);
	for i in 0..std::cmp::min(ok.len(), 80) {
		v.push(ok[..i].to_vec());
		let mut b = ok.clone();
		b[i] = b[i].wrapping_add(1 + rng.below(255) as u8);
		v.push(b);
	}
	for _ in 0..10 {
		let n = rng.usize(64);
		v.push(rng.bytes(n));
	}
	v
}

// ---------------------------------------------------------------- driver

pub fn run(a: &Args) {
	let mut rep = Report::new("C09");
	let mut rng = Rng::new(a.shard_seed() ^ 0xC09);
	let scratch = format!("{}/scratch", a.work);
	std::fs::create_dir_all(&scratch).unwrap();
	let mut world = World::two(&format!("{}/world", a.work));
	// a funded wallet with a pending send, so that wallet-facing entries have state to protect
	let _ = world.mine_n(Some(0), 5);
	let _ = world.wallets[0].refresh();
	let pending = world.wallets[0].init_send(InitTxArgs { amount: 1_000_000_000, minimum_confirmations: 1, ..Default::default() });
	let mut stored_tx_id = uuid::Uuid::from_slice(&[9u8; 16]).unwrap();
	let mut valid_s2: Option<Slate> = None;
	if let Ok(s1) = &pending {
		let _ = world.wallets[0].lock_outputs(s1);
		stored_tx_id = s1.id;
		valid_s2 = world.wallets[1].receive(s1, None).ok();
	}
	// separate wallet directory whose seed file is overwritten with hostile content
	let seed_wallet_dir = format!("{}/seedwallet", a.work);
	{
		let _ = Wallet::create(world.node.clone(), &seed_wallet_dir, "sw", MNEMONICS[2], "pw", false);
	}
	let valid_seed = std::fs::read(format!("{}/wallet_data/wallet.seed", seed_wallet_dir)).unwrap_or_default();
	let dec_key = owner::get_slatepack_secret_key(world.wallets[0].inst.clone(), None, 0).expect("slatepack key");
	let my_addr = owner::get_slatepack_address(world.wallets[0].inst.clone(), None, 0).expect("slatepack addr");
	let mut dkb = [0u8; 32];
	dkb.copy_from_slice(dec_key.as_bytes());
	let foreign = ForeignAPIHandlerV2::new(world.wallets[0].inst.clone(), Arc::new(Mutex::new(None)), false, Mutex::new(None));
	let owner_h = OwnerAPIHandlerV3::new(world.wallets[0].inst.clone(), Arc::new(Mutex::new(None)), None, false);
	let shared_key = match init_secure(&owner_h, 0x42) {
		Ok(k) => k,
		Err(e) => {
			rep.inconclusive(&format!("init_secure_api failed: {}", e));
			rep.write(&a.out);
			return;
		}
	};
	let valid_stored_tx = std::fs::read(format!("{}/saved_txs/{}.grintx", world.wallets[0].data_dir(), stored_tx_id)).unwrap_or_default();
	let cx = Ctx {
		dec_key,
		dec_key_bytes: dkb,
		my_addr: my_addr.clone(),
		world,
		foreign,
		owner_h,
		shared_key,
		scratch: scratch.clone(),
		stored_tx_id,
		seed_wallet_dir,
	};
	let _ = cx.dec_key_bytes;
	STRIDE.store(((a.nshards as u64) << 32) | a.shard as u64, Ordering::Relaxed);
	start_watchdog(std::cmp::max(60, 4 * a.get_u64("cpulimit", 5)));
	let journal = Journal::new(&format!("{}.journal", a.out));

	if let Some(rp) = &a.replay {
		let v: Value = serde_json::from_str(&std::fs::read_to_string(rp).unwrap()).unwrap();
		let c = &v["case"];
		let entry = c["entry"].as_str().unwrap_or("");
		if let (Some(e), Some(input)) = (ENTRIES.iter().position(|n| *n == entry), c["input_hex"].as_str().and_then(unhex)) {
			let state_digest = 0;
			let mut mon = Mon { rep: &mut rep, journal, cx: &cx, state_digest, since_state_check: 0, last_dump: vec![], pct: 100, cpu_limit: 5.0 };
			mon.state_digest = mon.wallet_digest();
			mon.run(e, &input, "replay");
		} else {
			rep.inconclusive("replay file has no entry/input");
		}
		rep.write(&a.out);
		return;
	}

	global::set_local_chain_type(global::ChainTypes::AutomatedTesting);
	let g = SlateGen::new(&mut rng);
	let mut st = FieldStats::default();
	let mut mon = Mon { rep: &mut rep, journal, cx: &cx, state_digest: 0, since_state_check: 0, last_dump: vec![], pct: a.get_u64("pct", 100), cpu_limit: a.get_u64("cpulimit", 5) as f64 };
	mon.state_digest = mon.wallet_digest();
	let scale = if a.thorough() { 12 } else { 1 };

	// ---- (1) random bytes and hostile strings into every entry point
	let strings = hostile_strings(&mut rng);
	for e in 0..ENTRIES.len() {
		for s in strings.iter() {
			mon.run(e, s.as_bytes(), "hostile-string");
		}
		for _ in 0..(30 * scale) {
			let n = match rng.below(4) {
				0 => rng.usize(8),
				1 => rng.usize(64),
				2 => rng.usize(600),
				_ => rng.usize(4000),
			};
			let b = rng.bytes(n);
			mon.run(e, &b, "random-bytes");
			if is_text_entry(e) || e == 0 {
				// printable random
				let t: Vec<u8> = b.iter().map(|x| 32 + (x % 95)).collect();
				mon.run(e, &t, "random-printable");
			}
		}
	}

	// ---- (2)+(3) valid encodings and their single-position mutations
	let n_valid = 3 * scale as usize;
	for vi in 0..n_valid {
		let (v4, s) = g.slate(&mut rng, &mut st, 3);
		// V4 JSON
		let vj = serde_json::to_value(&v4).unwrap();
		let vjs = vj.to_string().into_bytes();
		for e in [3usize, 4].iter() {
			mon.run(*e, &vjs, "valid");
		}
		for (cls, m) in json_mutants(&mut rng, &vj) {
			mon.run(3, &m, &cls);
			if vi % 2 == 0 {
				mon.run(22, &m, &cls);
			}
		}
		for (cls, m) in byte_mutants(&mut rng, &vjs, 400, 150) {
			mon.run(3, &m, &cls);
		}
		// V4 binary
		let vb = {
			let v = VersionedSlate::into_version(s.clone(), SlateVersion::V4).unwrap();
			byte_ser::to_bytes(&VersionedBinSlate::try_from(v).unwrap()).unwrap()
		};
		mon.run(10, &vb, "valid");
		for (cls, m) in byte_mutants(&mut rng, &vb, 3000, 400) {
			mon.run(10, &m, &cls);
		}
		// slatepacks: plain and encrypted to this wallet, three forms
		for encrypted in [false, true].iter() {
			let packer = Slatepacker::new(SlatepackerArgs {
				sender: if rng.bool() { Some(g.address(&mut rng).1) } else { None },
				recipients: if *encrypted { vec![my_addr.clone()] } else { vec![] },
				dec_key: None,
			});
			let sp = match packer.create_slatepack(&s) {
				Ok(sp) => sp,
				Err(_) => continue,
			};
			let forms: Vec<(&str, Vec<u8>)> = vec![
				("armored", packer.armor_slatepack(&sp).unwrap_or_default().into_bytes()),
				("binary", byte_ser::to_bytes(&SlatepackBin(sp.clone())).unwrap_or_default()),
				("json", serde_json::to_vec(&sp).unwrap_or_default()),
			];
			for (fname, bytes) in forms.iter() {
				for e in [1usize, 2, 14, 15, 16, 24].iter() {
					mon.run(*e, bytes, "valid");
				}
				if *fname == "armored" {
					mon.run(0, bytes, "valid");
				}
				let limit = if vi == 0 { 100_000 } else { 300 };
				for (cls, m) in byte_mutants(&mut rng, bytes, limit, 200) {
					let cls = format!("{}:{}{}", cls, fname, if *encrypted { ":enc" } else { "" });
					mon.run(1, &m, &cls);
					if *fname == "armored" {
						mon.run(0, &m, &cls);
					}
					if rng.chance(1, 8) {
						mon.run(14, &m, &cls);
						mon.run(16, &m, &cls);
					}
					if *fname == "binary" {
						mon.run(11, &m, &cls);
					}
				}
				if *fname == "json" {
					if let Ok(v) = serde_json::from_slice::<Value>(bytes) {
						for (cls, m) in json_mutants(&mut rng, &v) {
							mon.run(5, &m, &cls);
							mon.run(1, &m, &cls);
						}
					}
				}
			}
		}
		// (4) validly encrypted, malformed plaintext
		if vi < 2 * scale as usize {
			for pt in malformed_plaintexts(&mut rng, &vb) {
				for (cls, m) in encrypted_with_plaintext(&cx, &pt) {
					mon.run(1, &m, &format!("malformed-plaintext:{}", cls));
					if rng.chance(1, 6) {
						mon.run(14, &m, &format!("malformed-plaintext:{}", cls));
						mon.run(15, &m, &format!("malformed-plaintext:{}", cls));
					}
				}
			}
		}
	}
	// an age file of the other kind (passphrase / scrypt stanza) inside a mode-1 slatepack
	if a.shard == 0 {
		let enc = age::Encryptor::with_user_passphrase(secrecy::Secret::new("pw".to_owned()));
		let mut ct = vec![];
		if let Ok(mut w) = enc.wrap_output(&mut ct) {
			let _ = w.write_all(b"hello");
			let _ = w.finish();
			for (cls, m) in wrap_payload(ct, "passphrase-age") {
				mon.run(1, &m, &cls);
				mon.run(14, &m, &cls);
				mon.run(24, &m, &cls);
			}
		}
	}
	// addresses
	for _ in 0..(10 * scale) {
		let (_, addr) = g.address(&mut rng);
		let s = addr.to_string();
		mon.run(12, s.as_bytes(), "valid");
		for (cls, m) in byte_mutants(&mut rng, s.as_bytes(), 200, 0) {
			mon.run(12, &m, &cls);
		}
		let o = OnionV3Address::from_bytes(addr.pub_key.to_bytes());
		for f in [o.to_ov3_str(), o.to_http_str(), hex(&addr.pub_key.to_bytes())].iter() {
			mon.run(13, f.as_bytes(), "valid");
			for (cls, m) in byte_mutants(&mut rng, f.as_bytes(), 200, 0) {
				mon.run(13, &m, &cls);
			}
			// multi-byte characters at every position
			let chars: Vec<char> = f.chars().collect();
			for i in 0..chars.len() {
				let mut c = chars.clone();
				c[i] = 'é';
				let t: String = c.iter().collect();
				mon.run(13, t.as_bytes(), "multibyte-char");
				mon.run(12, t.as_bytes(), "multibyte-char");
			}
		}
	}
	// other JSON types
	{
		let proof = json!({"amount":"60000000000","excess":hex(&g.commits[0].0),"recipient_address": g.address(&mut rng).1.to_string(),"recipient_sig": hex(&[1u8;64]),"sender_address": g.address(&mut rng).1.to_string(),"sender_sig": hex(&[2u8;64])});
		mon.run(6, proof.to_string().as_bytes(), "valid");
		for (cls, m) in json_mutants(&mut rng, &proof) {
			mon.run(6, &m, &cls);
			mon.run(25, &m, &cls);
		}
		let args = serde_json::to_value(&InitTxArgs::default()).unwrap();
		for (cls, m) in json_mutants(&mut rng, &args) {
			mon.run(7, &m, &cls);
		}
		let q = json!({"min_id":1,"max_id":5,"limit":3,"exclude_cancelled":true,"min_amount":"1","max_amount":"100","min_creation_timestamp":"2020-09-13T12:26:40Z","sort_field":"Id","sort_order":"Asc"});
		for (cls, m) in json_mutants(&mut rng, &q) {
			mon.run(8, &m, &cls);
		}
		let bf = json!({"fees":"0","height":"5","key_id":null});
		for (cls, m) in json_mutants(&mut rng, &bf) {
			mon.run(9, &m, &cls);
		}
	}
	// stored transaction file and seed file: every truncation, sampled mutations
	{
		for i in 0..valid_stored_tx.len() {
			if valid_stored_tx.len() < 1500 || i % 7 == 0 || i < 64 {
				mon.run(17, &valid_stored_tx[..i], "truncate");
			}
		}
		for (cls, m) in byte_mutants(&mut rng, &valid_stored_tx, 0, 300) {
			mon.run(17, &m, &cls);
		}
		mon.run(17, &valid_stored_tx, "valid");
		for i in 0..valid_seed.len() {
			mon.run(18, &valid_seed[..i], "truncate");
		}
		if let Ok(v) = serde_json::from_slice::<Value>(&valid_seed) {
			for (cls, m) in json_mutants(&mut rng, &v) {
				mon.run(18, &m, &cls);
			}
		}
		mon.run(18, &valid_seed, "valid");
	}
	// JSON-RPC bodies on both listeners
	{
		let mut reqs: Vec<Value> = vec![
			json!({"jsonrpc":"2.0","method":"check_version","id":1,"params":[]}),
			json!({"jsonrpc":"2.0","method":"build_coinbase","id":1,"params":[{"fees":"0","height":"9","key_id":null}]}),
		];
		if let Some(s2) = &valid_s2 {
			let v = serde_json::to_value(VersionedSlate::into_version(s2.clone(), SlateVersion::V4).unwrap()).unwrap();
			reqs.push(json!({"jsonrpc":"2.0","method":"finalize_tx","id":1,"params":[v]}));
			for (cls, m) in json_mutants(&mut rng, &v) {
				mon.run(23, &m, &cls);
				if rng.chance(1, 3) {
					mon.run(26, &m, &cls);
				}
			}
		}
		let (v4, _) = g.slate(&mut rng, &mut st, 1);
		reqs.push(json!({"jsonrpc":"2.0","method":"receive_tx","id":1,"params":[serde_json::to_value(&v4).unwrap(), null, null]}));
		reqs.push(json!({"jsonrpc":"2.0","method":"receive_tx","id":1,"params":[serde_json::to_value(&v4).unwrap(), null, "not-an-address"]}));
		// owner calls whose string parameters are decoded by hand (sent through the encrypted channel, entry 21)
		let owner_reqs = vec![
			json!({"jsonrpc":"2.0","method":"create_mwixnet_req","id":1,"params":{"token":null,"commitment":"08e1da9e6dc4d6e808a718b2f110a991dd775d65ce5ae408a4e1f002a4961aa9e7","fee_per_hop":"5000000","lock_output":false,"server_keys":["97444ae673bb92c713c1a2f7b8882ffbfc1c67401a280a775dce1a8651584332"]}}),
			json!({"jsonrpc":"2.0","method":"create_mwixnet_req","id":1,"params":{"token":null,"commitment":"08e1da9e6dc4d6e808a718b2f110a991dd775d65ce5ae408a4e1f002a4961aa9é7","fee_per_hop":"5000000","lock_output":false,"server_keys":["97444ae673bb92c713c1a2f7b8882ffbfc1c67401a280a775dce1a86515843é2"]}}),
			json!({"jsonrpc":"2.0","method":"get_stored_tx","id":1,"params":{"token":null,"id":null,"slate_id":"0436430c-2b02-624c-2032-570501212b00"}}),
			json!({"jsonrpc":"2.0","method":"set_tor_config","id":1,"params":{"tor_config":{"use_tor_listener":true,"socks_proxy_addr":"127.0.0.1:59050","send_config_dir":"."}}}),
		];
		for r in owner_reqs.iter() {
			mon.run(21, r.to_string().as_bytes(), "valid-shape");
			for (cls, m) in json_mutants(&mut rng, r) {
				mon.run(21, &m, &cls);
			}
		}
		for r in reqs.iter() {
			for (cls, m) in json_mutants(&mut rng, r) {
				mon.run(19, &m, &cls);
				mon.run(20, &m, &cls);
				mon.run(21, &m, &cls);
			}
			for (cls, m) in byte_mutants(&mut rng, r.to_string().as_bytes(), 300, 100) {
				mon.run(19, &m, &cls);
				mon.run(20, &m, &cls);
				mon.run(21, &m, &cls);
			}
		}
		// mutations of a valid encrypted envelope, sent in plaintext position
		{
			let inner = json!({"jsonrpc":"2.0","method":"accounts","id":1,"params":{"token":null}});
			let env: Value = serde_json::from_slice(&enc_body(&cx.shared_key, inner.to_string().as_bytes(), 1)).unwrap();
			mon.run(20, env.to_string().as_bytes(), "valid-envelope");
			for (cls, m) in json_mutants(&mut rng, &env) {
				mon.run(20, &m, &format!("envelope:{}", cls));
			}
			for (cls, m) in byte_mutants(&mut rng, env.to_string().as_bytes(), 400, 100) {
				mon.run(20, &m, &format!("envelope:{}", cls));
			}
		}
		// owner methods with hostile parameters, validly encrypted
		let owner_methods = ["accounts", "retrieve_txs", "retrieve_outputs", "retrieve_summary_info", "init_send_tx", "issue_invoice_tx", "process_invoice_tx", "tx_lock_outputs", "finalize_tx", "post_tx", "cancel_tx", "get_stored_tx", "scan", "node_height", "get_slatepack_address", "create_slatepack_message", "slate_from_slatepack_message", "decode_slatepack_message", "retrieve_payment_proof", "verify_payment_proof", "set_active_account", "create_account_path", "build_output", "query_txs", "get_rewind_hash", "scan_rewind_hash"];
		for m in owner_methods.iter() {
			for p in [json!({}), json!([]), json!(null), json!({"token":null}), json!({"token":"zz"}), json!({"token":null,"slate":{}}), json!({"token":null,"args":{"amount":"x"}}), json!({"token":null,"tx_id":-1,"tx_slate_id":"x"}), json!({"token":null,"message":"BEGINSLATEPACK. 1. ENDSLATEPACK.","secret_indices":[0]}), json!({"token":null,"rewind_hash":"é","start_height":null}), json!({"token":null,"label":""})].iter() {
				let r = json!({"jsonrpc":"2.0","method":m,"id":1,"params":p});
				mon.run(21, r.to_string().as_bytes(), "owner-method-hostile-params");
			}
		}
	}
	for (k, v) in st.set.iter() {
		if k.starts_with("sta=") {
			mon.rep.count_n(&format!("field:{}", k), *v);
		}
	}
	drop(mon);
	rep.note("verdict build is the shipped release profile (no overflow checks/debug assertions); arithmetic that would only trap in a debug build is not a violation");
	let _ = std::fs::remove_file(format!("{}.journal", a.out));
	rep.write(&a.out);
}
