//! C13 The owner listener acts only on requests authenticated by the session key.

use crate::props::c09::post;
use crate::util::*;
use crate::world::*;
use grin_util::secp::key::{PublicKey, SecretKey};
use grin_util::{static_secp_instance, Mutex};
use grin_wallet_controller::controller::OwnerAPIHandlerV3;
use ring::aead;
use serde_json::{json, Value};
use std::sync::Arc;

type Handler = OwnerAPIHandlerV3<LC, DirectNode, grin_keychain::ExtKeychain>;

fn seal(key: &[u8; 32], plaintext: &[u8], nonce: [u8; 12]) -> Vec<u8> {
	let mut b = plaintext.to_vec();
	let k = aead::LessSafeKey::new(aead::UnboundKey::new(&aead::AES_256_GCM, key).unwrap());
	k.seal_in_place_append_tag(aead::Nonce::assume_unique_for_key(nonce), aead::Aad::from(&[]), &mut b).unwrap();
	b
}

fn open(key: &[u8; 32], nonce_hex: &str, body_b64: &str) -> Option<Value> {
	let mut b = base64::decode(body_b64).ok()?;
	let n = unhex(nonce_hex)?;
	if n.len() != 12 {
		return None;
	}
	let mut nn = [0u8; 12];
	nn.copy_from_slice(&n);
	let k = aead::LessSafeKey::new(aead::UnboundKey::new(&aead::AES_256_GCM, key).unwrap());
	let pt = k.open_in_place(aead::Nonce::assume_unique_for_key(nn), aead::Aad::from(&[]), &mut b).ok()?;
	serde_json::from_slice(pt).ok()
}

fn envelope(key: &[u8; 32], inner: &Value, nonce: [u8; 12], id: Value) -> Value {
	let ct = seal(key, inner.to_string().as_bytes(), nonce);
	json!({"jsonrpc":"2.0","method":"encrypted_request_v3","id":id,"params":{"nonce": hex(&nonce), "body_enc": base64::encode(&ct)}})
}

struct Client {
	sk: SecretKey,
	key: Option<[u8; 32]>,
	old_keys: Vec<[u8; 32]>,
	counter: u64,
}

impl Client {
	fn nonce(&mut self) -> [u8; 12] {
		self.counter += 1;
		let mut n = [0u8; 12];
		n[..8].copy_from_slice(&self.counter.to_le_bytes());
		n
	}
	fn new_secret(&mut self, rng: &mut Rng) -> String {
		let secp = static_secp_instance();
		let secp = secp.lock();
		self.sk = loop {
			if let Ok(k) = SecretKey::from_slice(&secp, &rng.bytes(32)) {
				break k;
			}
		};
		hex(&PublicKey::from_secret_key(&secp, &self.sk).unwrap().serialize_vec(&secp, true))
	}
	fn derive(&self, their_hex: &str) -> Option<[u8; 32]> {
		let secp = static_secp_instance();
		let secp = secp.lock();
		let mut shared = PublicKey::from_slice(&secp, &unhex(their_hex)?).ok()?;
		shared.mul_assign(&secp, &self.sk).ok()?;
		let x = shared.serialize_vec(&secp, true);
		let mut k = [0u8; 32];
		k.copy_from_slice(&x[1..33]);
		Some(k)
	}
}

/// what the listener could be made to do or reveal
struct State {
	dump: u64,
	files: u64,
	open: bool,
	dir: String,
	active: String,
}

fn state(w: &Wallet, scratch: &str) -> State {
	let (open, dir, active) = {
		let mut l = w.inst.lock();
		let lc = l.lc_provider().unwrap();
		let open = lc.wallet_inst().is_ok();
		let active = lc.wallet_inst().ok().map(|b| idstr(&b.parent_key_id())).unwrap_or_default();
		(open, lc.get_top_level_directory().unwrap_or_default(), active)
	};
	State { dump: hash64(&w.db_dump(scratch)), files: w.files_digest(), open, dir, active }
}

fn has_result(v: &Value) -> bool {
	match v {
		Value::Array(a) => a.iter().any(has_result),
		Value::Object(_) => !v["result"].is_null(),
		_ => false,
	}
}

pub fn run(a: &Args) {
	let mut rep = Report::new("C13");
	let mut rng = Rng::new(a.shard_seed() ^ 0xC13);
	let scratch = format!("{}/scratch", a.work);
	std::fs::create_dir_all(&scratch).unwrap();
	let mut w = World::two(&format!("{}/world", a.work));
	let _ = w.mine_n(Some(0), 5);
	let _ = w.mine_n(None, 3);
	let _ = w.wallets[0].refresh();
	let n_sessions = if a.thorough() { 30 } else { 8 };
	let per_session = if a.thorough() { 400 } else { 220 };
	let methods = ["accounts", "create_account_path", "set_active_account", "retrieve_outputs", "retrieve_txs", "retrieve_summary_info", "init_send_tx", "issue_invoice_tx", "tx_lock_outputs", "finalize_tx", "cancel_tx", "get_stored_tx", "scan", "node_height", "get_top_level_directory", "set_top_level_directory", "create_config", "create_wallet", "open_wallet", "close_wallet", "get_mnemonic", "change_password", "delete_wallet", "start_updater", "stop_updater", "get_updater_messages", "get_slatepack_address", "get_slatepack_secret_key", "create_slatepack_message", "decode_slatepack_message", "retrieve_payment_proof", "set_tor_config", "build_output", "get_rewind_hash", "query_txs"];
	let params_for = |m: &str, n: u64| -> Value {
		match m {
			"create_account_path" => json!({"token": null, "label": format!("intruder{}", n)}),
			"set_active_account" => json!({"token": null, "label": "default"}),
			"retrieve_outputs" => json!({"token": null, "include_spent": true, "refresh_from_node": false, "tx_id": null}),
			"retrieve_txs" => json!({"token": null, "refresh_from_node": false, "tx_id": null, "tx_slate_id": null}),
			"retrieve_summary_info" => json!({"token": null, "refresh_from_node": false, "minimum_confirmations": 1}),
			"init_send_tx" => json!({"token": null, "args": {"src_acct_name": null, "amount": "1000000000", "minimum_confirmations": 1, "max_outputs": 500, "num_change_outputs": 1, "selection_strategy_is_use_all": false, "target_slate_version": null, "payment_proof_recipient_address": null, "ttl_blocks": null, "send_args": null}}),
			"issue_invoice_tx" => json!({"token": null, "args": {"amount": "1000000", "dest_acct_name": null, "target_slate_version": null}}),
			"open_wallet" => json!({"name": null, "password": ""}),
			"close_wallet" => json!({"name": null}),
			"get_mnemonic" => json!({"name": null, "password": ""}),
			"delete_wallet" => json!({"name": null}),
			"change_password" => json!({"name": null, "old": "", "new": "x"}),
			"set_top_level_directory" => json!({"dir": "/tmp/gwv-intruder"}),
			"get_top_level_directory" => json!({}),
			"node_height" => json!({"token": null}),
			"get_slatepack_secret_key" => json!({"token": null, "derivation_index": 0}),
			"get_slatepack_address" => json!({"token": null, "derivation_index": 0}),
			"cancel_tx" => json!({"token": null, "tx_id": 0, "tx_slate_id": null}),
			"retrieve_payment_proof" => json!({"token": null, "refresh_from_node": false, "tx_id": 0, "tx_slate_id": null}),
			"get_stored_tx" => json!({"token": null, "id": 0, "slate_id": null}),
			"scan" => json!({"token": null, "start_height": 1, "delete_unconfirmed": true}),
			"start_updater" => json!({"token": null, "frequency": 100000}),
			"stop_updater" => json!(null),
			_ => json!({"token": null}),
		}
	};
	for si in 0..n_sessions {
		let handler: Handler = OwnerAPIHandlerV3::new(w.wallets[0].inst.clone(), Arc::new(Mutex::new(None)), None, false);
		let mut cl = Client { sk: SecretKey::from_slice(&static_secp_instance().lock(), &[1u8; 32]).unwrap(), key: None, old_keys: vec![], counter: (si as u64) << 32 };
		for ri in 0..per_session {
			let before = state(&w.wallets[0], &scratch);
			let choice = if cl.key.is_none() { rng.below(30) } else { rng.below(100) };
			rep.eval();
			// ---------------- key exchange (the only plaintext call allowed to act)
			if choice < 4 || (cl.key.is_none() && choice < 12) {
				let pk = cl.new_secret(&mut rng);
				let encrypted_reinit = cl.key.is_some() && rng.bool();
				let inner = json!({"jsonrpc":"2.0","method":"init_secure_api","params":{"ecdh_pubkey": pk},"id":1});
				let (body, oldk) = if encrypted_reinit {
					let k = cl.key.unwrap();
					let n = cl.nonce();
					(envelope(&k, &inner, n, json!(1)), Some(k))
				} else {
					(inner, None)
				};
				let resp: Value = post(&handler, body.to_string().into_bytes()).ok().and_then(|b| serde_json::from_slice(&b).ok()).unwrap_or(Value::Null);
				let their = if let Some(k) = oldk {
					// the reply to an encrypted re-init comes under the key it was sent with
					let r = &resp["result"]["Ok"];
					open(&k, r["nonce"].as_str().unwrap_or(""), r["body_enc"].as_str().unwrap_or("")).and_then(|v| v["result"]["Ok"].as_str().map(|s| s.to_string()))
				} else {
					resp["result"]["Ok"].as_str().map(|s| s.to_string())
				};
				match their.and_then(|t| cl.derive(&t)) {
					Some(nk) => {
						if let Some(k) = cl.key {
							cl.old_keys.push(k);
						}
						cl.key = Some(nk);
						rep.count(if encrypted_reinit { "key-exchange:encrypted-reinit" } else { "key-exchange:plaintext" });
					}
					None => rep.inconclusive(&format!("key exchange gave no key: {}", trunc(&resp.to_string(), 200))),
				}
				continue;
			}
			let key = cl.key;
			let n_probe = (si * 1000 + ri) as u64;
			let m = *rng.pick(&methods);
			let inner = json!({"jsonrpc":"2.0","method": m,"params": params_for(m, n_probe),"id": 1});
			// ---------------- authenticated request: must be answered under the same key
			if choice >= 80 {
				let k = key.unwrap();
				// stay with methods that keep the wallet usable for the rest of the session
				let m2 = *rng.pick(&["accounts", "retrieve_summary_info", "retrieve_txs", "node_height", "init_send_tx", "get_top_level_directory", "cancel_tx", "retrieve_payment_proof", "get_stored_tx", "set_active_account", "create_account_path", "open_wallet"]);
				// (open_wallet is only sent with a wrong password: a successful one would re-open the wallet masked)
				let mut pr = params_for(m2, n_probe);
				if m2 == "init_send_tx" && rng.bool() {
					pr["args"]["amount"] = json!("999999999999999999"); // fails at the API level: the error reply must be encrypted too
				}
				if m2 == "open_wallet" {
					pr["password"] = json!("wrong password");
				}
				// sometimes the authenticated payload is a batch that holds a key exchange next to another call: whatever the
				// listener makes of it, afterwards every request it serves must be answered under the key it came with
				if rng.chance(1, 8) {
					let pk2 = cl.new_secret(&mut rng);
					let batch = json!([{"jsonrpc":"2.0","method":"init_secure_api","params":{"ecdh_pubkey": pk2},"id":1}, {"jsonrpc":"2.0","method":"accounts","params":{"token":null},"id":2}]);
					let n = cl.nonce();
					let body = envelope(&k, &batch, n, json!(1));
					let resp: Value = post(&handler, body.to_string().into_bytes()).ok().and_then(|b| serde_json::from_slice(&b).ok()).unwrap_or(Value::Null);
					let r = &resp["result"]["Ok"];
					let dec = open(&k, r["nonce"].as_str().unwrap_or(""), r["body_enc"].as_str().unwrap_or(""));
					let k2 = dec.as_ref().and_then(|v| v.get(0)).and_then(|e| e["result"]["Ok"].as_str()).and_then(|t| cl.derive(t));
					rep.count("authenticated:batch-with-key-exchange");
					let mut served: Vec<[u8; 32]> = vec![];
					for (name, kk) in [("the key the batch was sent under", Some(k)), ("the key negotiated inside the batch", k2)].iter() {
						let kk = match kk {
							Some(x) => *x,
							None => continue,
						};
						let n = cl.nonce();
						let q = json!({"jsonrpc":"2.0","method":"accounts","params":{"token":null},"id":5});
						let resp: Value = post(&handler, envelope(&kk, &q, n, json!(5)).to_string().into_bytes()).ok().and_then(|b| serde_json::from_slice(&b).ok()).unwrap_or(Value::Null);
						rep.eval();
						if !resp["error"].is_null() {
							continue; // refused
						}
						let r = &resp["result"]["Ok"];
						match open(&kk, r["nonce"].as_str().unwrap_or(""), r["body_enc"].as_str().unwrap_or("")) {
							Some(_) => served.push(kk),
							None => {
								let other = if Some(kk) == k2 { Some(k) } else { k2 };
								let under_other = other.and_then(|o| open(&o, r["nonce"].as_str().unwrap_or(""), r["body_enc"].as_str().unwrap_or(""))).is_some();
								rep.violation("C13|reply-under-a-different-key-than-the-request", &format!("after an authenticated batch containing init_secure_api, a request under {} was accepted but its reply does not decrypt under that key (decrypts under the other key: {})", name, under_other), json!({"job":"c13","reply": trunc(&resp.to_string(), 300)}));
							}
						}
					}
					// the client goes on with whichever key the listener serves
					if let Some(s0) = served.get(0) {
						if *s0 != k {
							cl.old_keys.push(k);
							cl.key = Some(*s0);
						}
					}
					if served.is_empty() {
						rep.violation("C13|no-key-served-after-authenticated-batch", "after an authenticated batch containing init_secure_api the listener serves neither the old nor the new key", json!({"job":"c13"}));
						break;
					}
					continue;
				}
				let inner2 = json!({"jsonrpc":"2.0","method": m2,"params": pr,"id": 1});
				let n = cl.nonce();
				let body = envelope(&k, &inner2, n, json!(1));
				let resp: Value = post(&handler, body.to_string().into_bytes()).ok().and_then(|b| serde_json::from_slice(&b).ok()).unwrap_or(Value::Null);
				let r = &resp["result"]["Ok"];
				let dec = open(&k, r["nonce"].as_str().unwrap_or(""), r["body_enc"].as_str().unwrap_or(""));
				match dec {
					Some(v) => {
						let inner_ok = !v["result"]["Ok"].is_null() || v["result"].is_object();
						rep.count(&format!("authenticated:{}", if v["error"].is_null() && inner_ok { "inner-ok" } else { "inner-error" }));
						if std::env::var("GWV_DEBUG").is_ok() {
							eprintln!("AUTH {} -> {}", m2, trunc(&v.to_string(), 300));
						}
						rep.distinct(&("auth", m2, v["error"].is_null()));
					}
					None => {
						rep.violation(
							&format!("C13|reply-to-authenticated-request-not-encrypted|{}", if !resp["error"].is_null() { "plaintext-error-object" } else { "other" }),
							&format!("the reply to a correctly encrypted {} request does not decrypt under the session key: {}", m2, trunc(&resp.to_string(), 400)),
							json!({"job":"c13","method": m2, "params": inner2["params"], "reply": resp}),
						);
					}
				}
				continue;
			}
			// ---------------- unauthenticated requests
			let (label, body): (String, Vec<u8>) = match choice % 20 {
				0 | 1 | 2 => ("plaintext-call".into(), inner.to_string().into_bytes()),
				3 => match cl.old_keys.last().cloned() {
					Some(ok) => {
						let n = cl.nonce();
						("envelope-under-superseded-key".into(), envelope(&ok, &inner, n, json!(1)).to_string().into_bytes())
					}
					None => ("plaintext-call".into(), inner.to_string().into_bytes()),
				},
				4 => {
					let mut rk = [0u8; 32];
					rk.copy_from_slice(&rng.bytes(32));
					let n = cl.nonce();
					("envelope-under-random-key".into(), envelope(&rk, &inner, n, json!(1)).to_string().into_bytes())
				}
				5 | 6 => {
					// bit flip in the ciphertext or tag of a correct envelope
					let k = key.unwrap_or([0u8; 32]);
					let n = cl.nonce();
					let mut ct = seal(&k, inner.to_string().as_bytes(), n);
					let i = rng.usize(ct.len());
					ct[i] ^= 1 << rng.below(8);
					("bit-flipped-body".into(), json!({"jsonrpc":"2.0","method":"encrypted_request_v3","id":1,"params":{"nonce": hex(&n), "body_enc": base64::encode(&ct)}}).to_string().into_bytes())
				}
				7 => {
					let k = key.unwrap_or([0u8; 32]);
					let n = cl.nonce();
					let ct = seal(&k, inner.to_string().as_bytes(), n);
					let mut n2 = n;
					n2[rng.usize(12)] ^= 1 << rng.below(8);
					("bit-flipped-nonce".into(), json!({"jsonrpc":"2.0","method":"encrypted_request_v3","id":1,"params":{"nonce": hex(&n2), "body_enc": base64::encode(&ct)}}).to_string().into_bytes())
				}
				8 => {
					let k = key.unwrap_or([0u8; 32]);
					let n = cl.nonce();
					let ct = seal(&k, inner.to_string().as_bytes(), n);
					let nonce_s = match rng.below(5) {
						0 => "".to_string(),
						1 => hex(&n[..6]),
						2 => format!("{}00", hex(&n)).replace("00", "é"),
						3 => "zz".repeat(12),
						_ => hex(&n[..11]),
					};
					("malformed-nonce".into(), json!({"jsonrpc":"2.0","method":"encrypted_request_v3","id":1,"params":{"nonce": nonce_s, "body_enc": base64::encode(&ct)}}).to_string().into_bytes())
				}
				9 => {
					let n = cl.nonce();
					("wrong-base64".into(), json!({"jsonrpc":"2.0","method":"encrypted_request_v3","id":1,"params":{"nonce": hex(&n), "body_enc": "@@@not base64@@@"}}).to_string().into_bytes())
				}
				10 => {
					// plaintext call smuggled in an array (batch), alone or next to a correct envelope
					let k = key.unwrap_or([0u8; 32]);
					let n = cl.nonce();
					let good = envelope(&k, &json!({"jsonrpc":"2.0","method":"accounts","params":{"token":null},"id":2}), n, json!(2));
					let arr = if rng.bool() { json!([inner]) } else { json!([good, inner]) };
					("batch-array".into(), arr.to_string().into_bytes())
				}
				11 => {
					// envelope whose plaintext is itself under a wrong key / envelope fields at top level plus a plaintext method
					let mut v = inner.clone();
					v["params"]["nonce"] = json!(hex(&[1u8; 12]));
					v["params"]["body_enc"] = json!("AAAA");
					("plaintext-call-with-envelope-fields".into(), v.to_string().into_bytes())
				}
				12 => {
					let mut v = inner.clone();
					v["jsonrpc"] = json!("1.0");
					v["id"] = rng.pick(&[json!(null), json!("x"), json!(1.5), json!([1]), json!({"a":1}), json!(true)]).clone();
					("plaintext-odd-jsonrpc-or-id".into(), v.to_string().into_bytes())
				}
				13 => ("not-json".into(), rng.bytes(40)),
				14 => {
					// correct ciphertext, but the envelope's method field says something else
					let k = key.unwrap_or([0u8; 32]);
					let n = cl.nonce();
					// (a harmless inner call, so that this don't-care class does not move the state under the other probes)
					let harmless = json!({"jsonrpc":"2.0","method":"accounts","params":{"token":null},"id":1});
					let mut e = envelope(&k, &harmless, n, json!(1));
					e["method"] = json!(m);
					("plaintext-method-with-valid-ciphertext".into(), e.to_string().into_bytes())
				}
				15 => {
					// replay of the key exchange reply shape / result injection
					("forged-result".into(), json!({"jsonrpc":"2.0","id":1,"result":{"Ok": "0202020202020202020202020202020202020202020202020202020202020202ff"}}).to_string().into_bytes())
				}
				16 | 17 => {
					// a plaintext batch that contains the (allowed) key-exchange call next to other calls:
					// the key exchange being allowed in plaintext must not open the door for its neighbours
					let pk = {
						let secp = static_secp_instance();
						let secp = secp.lock();
						let sk = loop {
							if let Ok(k) = SecretKey::from_slice(&secp, &rng.bytes(32)) {
								break k;
							}
						};
						hex(&PublicKey::from_secret_key(&secp, &sk).unwrap().serialize_vec(&secp, true))
					};
					let init = json!({"jsonrpc":"2.0","method":"init_secure_api","params":{"ecdh_pubkey": pk},"id":7});
					let arr = match rng.below(3) {
						0 => json!([init, inner]),
						1 => json!([inner, init]),
						_ => json!([init, inner, {"jsonrpc":"2.0","method":"accounts","params":{"token":null},"id":9}]),
					};
					("batch-array-with-key-exchange".into(), arr.to_string().into_bytes())
				}
				_ => ("plaintext-call".into(), inner.to_string().into_bytes()),
			};
			// "plaintext-method-with-valid-ciphertext" is authentic ciphertext: the statement only forbids
			// effects of unauthenticated requests, so it is a don't-care and not judged
			let dont_care = label == "plaintext-method-with-valid-ciphertext" && key.is_some();
			let resp_bytes = match catch(|| post(&handler, body.clone())) {
				Err((loc, msg)) => {
					rep.violation(&format!("C13|panic|{}", loc), &msg, json!({"job":"c13","kind": label, "body": String::from_utf8_lossy(&body)}));
					continue;
				}
				Ok(r) => r.unwrap_or_default(),
			};
			let resp: Value = serde_json::from_slice(&resp_bytes).unwrap_or(Value::Null);
			let after = state(&w.wallets[0], &scratch);
			let case = json!({"job":"c13","kind": label, "method": m, "body": trunc(&String::from_utf8_lossy(&body), 600), "reply": trunc(&resp.to_string(), 400)});
			if !dont_care {
				let mut changed = vec![];
				if after.dump != before.dump {
					changed.push("database");
				}
				if after.files != before.files {
					changed.push("files");
				}
				if after.open != before.open {
					changed.push("open/closed");
				}
				if after.dir != before.dir {
					changed.push("top-level-directory");
				}
				if after.active != before.active {
					changed.push("active-account");
				}
				if !changed.is_empty() {
					rep.violation(&format!("C13|unauthenticated-request-had-effect|{}|{}", label, changed.join("+")), &format!("an unauthenticated request ({}, method {}) changed {:?}", label, m, changed), case.clone());
				}
				if has_result(&resp) {
					rep.violation(&format!("C13|unauthenticated-request-got-result|{}", label), &format!("an unauthenticated request ({}, method {}) was answered with a result: {}", label, m, trunc(&resp.to_string(), 300)), case.clone());
				}
				// the session key must be unchanged: a probe under the current key still works
				if let Some(k) = key {
					let n = cl.nonce();
					let probe = envelope(&k, &json!({"jsonrpc":"2.0","method":"get_top_level_directory","params":{},"id":9}), n, json!(9));
					let pr: Value = post(&handler, probe.to_string().into_bytes()).ok().and_then(|b| serde_json::from_slice(&b).ok()).unwrap_or(Value::Null);
					let r = &pr["result"]["Ok"];
					if open(&k, r["nonce"].as_str().unwrap_or(""), r["body_enc"].as_str().unwrap_or("")).is_none() {
						rep.violation(&format!("C13|session-key-changed-by-unauthenticated-request|{}", label), "after an unauthenticated request the current session key no longer works", case.clone());
						cl.key = None;
					}
				}
			}
			rep.count(&format!("unauthenticated:{}", label));
			rep.distinct(&("unauth", label.clone(), m, resp["error"]["code"].as_i64()));
			if rep.samples.len() < 5 && ri % 41 == 3 {
				rep.sample(case);
			}
		}
		// ---------------- a request in flight while the session key is replaced
		// Client A's authenticated request is being served (the node is slow) when another party performs the
		// plaintext key exchange. A's reply must be encrypted under the key A's request was made under.
		if let Some(k1) = cl.key {
			rep.eval();
			let n = cl.nonce();
			let req = envelope(&k1, &json!({"jsonrpc":"2.0","method":"retrieve_summary_info","params":{"token": null, "refresh_from_node": true, "minimum_confirmations": 1},"id":3}), n, json!(3));
			{
				let mut st = w.node.st.lock();
				st.hold = true;
				st.waiting = 0;
			}
			let mut other = Client { sk: SecretKey::from_slice(&static_secp_instance().lock(), &[2u8; 32]).unwrap(), key: None, old_keys: vec![], counter: 1u64 << 60 };
			let (reply_a, k2) = std::thread::scope(|sc| {
				let h = &handler;
				let t = sc.spawn(move || post(h, req.to_string().into_bytes()).ok().and_then(|b| serde_json::from_slice::<Value>(&b).ok()).unwrap_or(Value::Null));
				// wait until A's request is inside its node call
				let mut spins = 0;
				while w.node.st.lock().waiting == 0 && spins < 3000 {
					std::thread::sleep(std::time::Duration::from_millis(1));
					spins += 1;
				}
				let pk = other.new_secret(&mut rng);
				let init = json!({"jsonrpc":"2.0","method":"init_secure_api","params":{"ecdh_pubkey": pk},"id":1});
				let r: Value = post(h, init.to_string().into_bytes()).ok().and_then(|b| serde_json::from_slice(&b).ok()).unwrap_or(Value::Null);
				let k2 = r["result"]["Ok"].as_str().and_then(|their| other.derive(their));
				w.node.st.lock().hold = false;
				(t.join().unwrap_or(Value::Null), k2)
			});
			w.node.st.lock().hold = false;
			let r = &reply_a["result"]["Ok"];
			let (nonce, body) = (r["nonce"].as_str().unwrap_or(""), r["body_enc"].as_str().unwrap_or(""));
			let under_k1 = open(&k1, nonce, body).is_some();
			let under_k2 = k2.map(|k| open(&k, nonce, body).is_some()).unwrap_or(false);
			let case = json!({"job":"c13","kind":"request in flight while another party performs the key exchange", "reply": trunc(&reply_a.to_string(), 300)});
			if under_k2 && !under_k1 {
				rep.violation("C13|reply-encrypted-under-a-key-the-request-was-not-made-under|key-exchange-while-a-request-is-in-flight", "the reply to a request authenticated under the session key K1 was encrypted under K2, the key another party negotiated while the request was being served: it opens with K2 and not with K1", case);
			} else if under_k1 {
				rep.count("in-flight-request-answered-under-its-own-key");
			} else {
				rep.count(&format!("in-flight-request:{}", if reply_a["error"].is_null() && r.is_null() { "no-reply" } else { "answered-with-an-error" }));
			}
			cl.key = k2;
		}
		// ---------------- a request whose body arrives after the session key was replaced
		// Only the head of the request has been sent when another key exchange takes place; the body - an envelope
		// under the key that is by then superseded - arrives afterwards. It is a request under a superseded key:
		// answered with an error, nothing changes.
		if let Some(k1) = cl.key {
			rep.eval();
			let before = state(&w.wallets[0], &scratch);
			let n = cl.nonce();
			let label = format!("late{}", si);
			let env = envelope(&k1, &json!({"jsonrpc":"2.0","method":"create_account_path","params":{"token": null, "label": label},"id":4}), n, json!(4));
			let (mut tx, body) = hyper::Body::channel();
			let req = hyper::Request::post("http://127.0.0.1/v3/owner").body(body).unwrap();
			let (reply, k2) = std::thread::scope(|sc| {
				let h = &handler;
				let t = sc.spawn(move || {
					let resp = futures::executor::block_on(grin_api::Handler::post(h, req)).ok();
					resp.and_then(|r| futures::executor::block_on(hyper::body::to_bytes(r.into_body())).ok()).and_then(|b| serde_json::from_slice::<Value>(&b).ok()).unwrap_or(Value::Null)
				});
				std::thread::sleep(std::time::Duration::from_millis(40));
				let pk = cl.new_secret(&mut rng);
				let init = json!({"jsonrpc":"2.0","method":"init_secure_api","params":{"ecdh_pubkey": pk},"id":1});
				let r: Value = post(h, init.to_string().into_bytes()).ok().and_then(|b| serde_json::from_slice(&b).ok()).unwrap_or(Value::Null);
				let k2 = r["result"]["Ok"].as_str().and_then(|their| cl.derive(their));
				let _ = futures::executor::block_on(tx.send_data(hyper::body::Bytes::from(env.to_string().into_bytes())));
				drop(tx);
				(t.join().unwrap_or(Value::Null), k2)
			});
			let after = state(&w.wallets[0], &scratch);
			let r = &reply["result"]["Ok"];
			let opened_k1 = open(&k1, r["nonce"].as_str().unwrap_or(""), r["body_enc"].as_str().unwrap_or("")).is_some();
			let case = json!({"job":"c13","kind":"body of a request arrives after the key exchange that superseded its key", "reply": trunc(&reply.to_string(), 300)});
			if k2.is_some() && (after.dump != before.dump || opened_k1) {
				rep.violation("C13|request-under-superseded-key-served|body-arrived-after-the-key-exchange", &format!("an envelope under the superseded key, whose body arrived after the key exchange, was executed (database changed: {}, reply opens with the old key: {})", after.dump != before.dump, opened_k1), case);
			} else {
				rep.count("late-body-under-superseded-key:refused");
			}
			if k2.is_some() {
				cl.key = k2;
			}
		}
	}
	rep.write(&a.out);
}
