use crate::util::*;
use crate::world::*;
use grin_wallet_libwallet::InitTxArgs;
use std::time::Instant;

pub fn run(a: &Args) {
	set_quiet(false);
	let dir = if a.work.is_empty() { "/tmp/gwv-smoke".to_string() } else { a.work.clone() };
	let t = Instant::now();
	let mut w = World::two(&dir);
	println!("world created in {:?}", t.elapsed());
	let t = Instant::now();
	w.mine_n(Some(0), 6).unwrap();
	println!("6 blocks in {:?}", t.elapsed());
	let (v, info) = w.wallets[0].info(true, 1).unwrap();
	println!("refreshed={} info={:?}", v, info);
	let t = Instant::now();
	let args = InitTxArgs { amount: 10_000_000_000, minimum_confirmations: 1, max_outputs: 500, num_change_outputs: 2, selection_strategy_is_use_all: false, ..Default::default() };
	let s1 = w.wallets[0].init_send(args).unwrap();
	println!("init {:?}", t.elapsed());
	w.wallets[0].lock_outputs(&s1).unwrap();
	let s2 = w.wallets[1].receive(&s1, None).unwrap();
	let s3 = w.wallets[0].finalize(&s2).unwrap();
	w.wallets[0].post(s3.tx.as_ref().unwrap()).unwrap();
	println!("cycle {:?}", t.elapsed());
	w.mine(None, true).unwrap();
	let (_, i0) = w.wallets[0].info(true, 1).unwrap();
	let (_, i1) = w.wallets[1].info(true, 1).unwrap();
	println!("w0 {:?}\nw1 {:?}", i0, i1);
	let p = w.wallets[0].projection().unwrap();
	println!("{}", serde_json::to_string(&p.to_json()).unwrap());
	let d = w.wallets[0].db_dump(&dir);
	println!("db entries {}", d.len());
	// snapshot / reopen
	let t = Instant::now();
	w.snapshot_to(&format!("{}-snap", dir));
	println!("snapshot {:?}", t.elapsed());
	let (_, i0b) = w.wallets[0].info(true, 1).unwrap();
	assert_eq!(i0, i0b);
	// fork
	let h = w.height();
	let blocks = w.build_fork(h - 2, 4, &[], 1).unwrap();
	println!("fork built {} blocks, head now {}", blocks.len(), w.height());
	let (_, i1c) = w.wallets[1].info(true, 1).unwrap();
	println!("w1 after fork {:?}", i1c);
	w.wallets[1].scan(None, false).unwrap();
	let (_, i1d) = w.wallets[1].info(true, 1).unwrap();
	println!("w1 after scan {:?}", i1d);
	println!("txs {:?}", w.wallets[1].txs(false).unwrap().1.iter().map(|t| ptx(t)).collect::<Vec<_>>());
	let _ = std::fs::remove_dir_all(&dir);
	let _ = std::fs::remove_dir_all(format!("{}-snap", dir));
}
