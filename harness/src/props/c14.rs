//! C14 A masked wallet does nothing without the right token.

use crate::util::*;
use crate::world::*;
use grin_core::core::OutputFeatures;
use grin_util::secp::key::SecretKey;
use grin_util::{static_secp_instance, ZeroingString};
use grin_wallet_api::Owner;
use grin_wallet_libwallet as libwallet;
use grin_wallet_libwallet::{InitTxArgs, IssueInvoiceTxArgs, PaymentProof, Slate, SlatepackAddress};
use serde_json::json;
use std::collections::BTreeMap;

type Own = Owner<LC, DirectNode, grin_keychain::ExtKeychain>;

fn is_mask_err(e: &libwallet::Error) -> bool {
	matches!(e, libwallet::Error::InvalidKeychainMask)
}

fn state_digest(w: &Wallet, scratch: &str) -> u64 {
	hash64(&(w.db_dump(scratch), w.files_digest()))
}

fn canon(w: &Wallet) -> (Vec<(String, u64, String, u64)>, Vec<(String, bool, u64, u64, Option<u64>)>) {
	let mut o: Vec<_> = w.all_outputs().unwrap_or_default().iter().map(|o| (idstr(&o.key_id), o.value, status_str(&o.status).to_string(), o.height)).collect();
	o.sort();
	let mut t: Vec<_> = w.all_txs().unwrap_or_default().iter().map(|t| (type_str(&t.tx_type).to_string(), t.confirmed, t.amount_credited, t.amount_debited, t.fee.map(|f| f.fee()))).collect();
	t.sort();
	(o, t)
}

struct Shared {
	s1: Option<Slate>,        // own initiated send (context present)
	s1_locked: Option<Slate>, // own initiated + locked
	reply: Option<Slate>,     // counterparty reply to s1_locked
	invoice_in: Option<Slate>, // invoice from the other wallet
	enc_msg: Option<String>,
	proof: Option<PaymentProof>,
	my_addr: Option<SlatepackAddress>,
}

type Call = (&'static str, bool, Box<dyn Fn(&Own, Option<&SecretKey>, &Shared) -> Result<(), libwallet::Error>>);

fn calls() -> Vec<Call> {
	let v: Vec<Call> = vec![
		("accounts", false, Box::new(|o, t, _| o.accounts(t).map(|_| ()))),
		("create_account_path", false, Box::new(|o, t, _| o.create_account_path(t, &format!("a{}", rand::random::<u32>())).map(|_| ()))),
		("set_active_account", false, Box::new(|o, t, _| o.set_active_account(t, "default"))),
		("retrieve_outputs", false, Box::new(|o, t, _| o.retrieve_outputs(t, true, false, None).map(|_| ()))),
		("retrieve_outputs(refresh)", false, Box::new(|o, t, _| o.retrieve_outputs(t, true, true, None).map(|_| ()))),
		("retrieve_txs", false, Box::new(|o, t, _| o.retrieve_txs(t, false, None, None, None).map(|_| ()))),
		("retrieve_txs(refresh)", false, Box::new(|o, t, _| o.retrieve_txs(t, true, None, None, None).map(|_| ()))),
		("retrieve_summary_info", false, Box::new(|o, t, _| o.retrieve_summary_info(t, false, 1).map(|_| ()))),
		("retrieve_summary_info(refresh)", false, Box::new(|o, t, _| o.retrieve_summary_info(t, true, 1).map(|_| ()))),
		("init_send_tx", true, Box::new(|o, t, _| o.init_send_tx(t, InitTxArgs { amount: 1_000_000_000, minimum_confirmations: 1, selection_strategy_is_use_all: false, ..Default::default() }).map(|_| ()))),
		("init_send_tx(estimate)", true, Box::new(|o, t, _| o.init_send_tx(t, InitTxArgs { amount: 1_000_000_000, minimum_confirmations: 1, estimate_only: Some(true), ..Default::default() }).map(|_| ()))),
		("issue_invoice_tx", true, Box::new(|o, t, _| o.issue_invoice_tx(t, IssueInvoiceTxArgs { amount: 1_000_000, ..Default::default() }).map(|_| ()))),
		("process_invoice_tx", true, Box::new(|o, t, s| match &s.invoice_in {
			Some(i) => o.process_invoice_tx(t, i, InitTxArgs { minimum_confirmations: 1, selection_strategy_is_use_all: false, ..Default::default() }).map(|_| ()),
			None => Err(libwallet::Error::GenericError("skip".into())),
		})),
		("tx_lock_outputs", false, Box::new(|o, t, s| match &s.s1 {
			Some(x) => o.tx_lock_outputs(t, x),
			None => Err(libwallet::Error::GenericError("skip".into())),
		})),
		("finalize_tx", true, Box::new(|o, t, s| match &s.reply {
			Some(x) => o.finalize_tx(t, x).map(|_| ()),
			None => Err(libwallet::Error::GenericError("skip".into())),
		})),
		("post_tx", false, Box::new(|o, t, _| o.post_tx(t, &Slate::blank(2, false), false))),
		("cancel_tx", false, Box::new(|o, t, s| match &s.s1_locked {
			Some(x) => o.cancel_tx(t, None, Some(x.id)),
			None => Err(libwallet::Error::GenericError("skip".into())),
		})),
		("get_stored_tx", false, Box::new(|o, t, s| o.get_stored_tx(t, None, s.s1_locked.as_ref().map(|x| &x.id)).map(|_| ()))),
		("get_rewind_hash", true, Box::new(|o, t, _| o.get_rewind_hash(t).map(|_| ()))),
		("scan", true, Box::new(|o, t, _| o.scan(t, Some(1), false))),
		("node_height", false, Box::new(|o, t, _| o.node_height(t).map(|_| ()))),
		("get_slatepack_address", true, Box::new(|o, t, _| o.get_slatepack_address(t, 0).map(|_| ()))),
		("get_slatepack_secret_key", true, Box::new(|o, t, _| o.get_slatepack_secret_key(t, 0).map(|_| ()))),
		("create_slatepack_message(sender)", true, Box::new(|o, t, _| o.create_slatepack_message(t, &Slate::blank(2, false), Some(0), vec![]).map(|_| ()))),
		("slate_from_slatepack_message(encrypted)", true, Box::new(|o, t, s| match &s.enc_msg {
			Some(m) => o.slate_from_slatepack_message(t, m.clone(), vec![0]).map(|_| ()),
			None => Err(libwallet::Error::GenericError("skip".into())),
		})),
		("decode_slatepack_message(encrypted)", false, Box::new(|o, t, s| match &s.enc_msg {
			Some(m) => o.decode_slatepack_message(t, m.clone(), vec![0]).map(|_| ()),
			None => Err(libwallet::Error::GenericError("skip".into())),
		})),
		("retrieve_payment_proof", false, Box::new(|o, t, _| o.retrieve_payment_proof(t, false, Some(0), None).map(|_| ()))),
		("verify_payment_proof", true, Box::new(|o, t, s| match &s.proof {
			Some(p) => o.verify_payment_proof(t, p).map(|_| ()),
			None => Err(libwallet::Error::GenericError("skip".into())),
		})),
		("build_output", true, Box::new(|o, t, _| o.build_output(t, OutputFeatures::Plain, 1000).map(|_| ()))),
		("start_updater+stop", true, Box::new(|o, t, _| {
			let r = o.start_updater(t, std::time::Duration::from_millis(20));
			std::thread::sleep(std::time::Duration::from_millis(80));
			let _ = o.stop_updater();
			std::thread::sleep(std::time::Duration::from_millis(60));
			r
		})),
	];
	v
}

fn flip_bit(k: &SecretKey, bit: usize) -> Option<SecretKey> {
	let mut b = k.0;
	b[bit / 8] ^= 1 << (bit % 8);
	let secp = static_secp_instance();
	let secp = secp.lock();
	SecretKey::from_slice(&secp, &b).ok()
}

pub fn run(a: &Args) {
	let mut rep = Report::new("C14");
	let mut rng = Rng::new(a.shard_seed() ^ 0xC14);
	let scratch = format!("{}/scratch", a.work);
	std::fs::create_dir_all(&scratch).unwrap();
	let specs = |masked: bool| vec![WalletSpec { name: "w0".into(), mnemonic_idx: 0, masked, password: "pw".into() }, WalletSpec { name: "w1".into(), mnemonic_idx: 1, masked: false, password: "".into() }, WalletSpec { name: "w2".into(), mnemonic_idx: 2, masked: true, password: "".into() }];
	let mut w = World::create(&format!("{}/masked", a.work), &specs(true));
	let mut twin = World::create(&format!("{}/plain", a.work), &specs(false));
	// identical histories in both worlds
	for wd in [&mut w, &mut twin].iter_mut() {
		let _ = wd.mine_n(Some(0), 6);
		let _ = wd.mine_n(Some(1), 4);
		let _ = wd.mine_n(None, 3);
		for i in 0..2 {
			let _ = wd.wallets[i].refresh();
		}
	}
	// the masked wallets are (re)opened the way a client does it: through api::Owner::open_wallet, which is
	// where their tokens come from
	for i in [0usize, 2].iter() {
		let o: Own = Owner::new(w.wallets[*i].inst.clone(), None);
		let pw = w.wallets[*i].password.clone();
		let _ = o.close_wallet(None);
		match o.open_wallet(None, ZeroingString::from(pw.as_str()), true) {
			Ok(Some(t)) => w.wallets[*i].mask = Some(t),
			other => {
				rep.inconclusive(&format!("reopening wallet {} through the Owner API gave {:?}", i, other.map(|o| o.is_some()).map_err(|e| err_kind(&e))));
				rep.write(&a.out);
				return;
			}
		}
	}
	let right = w.wallets[0].mask.clone();
	let other = w.wallets[2].mask.clone();
	rep.eval();
	if right.is_some() && right == other {
		rep.violation("C14|two-wallets-share-a-token", "two different wallets opened with a mask through the Owner API were given the same token", json!({"job":"c14"}));
	} else {
		rep.count("tokens-of-two-wallets-differ");
	}
	if right.is_none() {
		rep.inconclusive("masked wallet did not return a token");
		rep.write(&a.out);
		return;
	}
	let right = right.unwrap();
	let rounds = if a.thorough() { 8 } else { 3 };
	for round in 0..rounds {
		let owner: Own = Owner::new(w.wallets[0].inst.clone(), None);
		// shared material for this round (created with the right token)
		let mut sh = Shared { s1: None, s1_locked: None, reply: None, invoice_in: None, enc_msg: None, proof: None, my_addr: None };
		sh.s1 = w.wallets[0].init_send(InitTxArgs { amount: 2_000_000_000 + rng.below(1_000_000_000), minimum_confirmations: 1, selection_strategy_is_use_all: false, ..Default::default() }).ok();
		if let Ok(s) = w.wallets[0].init_send(InitTxArgs { amount: 1_500_000_000, minimum_confirmations: 1, selection_strategy_is_use_all: false, ..Default::default() }) {
			if w.wallets[0].lock_outputs(&s).is_ok() {
				sh.reply = w.wallets[1].receive(&s, None).ok();
				sh.s1_locked = Some(s);
			}
		}
		sh.invoice_in = w.wallets[1].issue_invoice(IssueInvoiceTxArgs { amount: 700_000_000, ..Default::default() }).ok();
		sh.my_addr = owner.get_slatepack_address(Some(&right), 0).ok();
		if let Some(addr) = &sh.my_addr {
			let o1: Own = Owner::new(w.wallets[1].inst.clone(), None);
			sh.enc_msg = o1.create_slatepack_message(None, &Slate::blank(2, false), Some(0), vec![addr.clone()]).ok();
		}
		// an exported proof of a finished proof-carrying send, if one exists from an earlier round
		if sh.proof.is_none() {
			let _ = (|| -> Result<(), libwallet::Error> {
				let addr1 = libwallet::api_impl::owner::get_slatepack_address(w.wallets[1].inst.clone(), None, 0)?;
				let s = w.wallets[0].init_send(InitTxArgs { amount: 900_000_000, minimum_confirmations: 1, selection_strategy_is_use_all: false, payment_proof_recipient_address: Some(addr1), ..Default::default() })?;
				w.wallets[0].lock_outputs(&s)?;
				let s2 = w.wallets[1].receive(&s, None)?;
				let s3 = w.wallets[0].finalize(&s2)?;
				w.wallets[0].post(s3.tx_or_err()?)?;
				Ok(())
			})();
			let _ = w.mine(None, true);
			let _ = w.wallets[0].refresh();
			let sent = w.wallets[0].all_txs().unwrap_or_default().into_iter().find(|t| t.payment_proof.is_some() && t.confirmed).map(|t| t.id);
			sh.proof = owner.retrieve_payment_proof(Some(&right), false, sent, None).ok();
			// keep the twin in step
			let _ = (|| -> Result<(), libwallet::Error> {
				let addr1 = libwallet::api_impl::owner::get_slatepack_address(twin.wallets[1].inst.clone(), None, 0)?;
				let s = twin.wallets[0].init_send(InitTxArgs { amount: 900_000_000, minimum_confirmations: 1, selection_strategy_is_use_all: false, payment_proof_recipient_address: Some(addr1), ..Default::default() })?;
				twin.wallets[0].lock_outputs(&s)?;
				let s2 = twin.wallets[1].receive(&s, None)?;
				let s3 = twin.wallets[0].finalize(&s2)?;
				twin.wallets[0].post(s3.tx_or_err()?)?;
				Ok(())
			})();
			let _ = twin.mine(None, true);
			let _ = twin.wallets[0].refresh();
		}
		// a block mined since the last refresh, so that refreshing calls have something to write
		let _ = w.mine(Some(0), true);
		let random_tok = {
			let secp = static_secp_instance();
			let secp = secp.lock();
			loop {
				if let Ok(k) = SecretKey::from_slice(&secp, &rng.bytes(32)) {
					break k;
				}
			}
		};
		let wrongs: Vec<(&str, Option<SecretKey>)> = vec![("absent", None), ("random", Some(random_tok)), ("one-bit-off", flip_bit(&right, rng.usize(250))), ("other-wallet", other.clone())];
		let cl = calls();
		let mut order: Vec<usize> = (0..cl.len()).collect();
		if round > 0 {
			rng.shuffle(&mut order);
		}
		for ci in order {
			if (ci + round) % a.nshards != a.shard % a.nshards && a.nshards > 1 && false {
				continue;
			}
			let (name, static_must_fail, f) = &cl[ci];
			let before = state_digest(&w.wallets[0], &scratch);
			let mut wrong_results: Vec<(&str, Result<(), String>, bool)> = vec![];
			for (kind, tok) in wrongs.iter() {
				if *kind != "absent" && tok.is_none() {
					continue;
				}
				rep.eval();
				let r = catch(|| f(&owner, tok.as_ref(), &sh));
				let case = json!({"job":"c14","method": name, "token": kind, "round": round});
				match r {
					Err((loc, msg)) => {
						rep.violation(&format!("C14|panic|{}", loc), &format!("{} with a {} token panicked: {}", name, kind, msg), case);
						continue;
					}
					Ok(r) => {
						let after = state_digest(&w.wallets[0], &scratch);
						if after != before {
							rep.violation(&format!("C14|wrong-token-changed-state|{}", name), &format!("{} with a {} token changed the wallet's stored state (result {:?})", name, kind, r.as_ref().map_err(err_kind)), case.clone());
						}
						let mask_err = r.as_ref().err().map(is_mask_err).unwrap_or(false);
						let skipped = matches!(&r, Err(libwallet::Error::GenericError(s)) if s == "skip");
						if *static_must_fail && !mask_err && !skipped {
							rep.violation(&format!("C14|key-using-method-without-mask-error|{}", name), &format!("{} with a {} token returned {:?} instead of an invalid-mask error", name, kind, r.as_ref().map_err(|e| format!("{:?}", e))), case.clone());
						}
						rep.count(&format!("wrong-token:{}", if mask_err { "invalid-mask" } else if r.is_ok() { "ok(no state change required)" } else { "other-error" }));
						rep.distinct(&(name.to_string(), kind.to_string(), mask_err, r.is_ok()));
						wrong_results.push((kind, r.map_err(|e| err_kind(&e)), mask_err));
					}
				}
			}
			// right token: must work like an unmasked wallet; and if it writes, every wrong token must have been refused
			rep.eval();
			let r = catch(|| f(&owner, Some(&right), &sh));
			let after = state_digest(&w.wallets[0], &scratch);
			match r {
				Err((loc, msg)) => rep.violation(&format!("C14|panic|{}", loc), &msg, json!({"job":"c14","method": name, "token": "right"})),
				Ok(res) => {
					let changed = after != before;
					// start_updater only spawns the background thread and returns: the refresh it attempts with
					// a wrong token fails inside the thread (state unchanged is still required above), so its
					// own return value is a don't-care
					if changed && *name != "start_updater+stop" {
						for (kind, wr, mask_err) in wrong_results.iter() {
							if !*mask_err && !matches!(wr, Err(s) if s == "GenericError") {
								rep.violation(&format!("C14|state-writing-method-accepted-wrong-token|{}", name), &format!("{} writes wallet state with the right token but answered {:?} (not an invalid-mask error) to a {} token", name, wr, kind), json!({"job":"c14","method": name, "token": kind}));
							}
						}
						rep.count("right-token:wrote-state");
					}
					rep.count(&format!("right-token:{}", if res.is_ok() { "ok" } else { "err" }));
					if rep.samples.len() < 5 && ci % 7 == 2 {
						rep.sample(json!({"method": name, "wrong_tokens": wrong_results.iter().map(|x| format!("{}: {:?}", x.0, x.1)).collect::<Vec<_>>(), "right_token": format!("{:?}", res.as_ref().map_err(err_kind)), "right_token_wrote_state": changed}));
					}
				}
			}
		}
		// The background updater: started with a wrong token it cannot refresh anything; whatever start_updater
		// answers, the wallet must afterwards still behave, for the holder of the right token, like an unmasked
		// wallet - a refreshing call refreshes. Likewise after the updater was started with the right token and the
		// wallet was closed and reopened (which hands out a new token and leaves the updater with the old one).
		for variant in ["started-with-a-wrong-token", "started-with-the-right-token-then-wallet-reopened"].iter() {
			if round + 1 != rounds {
				break; // last round only: the reopened wallet has a token the harness's own wrapper does not know
			}
			rep.eval();
			let mut tok = right.clone();
			let started = if *variant == "started-with-a-wrong-token" {
				owner.start_updater(wrongs[1].1.as_ref(), std::time::Duration::from_millis(20))
			} else {
				let r = owner.start_updater(Some(&right), std::time::Duration::from_millis(20));
				std::thread::sleep(std::time::Duration::from_millis(60));
				let _ = owner.close_wallet(Some("w0"));
				match owner.open_wallet(Some("w0"), grin_util::ZeroingString::from("pw"), true) {
					Ok(Some(t)) => tok = t,
					_ => {
						rep.inconclusive("could not reopen the masked wallet");
					}
				}
				r
			};
			std::thread::sleep(std::time::Duration::from_millis(150));
			let _ = w.mine(Some(0), true);
			let tip = w.height();
			let r = owner.retrieve_summary_info(Some(&tok), true, 1);
			let case = json!({"job":"c14","scenario": "background updater", "variant": variant, "start_updater_returned": format!("{:?}", started.as_ref().map_err(err_kind)), "chain_height": tip});
			match r {
				Ok((validated, info)) if validated && info.last_confirmed_height == tip => rep.count(&format!("updater:{}:right-token-refresh-still-works", variant)),
				Ok((validated, info)) => rep.violation(&format!("C14|right-token-refresh-disabled|updater-{}", variant), &format!("after the updater was {} (start_updater returned {:?}), retrieve_summary_info(refresh = true) with the right token answered validated = {} at height {} while the chain is at {}", variant, started.as_ref().map_err(err_kind), validated, info.last_confirmed_height, tip), case),
				Err(e) => rep.violation(&format!("C14|right-token-refused|updater-{}", variant), &format!("retrieve_summary_info with the right token failed: {:?}", e), case),
			}
			let _ = owner.stop_updater();
			std::thread::sleep(std::time::Duration::from_millis(60));
		}
		// cleanup of pending material
		for i in 0..2 {
			if let Ok(txs) = w.wallets[i].all_txs() {
				for t in txs {
					if !t.confirmed && (t.tx_type == libwallet::TxLogEntryType::TxSent || t.tx_type == libwallet::TxLogEntryType::TxReceived) {
						let _ = w.wallets[i].cancel(Some(t.id), None);
					}
				}
			}
		}
	}

	// ---------------- differential: right token == unmasked wallet with the same seed
	{
		let mut diverged = false;
		let mut ops: BTreeMap<&str, u64> = BTreeMap::new();
		// both worlds have seen different numbers of blocks by now: restart from fresh twins
		drop(w);
		drop(twin);
		let mut m = World::create(&format!("{}/d-masked", a.work), &specs(true));
		let mut p = World::create(&format!("{}/d-plain", a.work), &specs(false));
		let n_ops = if a.thorough() { 120 } else { 40 };
		let mut drng_m = Rng::new(a.shard_seed() ^ 0xD1FF);
		let mut drng_p = Rng::new(a.shard_seed() ^ 0xD1FF);
		let mut step = |wd: &mut World, r: &mut Rng, k: u64| -> String {
			match k {
				0 | 1 => format!("mine {:?}", wd.mine(Some((r.below(2)) as usize), true).map(|t| t.len())),
				2 => format!("refresh {:?}", wd.wallets[0].refresh().map_err(|e| err_kind(&e))),
				3 | 4 => {
					let amt = 500_000_000 + r.below(3_000_000_000);
					let res = (|| -> Result<(), libwallet::Error> {
						let s = wd.wallets[0].init_send(InitTxArgs { amount: amt, minimum_confirmations: 1, num_change_outputs: 1 + r.below(2) as u32, selection_strategy_is_use_all: false, ..Default::default() })?;
						wd.wallets[0].lock_outputs(&s)?;
						let s2 = wd.wallets[1].receive(&s, None)?;
						let s3 = wd.wallets[0].finalize(&s2)?;
						wd.wallets[0].post(s3.tx_or_err()?)?;
						Ok(())
					})();
					format!("send {:?}", res.map_err(|e| err_kind(&e)))
				}
				5 => {
					let res = (|| -> Result<(), libwallet::Error> {
						let s = wd.wallets[1].init_send(InitTxArgs { amount: 300_000_000 + r.below(1_000_000_000), minimum_confirmations: 1, selection_strategy_is_use_all: false, ..Default::default() })?;
						wd.wallets[1].lock_outputs(&s)?;
						let s2 = wd.wallets[0].receive(&s, None)?;
						let s3 = wd.wallets[1].finalize(&s2)?;
						wd.wallets[1].post(s3.tx_or_err()?)?;
						Ok(())
					})();
					format!("receive {:?}", res.map_err(|e| err_kind(&e)))
				}
				6 => {
					let res = (|| -> Result<(), libwallet::Error> {
						let s = wd.wallets[0].init_send(InitTxArgs { amount: 400_000_000, minimum_confirmations: 1, selection_strategy_is_use_all: false, ..Default::default() })?;
						wd.wallets[0].lock_outputs(&s)?;
						wd.wallets[0].cancel(None, Some(s.id))
					})();
					format!("send+cancel {:?}", res.map_err(|e| err_kind(&e)))
				}
				7 => format!("account {:?}", wd.wallets[0].create_account(&format!("x{}", r.below(1000))).map(|_| ()).map_err(|e| err_kind(&e))),
				_ => format!("scan {:?}", wd.wallets[0].scan(None, false).map_err(|e| err_kind(&e))),
			}
		};
		for oi in 0..n_ops {
			let k = rng.below(9);
			let rm = step(&mut m, &mut drng_m, k);
			let rp = step(&mut p, &mut drng_p, k);
			*ops.entry(["mine", "mine", "refresh", "send", "send", "receive", "send+cancel", "account", "scan"][k as usize]).or_insert(0) += 1;
			rep.eval();
			let cm = canon(&m.wallets[0]);
			let cp = canon(&p.wallets[0]);
			if rm != rp || cm != cp {
				if !diverged {
					rep.violation("C14|masked-wallet-differs-from-unmasked", &format!("after operation {} ({} vs {}) the masked wallet driven with the right token differs from the unmasked wallet of the same seed: outputs {} vs {}, entries {} vs {}", oi, rm, rp, cm.0.len(), cp.0.len(), cm.1.len(), cp.1.len()), json!({"job":"c14","op_index": oi, "masked_result": rm, "plain_result": rp}));
				}
				diverged = true;
			} else {
				rep.distinct(&("diff", k, cm.0.len(), cm.1.len()));
			}
		}
		for (k, v) in ops {
			rep.count_n(&format!("differential-op:{}", k), v);
		}
		if !diverged {
			rep.count("differential:equal-throughout");
		}
		// ---------------- after close: nothing works until reopened
		let owner: Own = Owner::new(m.wallets[0].inst.clone(), None);
		let tok = m.wallets[0].mask.clone();
		let _ = owner.close_wallet(None);
		let sh = Shared { s1: None, s1_locked: None, reply: None, invoice_in: None, enc_msg: None, proof: None, my_addr: None };
		for (name, _, f) in calls().iter() {
			if *name == "start_updater+stop" || *name == "post_tx" {
				continue;
			}
			rep.eval();
			match catch(|| f(&owner, tok.as_ref(), &sh)) {
				Err((loc, msg)) => rep.violation(&format!("C14|panic|{}", loc), &format!("{} on a closed wallet panicked: {}", name, msg), json!({"job":"c14","method": name, "state":"closed"})),
				Ok(Ok(())) => rep.violation(&format!("C14|operation-succeeds-on-closed-wallet|{}", name), &format!("{} succeeded after close_wallet", name), json!({"job":"c14","method": name, "state":"closed"})),
				Ok(Err(_)) => rep.count("closed-wallet:refused"),
			}
		}
		match owner.open_wallet(None, ZeroingString::from("pw"), true) {
			Ok(Some(t2)) => {
				if owner.accounts(Some(&t2)).is_ok() {
					rep.count("reopened:works-with-new-token");
				} else {
					rep.violation("C14|reopen-failed", "after reopening, the new token does not work", json!({"job":"c14"}));
				}
				if let Some(old) = tok {
					// (a reopened wallet that hands out the previous session's token again is the same failure)
					if owner.accounts(Some(&old)).is_ok() {
						rep.violation("C14|old-token-works-after-reopen", "the token of the previous session still works after the wallet was reopened with a new mask", json!({"job":"c14"}));
					}
				}
			}
			other => rep.inconclusive(&format!("reopen gave {:?}", other.map(|o| o.is_some()).map_err(|e| err_kind(&e)))),
		}
	}
	rep.write(&a.out);
}
