use crate::util::Args;
pub mod c01;
pub mod c08;
pub mod c09;
pub mod c10;
pub mod c19;
pub mod chist;
pub mod smoke;

pub fn dispatch(a: &Args) {
	match a.prop.as_str() {
		"smoke" => smoke::run(a),
		"c19" => c19::run(a),
		"c03" => chist::run(a, "C03"),
		"c04" => chist::run(a, "C04"),
		"c15" => chist::run(a, "C15"),
		"c15r" => chist::run_restore(a),
		"c12h" => chist::run(a, "C12"),
		"c01" => c01::run(a),
		"c08" => c08::run(a),
		"c09" => c09::run(a),
		"c10" => c10::run(a),
		p => {
			eprintln!("unknown property {}", p);
			std::process::exit(2);
		}
	}
}
