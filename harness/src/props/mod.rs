use crate::util::Args;
pub mod c01;
pub mod c02;
pub mod c05;
pub mod c06;
pub mod c07;
pub mod c08;
pub mod c09;
pub mod c10;
pub mod c12;
pub mod c13;
pub mod c14;
pub mod c16;
pub mod c17;
pub mod c18;
pub mod c20;
pub mod c20t;
pub mod c19;
pub mod chist;
pub mod smoke;

pub fn dispatch(a: &Args) {
	match a.prop.as_str() {
		"smoke" => smoke::run(a),
		"c19" => c19::run(a),
		"c03" => chist::run(a, "C03"),
		"c04" => chist::run(a, "C04"),
		"c15" => chist::run(a, "C15"),
		"c15r" => chist::run_restore(a),
		"c04m" => chist::run_accounts(a, "C04"),
		"c16m" => chist::run_accounts(a, "C16"),
		"c12h" => chist::run(a, "C12"),
		"c01" => c01::run(a),
		"c02" => c02::run(a, "C02"),
		"c11" => c02::run(a, "C11"),
		"c05" => c05::run(a),
		"c06" => c06::run(a),
		"c06child" => c06::child(a),
		"c07" => c07::run(a),
		"c08" => c08::run(a),
		"c09" => c09::run(a),
		"c10" => c10::run(a),
		"c17" => c17::run(a),
		"c18" => c18::run(a),
		"c20" => c20::run(a),
		"c20t" => c20t::run(a),
		"c13" => c13::run(a),
		"c14" => c14::run(a),
		"c16" => c16::run(a),
		"c12s" => c12::run(a),
		"c12child" => c12::child(a),
		p => {
			eprintln!("unknown property {}", p);
			std::process::exit(2);
		}
	}
}
