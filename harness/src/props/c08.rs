//! C08 Slate and slatepack encodings round-trip and agree with each other.

use crate::gen::*;
use crate::util::*;
use crate::world::idstr;
use ed25519_dalek::SecretKey as DalekSecretKey;
use grin_core::core::FeeFields;
use grin_core::global;
use grin_core::ser as gser;
use grin_keychain::{ExtKeychain, Keychain};
use grin_util::secp::key::SecretKey;
use grin_wallet_libwallet::slate_versions::v4::SlateV4;
use grin_wallet_libwallet::{
	Context, OutputData, OutputStatus, Slate, SlateVersion, Slatepack, SlatepackAddress,
	SlatepackArmor, SlatepackBin, Slatepacker, SlatepackerArgs, StoredProofInfo, TxLogEntry,
	TxLogEntryType, VersionedBinSlate, VersionedSlate,
};
use grin_wallet_util::byte_ser;
use grin_wallet_util::OnionV3Address;
use serde_json::{json, Value};
use std::convert::TryFrom;

fn case_json(v4: &SlateV4) -> Value {
	// literal generated value (V4 JSON is the natural literal form; used for replay too)
	serde_json::to_value(v4).unwrap_or(Value::Null)
}

type Dec = Result<Slate, String>;

fn via_json_slate(s: &Slate) -> Dec {
	let j = serde_json::to_string(s).map_err(|e| format!("encode: {}", e))?;
	Slate::deserialize_upgrade(&j).map_err(|e| format!("decode: {:?}", e))
}

fn via_json_versioned(s: &Slate) -> Dec {
	let v = VersionedSlate::into_version(s.clone(), SlateVersion::V4).map_err(|e| format!("{:?}", e))?;
	let j = serde_json::to_string(&v).map_err(|e| format!("encode: {}", e))?;
	let v: VersionedSlate = serde_json::from_str(&j).map_err(|e| format!("decode: {}", e))?;
	Ok(Slate::from(v))
}

fn via_bin(s: &Slate) -> Dec {
	let v = VersionedSlate::into_version(s.clone(), SlateVersion::V4).map_err(|e| format!("{:?}", e))?;
	let b = VersionedBinSlate::try_from(v).map_err(|e| format!("{:?}", e))?;
	let bytes = byte_ser::to_bytes(&b).map_err(|e| format!("encode: {}", e))?;
	let b: VersionedBinSlate = byte_ser::from_bytes(&bytes).map_err(|e| format!("decode: {}", e))?;
	let v: VersionedSlate = b.into();
	Ok(Slate::from(v))
}

/// slatepack paths: form 0 armored, 1 binary, 2 JSON
fn via_slatepack(
	s: &Slate,
	form: u8,
	sender: Option<SlatepackAddress>,
	recipients: &[(DalekSecretKeyBytes, SlatepackAddress)],
	dec_with: Option<usize>,
) -> Result<(Slate, Option<SlatepackAddress>), String> {
	let packer = Slatepacker::new(SlatepackerArgs {
		sender: sender.clone(),
		recipients: recipients.iter().map(|r| r.1.clone()).collect(),
		dec_key: None,
	});
	let sp = packer.create_slatepack(s).map_err(|e| format!("create: {:?}", e))?;
	let bytes: Vec<u8> = match form {
		0 => packer.armor_slatepack(&sp).map_err(|e| format!("armor: {:?}", e))?.into_bytes(),
		1 => byte_ser::to_bytes(&SlatepackBin(sp.clone())).map_err(|e| format!("bin: {}", e))?,
		_ => serde_json::to_vec(&sp).map_err(|e| format!("json: {}", e))?,
	};
	let key = dec_with.map(|i| DalekSecretKey::from_bytes(&recipients[i].0).unwrap());
	let unpacker = Slatepacker::new(SlatepackerArgs {
		sender: None,
		recipients: vec![],
		dec_key: key.as_ref(),
	});
	let sp2 = unpacker
		.deser_slatepack(&bytes, true)
		.map_err(|e| format!("deser: {:?}", e))?;
	let slate = unpacker.get_slate(&sp2).map_err(|e| format!("get_slate: {:?}", e))?;
	Ok((slate, sp2.sender))
}

fn roundtrip_slate(rep: &mut Report, g: &SlateGen, rng: &mut Rng, st: &mut FieldStats, max_coms: usize) {
	let (v4, s) = g.slate(rng, st, max_coms);
	rep.eval();
	let mut decoded: Vec<(String, Slate)> = vec![];
	let mut fail = |rep: &mut Report, path: &str, fields: Vec<String>, what: String| {
		let mut f = fields.clone();
		f.sort();
		rep.violation(
			&format!("C08|{}|{}", path, f.join("+")),
			&what,
			json!({"slate_v4": case_json(&v4), "path": path}),
		);
	};
	let paths: Vec<(&str, Box<dyn Fn(&Slate) -> Dec>)> = vec![
		("json-slate", Box::new(via_json_slate)),
		("json-versioned", Box::new(via_json_versioned)),
		("v4-binary", Box::new(via_bin)),
	];
	for (name, f) in paths.iter() {
		match catch(|| f(&s)) {
			Err((loc, msg)) => fail(rep, name, vec![format!("panic@{}", loc)], format!("panic at {}: {}", loc, msg)),
			Ok(Err(e)) => fail(rep, name, vec!["refused".into()], format!("well-typed slate refused: {}", e)),
			Ok(Ok(d)) => {
				let df = diff_slate(&s, &d);
				if !df.is_empty() {
					fail(rep, name, df.clone(), format!("decode(encode(s)) differs in {:?}", df));
				}
				// close the loop at the V4 level too
				let back = SlateV4::from(&d);
				let dv = diff_v4(&v4, &back);
				if !dv.is_empty() && df.is_empty() {
					fail(rep, &format!("{}:v4-level", name), dv.clone(), format!("generated SlateV4 != SlateV4::from(decoded) in {:?}", dv));
				}
				decoded.push((name.to_string(), d));
			}
		}
	}
	// slatepack paths
	let n_rec = rng.usize(4);
	let mut recipients = vec![];
	for _ in 0..n_rec {
		recipients.push(g.address(rng));
	}
	let sender = if rng.bool() { Some(g.address(rng).1) } else { None };
	st.hit(&format!("recipients={}", n_rec));
	st.hit(if sender.is_some() { "sender=some" } else { "sender=none" });
	for form in 0..3u8 {
		let fname = ["armored", "binary", "json"][form as usize];
		let decs: Vec<Option<usize>> = if n_rec == 0 { vec![None] } else { (0..n_rec).map(Some).collect() };
		for dw in decs {
			let name = format!("slatepack-{}-{}", fname, if n_rec == 0 { "plain" } else { "encrypted" });
			match catch(|| via_slatepack(&s, form, sender.clone(), &recipients, dw)) {
				Err((loc, msg)) => fail(rep, &name, vec![format!("panic@{}", loc)], format!("panic at {}: {}", loc, msg)),
				Ok(Err(e)) => fail(rep, &name, vec!["refused".into()], format!("well-typed slate refused: {}", e)),
				Ok(Ok((d, snd))) => {
					let df = diff_slate(&s, &d);
					if !df.is_empty() {
						fail(rep, &name, df.clone(), format!("decode(encode(s)) differs in {:?}", df));
					}
					if snd != sender {
						fail(rep, &name, vec!["sender".into()], format!("sender address {:?} decoded as {:?}", sender, snd));
					}
					decoded.push((name.clone(), d));
				}
			}
		}
	}
	// all encodings agree with each other
	for i in 1..decoded.len() {
		let df = diff_slate(&decoded[0].1, &decoded[i].1);
		if !df.is_empty() {
			fail(rep, &format!("agree:{}-vs-{}", decoded[0].0, decoded[i].0), df.clone(), format!("two encodings of one slate decode differently: {:?}", df));
		}
	}
	rep.count_n("decodes-compared", decoded.len() as u64);
	// behaviour class: which optional things were present
	rep.distinct(&(
		format!("{:?}", v4.sta),
		v4.num_parts,
		v4.amt == 0,
		v4.fee.is_zero(),
		v4.feat,
		v4.ttl == 0,
		v4.sigs.len(),
		v4.coms.as_ref().map(|c| std::cmp::min(c.len(), 3)),
		v4.proof.as_ref().map(|p| p.rsig.is_some()),
		n_rec,
		sender.is_some(),
	));
	if rep.samples.len() < 3 && v4.coms.as_ref().map(|c| c.len()).unwrap_or(0) <= 2 {
		rep.sample(json!({"slate_v4": case_json(&v4), "recipients": n_rec, "paths_decoded": decoded.len()}));
	}
}

/// every field of a TxLogEntry as plain values (keys and signatures as bytes)
fn txlog_fields(t: &TxLogEntry) -> String {
	format!(
		"{:?}",
		(
			crate::world::ptx(t),
			t.creation_ts,
			t.confirmation_ts,
			t.kernel_lookup_min_height,
			t.fee.map(|f| (f.fee(), f.fee_shift())),
			t.payment_proof.as_ref().map(|p| (
				p.receiver_address.to_bytes(),
				p.receiver_signature.map(|s| s.to_bytes().to_vec()),
				p.sender_address_path,
				p.sender_address.to_bytes(),
				p.sender_signature.map(|s| s.to_bytes().to_vec())
			)),
			t.reverted_after,
		)
	)
}

fn roundtrip_records(rep: &mut Report, g: &SlateGen, rng: &mut Rng, st: &mut FieldStats) {
	// slatepack addresses: string, binary, serde
	for hrp_main in [true, false].iter() {
		rep.eval();
		let (_, pk) = rng.pick(&g.ed_keys).clone();
		let mut a = SlatepackAddress::new(&pk);
		a.hrp = if *hrp_main { "grin".into() } else { "tgrin".into() };
		let s = String::try_from(&a).unwrap_or_default();
		let r = catch(|| {
			let b = SlatepackAddress::try_from(s.as_str()).map_err(|e| format!("{:?}", e))?;
			let mut v = vec![];
			gser::serialize(&mut v, gser::ProtocolVersion(4), &a).map_err(|e| format!("{:?}", e))?;
			let c: SlatepackAddress = gser::deserialize(&mut &v[..], gser::ProtocolVersion(4), gser::DeserializationMode::default()).map_err(|e| format!("{:?}", e))?;
			let j = serde_json::to_string(&a).map_err(|e| format!("{}", e))?;
			let d: SlatepackAddress = serde_json::from_str(&j).map_err(|e| format!("{}", e))?;
			Ok::<_, String>((b, c, d))
		});
		match r {
			Ok(Ok((b, c, d))) => {
				if b != a || c != a || d != a {
					rep.violation("C08|slatepack-address", "address does not survive its own encode/decode", json!({"address": s}));
				} else {
					rep.distinct(&("addr", *hrp_main, pk.to_bytes()[0] & 3));
					st.hit("record:slatepack-address");
				}
			}
			Ok(Err(e)) => rep.violation("C08|slatepack-address|refused", &e, json!({"address": s})),
			Err((loc, m)) => rep.violation(&format!("C08|slatepack-address|panic@{}", loc), &m, json!({"address": s})),
		}
	}
	// onion addresses: ov3 string, http string, hex
	{
		rep.eval();
		let (_, pk) = rng.pick(&g.ed_keys).clone();
		let o = OnionV3Address::from_bytes(pk.to_bytes());
		let forms = vec![o.to_ov3_str(), o.to_http_str(), hex(&pk.to_bytes()), o.to_ov3_str().to_uppercase()];
		for f in forms {
			match catch(|| OnionV3Address::try_from(f.as_str())) {
				Ok(Ok(b)) => {
					if b != o {
						rep.violation("C08|onion-address", "onion address decodes to a different key", json!({"form": f}));
					} else {
						st.hit("record:onion-address");
					}
				}
				Ok(Err(e)) => rep.violation("C08|onion-address|refused", &format!("{:?}", e), json!({"form": f})),
				Err((loc, m)) => rep.violation(&format!("C08|onion-address|panic@{}", loc), &m, json!({"form": f})),
			}
		}
		rep.distinct(&("onion", pk.to_bytes()[0] & 3));
	}
	// stored records through their own Writeable/Readable
	let parent = ExtKeychain::derive_key_id(2, rng.below(3) as u32, 0, 0, 0);
	let key_id = ExtKeychain::derive_key_id(3, rng.below(3) as u32, rng.next() as u32, 0, 0);
	let statuses = [OutputStatus::Unconfirmed, OutputStatus::Unspent, OutputStatus::Locked, OutputStatus::Spent, OutputStatus::Reverted];
	{
		rep.eval();
		let o = OutputData {
			root_key_id: parent.clone(),
			key_id: key_id.clone(),
			n_child: rng.next() as u32,
			commit: if rng.bool() { Some(hex(&rng.pick(&g.commits).0)) } else { None },
			mmr_index: if rng.bool() { Some(SlateGen::boundary(rng)) } else { None },
			value: SlateGen::boundary(rng),
			status: statuses[rng.usize(5)].clone(),
			height: SlateGen::boundary(rng),
			lock_height: SlateGen::boundary(rng),
			is_coinbase: rng.bool(),
			tx_log_entry: if rng.bool() { Some(rng.next() as u32) } else { None },
		};
		let r = catch(|| {
			let v = gser::ser_vec(&o, gser::ProtocolVersion(1)).map_err(|e| format!("{:?}", e))?;
			gser::deserialize::<OutputData, _>(&mut &v[..], gser::ProtocolVersion(1), gser::DeserializationMode::default()).map_err(|e| format!("{:?}", e))
		});
		match r {
			Ok(Ok(b)) => {
				if b != o {
					rep.violation("C08|record-output", "OutputData does not survive encode/decode", json!({"record": format!("{:?}", o)}));
				} else {
					st.hit("record:output");
					rep.distinct(&("out", o.commit.is_some(), o.mmr_index.is_some(), o.tx_log_entry.is_some(), crate::world::status_str(&o.status)));
				}
			}
			Ok(Err(e)) => rep.violation("C08|record-output|refused", &e, json!({"record": format!("{:?}", o)})),
			Err((loc, m)) => rep.violation(&format!("C08|record-output|panic@{}", loc), &m, json!({"record": format!("{:?}", o)})),
		}
	}
	{
		rep.eval();
		let types = [TxLogEntryType::ConfirmedCoinbase, TxLogEntryType::TxReceived, TxLogEntryType::TxSent, TxLogEntryType::TxReceivedCancelled, TxLogEntryType::TxSentCancelled, TxLogEntryType::TxReverted];
		let mut t = TxLogEntry::new(parent.clone(), types[rng.usize(6)].clone(), rng.next() as u32);
		t.tx_slate_id = if rng.bool() { Some(uuid::Uuid::from_slice(&rng.bytes(16)).unwrap()) } else { None };
		t.confirmed = rng.bool();
		if rng.bool() {
			t.confirmation_ts = Some(chrono::Utc::now());
		}
		t.num_inputs = rng.usize(1000);
		t.num_outputs = rng.usize(1000);
		t.amount_credited = SlateGen::boundary(rng);
		t.amount_debited = SlateGen::boundary(rng);
		t.fee = if rng.bool() { Some(FeeFields::new(rng.below(16), 1 + rng.below(1 << 39)).unwrap()) } else { None };
		t.ttl_cutoff_height = if rng.bool() { Some(SlateGen::boundary(rng)) } else { None };
		t.stored_tx = if rng.bool() { Some("x.grintx".into()) } else { None };
		t.kernel_excess = if rng.bool() { Some(*rng.pick(&g.commits)) } else { None };
		t.kernel_lookup_min_height = if rng.bool() { Some(SlateGen::boundary(rng)) } else { None };
		if rng.bool() {
			let (rsk, raddr) = rng.pick(&g.ed_keys).clone();
			let (ssk, saddr) = rng.pick(&g.ed_keys).clone();
			use ed25519_dalek::Signer;
			t.payment_proof = Some(StoredProofInfo {
				receiver_address: raddr,
				receiver_signature: if rng.bool() { Some(ed_keypair(&rsk).sign(b"m")) } else { None },
				sender_address_path: rng.next() as u32,
				sender_address: saddr,
				sender_signature: if rng.bool() { Some(ed_keypair(&ssk).sign(b"n")) } else { None },
			});
		}
		t.reverted_after = if rng.bool() { Some(std::time::Duration::from_secs(rng.below(1 << 40))) } else { None };
		let r = catch(|| {
			let v = gser::ser_vec(&t, gser::ProtocolVersion(1)).map_err(|e| format!("{:?}", e))?;
			gser::deserialize::<TxLogEntry, _>(&mut &v[..], gser::ProtocolVersion(1), gser::DeserializationMode::default()).map_err(|e| format!("{:?}", e))
		});
		match r {
			Ok(Ok(b)) => {
				// TxLogEntry has no PartialEq: compare every field through Debug of the native values
				let fa = txlog_fields(&t);
				let fb = txlog_fields(&b);
				if fa != fb {
					rep.violation("C08|record-txlog", "TxLogEntry does not survive encode/decode", json!({"before": fa, "after": fb}));
				} else {
					st.hit("record:txlog");
					rep.distinct(&("tx", t.fee.is_some(), t.ttl_cutoff_height.is_some(), t.kernel_excess.is_some(), t.payment_proof.is_some(), t.reverted_after.is_some(), crate::world::type_str(&t.tx_type)));
				}
			}
			Ok(Err(e)) => rep.violation("C08|record-txlog|refused", &e, json!({"record": format!("{:?}", t)})),
			Err((loc, m)) => rep.violation(&format!("C08|record-txlog|panic@{}", loc), &m, json!({"record": format!("{:?}", t)})),
		}
	}
	{
		rep.eval();
		let secp = &g.secp;
		let mut c = Context::new(secp, &parent, false, rng.bool());
		c.initial_sec_key = SecretKey::from_slice(secp, &[5u8; 32]).unwrap();
		for _ in 0..rng.usize(4) {
			c.add_input(&key_id, &if rng.bool() { Some(SlateGen::boundary(rng)) } else { None }, SlateGen::boundary(rng));
		}
		for _ in 0..rng.usize(4) {
			c.add_output(&key_id, &None, SlateGen::boundary(rng));
		}
		c.amount = SlateGen::boundary(rng);
		c.fee = if rng.bool() { Some(FeeFields::new(0, 1 + rng.below(1 << 39)).unwrap()) } else { None };
		c.payment_proof_derivation_index = if rng.bool() { Some(rng.next() as u32) } else { None };
		c.calculated_excess = if rng.bool() { Some(*rng.pick(&g.commits)) } else { None };
		if rng.bool() {
			c.late_lock_args = Some(grin_wallet_libwallet::InitTxArgs {
				amount: SlateGen::boundary(rng),
				ttl_blocks: if rng.bool() { Some(SlateGen::boundary(rng)) } else { None },
				amount_includes_fee: if rng.bool() { Some(rng.bool()) } else { None },
				..Default::default()
			});
		}
		let r = catch(|| {
			let v = gser::ser_vec(&c, gser::ProtocolVersion(1)).map_err(|e| format!("{:?}", e))?;
			gser::deserialize::<Context, _>(&mut &v[..], gser::ProtocolVersion(1), gser::DeserializationMode::default()).map_err(|e| format!("{:?}", e))
		});
		match r {
			Ok(Ok(b)) => {
				let same = b.parent_key_id == c.parent_key_id
					&& b.sec_key == c.sec_key && b.sec_nonce == c.sec_nonce
					&& b.initial_sec_key == c.initial_sec_key && b.initial_sec_nonce == c.initial_sec_nonce
					&& b.output_ids == c.output_ids && b.input_ids == c.input_ids
					&& b.amount == c.amount && b.fee == c.fee
					&& b.payment_proof_derivation_index == c.payment_proof_derivation_index
					&& b.calculated_excess == c.calculated_excess
					&& serde_json::to_string(&b.late_lock_args).ok() == serde_json::to_string(&c.late_lock_args).ok();
				if !same {
					rep.violation("C08|record-context", "Context does not survive encode/decode", json!({"parent": idstr(&c.parent_key_id)}));
				} else {
					st.hit("record:context");
					rep.distinct(&("ctx", c.input_ids.len(), c.output_ids.len(), c.fee.is_some(), c.late_lock_args.is_some(), c.calculated_excess.is_some()));
				}
			}
			Ok(Err(e)) => rep.violation("C08|record-context|refused", &e, json!({})),
			Err((loc, m)) => rep.violation(&format!("C08|record-context|panic@{}", loc), &m, json!({})),
		}
	}
	// Slatepack struct itself (plain) through binary and JSON
	{
		rep.eval();
		let mut sp = Slatepack::default();
		let pl = rng.usize(300);
		sp.payload = rng.bytes(pl);
		sp.sender = if rng.bool() { Some(g.address(rng).1) } else { None };
		let r = catch(|| {
			let b = byte_ser::to_bytes(&SlatepackBin(sp.clone())).map_err(|e| format!("{}", e))?;
			let d: SlatepackBin = byte_ser::from_bytes(&b).map_err(|e| format!("{}", e))?;
			let j = serde_json::to_string(&sp).map_err(|e| format!("{}", e))?;
			let e: Slatepack = serde_json::from_str(&j).map_err(|e| format!("{}", e))?;
			let arm = SlatepackArmor::encode(&sp).map_err(|e| format!("{:?}", e))?;
			let raw = SlatepackArmor::decode(arm.as_bytes()).map_err(|e| format!("{:?}", e))?;
			let f: SlatepackBin = byte_ser::from_bytes(&raw).map_err(|e| format!("{}", e))?;
			Ok::<_, String>((d.0, e, f.0))
		});
		match r {
			Ok(Ok((d, e, f))) => {
				if d != sp || e != sp || f != sp {
					rep.violation("C08|record-slatepack", "Slatepack does not survive encode/decode", json!({"payload_len": sp.payload.len(), "sender": sp.sender.is_some()}));
				} else {
					st.hit("record:slatepack");
					rep.distinct(&("sp", sp.sender.is_some(), std::cmp::min(sp.payload.len(), 3)));
				}
			}
			Ok(Err(e)) => rep.violation("C08|record-slatepack|refused", &e, json!({"payload_len": sp.payload.len()})),
			Err((loc, m)) => rep.violation(&format!("C08|record-slatepack|panic@{}", loc), &m, json!({"payload_len": sp.payload.len()})),
		}
	}
	// Slatepack struct, encrypted: payload, sender (present/absent) and the recipient list kept in the
	// encrypted metadata (0-3 entries) must come back through every form after decryption
	{
		rep.eval();
		let mut sp = Slatepack::default();
		let pl = 1 + rng.usize(300);
		sp.payload = rng.bytes(pl);
		sp.sender = if rng.bool() { Some(g.address(rng).1) } else { None };
		let n_meta = rng.usize(4);
		for _ in 0..n_meta {
			sp.add_recipient(g.address(rng).1);
		}
		let (sk_bytes, to) = g.address(rng);
		let plain = sp.clone();
		let case = json!({"payload_len": pl, "sender": plain.sender.is_some(), "recipients_in_metadata": n_meta});
		let r = catch(|| {
			let mut enc = sp.clone();
			enc.try_encrypt_payload(vec![to.clone()]).map_err(|e| format!("encrypt: {:?}", e))?;
			let sk = ed25519_dalek::SecretKey::from_bytes(&sk_bytes).map_err(|e| format!("{}", e))?;
			let mut outs: Vec<(&str, Slatepack)> = vec![];
			let b = byte_ser::to_bytes(&SlatepackBin(enc.clone())).map_err(|e| format!("bin ser: {}", e))?;
			let d: SlatepackBin = byte_ser::from_bytes(&b).map_err(|e| format!("bin de: {}", e))?;
			outs.push(("binary", d.0));
			let j = serde_json::to_string(&enc).map_err(|e| format!("json ser: {}", e))?;
			let e: Slatepack = serde_json::from_str(&j).map_err(|e| format!("json de: {}", e))?;
			outs.push(("json", e));
			let arm = SlatepackArmor::encode(&enc).map_err(|e| format!("armor: {:?}", e))?;
			let raw = SlatepackArmor::decode(arm.as_bytes()).map_err(|e| format!("dearmor: {:?}", e))?;
			let f: SlatepackBin = byte_ser::from_bytes(&raw).map_err(|e| format!("armor bin de: {}", e))?;
			outs.push(("armored", f.0));
			let mut res = vec![];
			for (form, mut o) in outs {
				o.try_decrypt_payload(Some(&sk)).map_err(|e| format!("{}: decrypt: {:?}", form, e))?;
				res.push((form, o));
			}
			Ok::<_, String>(res)
		});
		match r {
			Ok(Ok(res)) => {
				let mut ok = true;
				for (form, o) in res {
					if o.payload != plain.payload || o.sender != plain.sender || o.recipients() != plain.recipients() {
						ok = false;
						rep.violation(&format!("C08|record-slatepack-encrypted|{}", form), &format!("an encrypted Slatepack does not come back through its {} form: payload equal {}, sender equal {}, recipients {} vs {}", form, o.payload == plain.payload, o.sender == plain.sender, o.recipients().len(), plain.recipients().len()), case.clone());
					}
				}
				if ok {
					st.hit("record:slatepack-encrypted");
					rep.distinct(&("sp-enc", plain.sender.is_some(), n_meta));
				}
			}
			Ok(Err(e)) => rep.violation(&format!("C08|record-slatepack-encrypted|refused|sender={}|meta-recipients={}", plain.sender.is_some(), std::cmp::min(n_meta, 1)), &e, case.clone()),
			Err((loc, m)) => rep.violation(&format!("C08|record-slatepack-encrypted|panic@{}", loc), &m, case.clone()),
		}
	}
}

/// Slates the wallet really holds at the end of an exchange: finalized (S3) slates of two-wallet payments with a
/// plain, a height-locked and a no-recent-duplicate kernel. The kernel is not carried by any encoding: the decoder
/// rebuilds it from the slate's fields, and what it rebuilds must be the kernel of the transaction that was encoded.
fn real_finalized_slates(work: &str) -> Vec<(u8, Result<Slate, String>)> {
	let dir = format!("{}/kernels", work);
	std::thread::spawn(move || {
		use crate::world::World;
		use grin_wallet_libwallet::InitTxArgs;
		let mut w = World::two(&dir);
		let _ = w.mine_n(Some(0), 6);
		let _ = w.mine_n(None, 3);
		let _ = w.wallets[0].refresh();
		let mut v = vec![];
		for feat in [0u8, 2, 3].iter() {
			let r = (|| -> Result<Slate, String> {
				let e = |x: grin_wallet_libwallet::Error| format!("{:?}", x);
				let mut s1 = w.wallets[0].init_send(InitTxArgs { amount: 2_000_000_000, minimum_confirmations: 1, selection_strategy_is_use_all: false, ..Default::default() }).map_err(e)?;
				if *feat != 0 {
					// (the slate's kernel feature fields are set the way a counterparty's software would: in the V4 JSON)
					let mut j: Value = serde_json::from_str(&serde_json::to_string(&s1).map_err(|x| format!("{}", x))?).map_err(|x| format!("{}", x))?;
					j["feat"] = json!(*feat);
					j["feat_args"] = json!({"lock_hgt": 3});
					let v4: SlateV4 = serde_json::from_value(j).map_err(|x| format!("v4 json: {}", x))?;
					s1 = Slate::from(v4);
				}
				w.wallets[0].lock_outputs(&s1).map_err(e)?;
				let s2 = w.wallets[1].receive(&s1, None).map_err(e)?;
				let s3 = w.wallets[0].finalize(&s2).map_err(e)?;
				let _ = w.wallets[0].cancel(None, Some(s1.id));
				let _ = w.wallets[1].cancel(None, Some(s1.id));
				Ok(s3)
			})();
			v.push((*feat, r));
		}
		v
	})
	.join()
	.unwrap_or_default()
}

/// A slate whose transaction stays within the maximum transaction weight can be written as a slatepack - and what
/// was written can be read back. Judged with the small limits of the test chain type (maximum weight 226), where
/// a transaction of ten outputs is still valid, in a thread of its own (the chain type is thread-local).
fn slatepacks_of_heavy_slates(seed: u64, n: usize) -> Vec<(String, String, Value)> {
	std::thread::spawn(move || {
		global::set_local_chain_type(global::ChainTypes::AutomatedTesting);
		let mut rng = Rng::new(seed);
		let g = SlateGen::new(&mut rng);
		let mut st = FieldStats::default();
		let mut out = vec![];
		let mut done = 0;
		let mut tries = 0;
		while done < n && tries < 40 * n {
			tries += 1;
			let (v4, s) = g.slate(&mut rng, &mut st, 10);
			let (ins, outs) = match s.tx.as_ref() {
				Some(t) => (t.inputs().len() as u64, t.outputs().len() as u64),
				None => continue,
			};
			if outs < 7 || grin_core::core::Transaction::weight_by_iok(ins, outs, 1) > global::max_tx_weight() {
				continue;
			}
			done += 1;
			for form in 0..3u8 {
				let name = ["slatepack-armored-plain", "slatepack-binary-plain", "slatepack-json-plain"][form as usize];
				let r = match via_slatepack(&s, form, None, &[], None) {
					Ok(_) => "ok".to_string(),
					Err(e) => e,
				};
				out.push((name.to_string(), r, json!({"slate_v4": case_json(&v4), "path": name, "chain_type": "AutomatedTesting", "inputs": ins, "outputs": outs})));
			}
		}
		out
	})
	.join()
	.unwrap_or_default()
}

fn judge_real_kernels(rep: &mut Report, g: &SlateGen, rng: &mut Rng, work: &str) {
	for (feat, r) in real_finalized_slates(work) {
		let s3 = match r {
			Ok(s) => s,
			Err(e) => {
				rep.count(&format!("real-kernel:feat={}:exchange-refused", feat));
				if std::env::var("GWV_DEBUG").is_ok() {
					eprintln!("real-kernel feat {} refused: {}", feat, e);
				}
				continue;
			}
		};
		let k0 = match s3.tx.as_ref().and_then(|t| t.kernels().get(0).cloned()) {
			Some(k) => k,
			None => continue,
		};
		let rec = g.address(rng);
		let paths: Vec<(&str, Dec)> = vec![
			("json-slate", via_json_slate(&s3)),
			("json-versioned", via_json_versioned(&s3)),
			("v4-binary", via_bin(&s3)),
			("slatepack-armored-plain", via_slatepack(&s3, 0, None, &[], None).map(|x| x.0)),
			("slatepack-binary-plain", via_slatepack(&s3, 1, None, &[], None).map(|x| x.0)),
			("slatepack-json-plain", via_slatepack(&s3, 2, None, &[], None).map(|x| x.0)),
			("slatepack-armored-encrypted", via_slatepack(&s3, 0, Some(rec.1.clone()), &[rec.clone()], Some(0)).map(|x| x.0)),
		];
		for (name, d) in paths {
			rep.eval();
			let case = json!({"real_finalized_slate": serde_json::to_value(&s3).unwrap_or(Value::Null), "path": name, "kernel_features": feat});
			match d {
				Err(e) => rep.violation(&format!("C08|{}|refused|finalized-slate(feat={})", name, feat), &e, case),
				Ok(d) => match d.tx.as_ref().and_then(|t| t.kernels().get(0).cloned()) {
					None => rep.violation(&format!("C08|{}|tx-kernel-missing|finalized-slate(feat={})", name, feat), "the decoded slate's transaction has no kernel", case),
					Some(k) => {
						let mut what = vec![];
						if k.features != k0.features {
							what.push("features");
						}
						if k.excess != k0.excess {
							what.push("excess");
						}
						if k.excess_sig != k0.excess_sig {
							what.push("signature");
						}
						if what.is_empty() {
							rep.count(&format!("real-kernel:feat={}:rebuilt-equal", feat));
							rep.distinct(&("real-kernel", feat, name));
						} else {
							rep.violation(&format!("C08|{}|tx-kernel:{}|finalized-slate(feat={})", name, what.join("+"), feat), &format!("the kernel rebuilt by the decoder differs from the kernel of the encoded transaction in {:?}: encoded {:?}, decoded {:?}", what, k0.features, k.features), case);
						}
					}
				},
			}
		}
	}
}

pub fn run(a: &Args) {
	// codec checks use main-net size limits (thread-local chain type)
	global::set_local_chain_type(global::ChainTypes::Mainnet);
	let mut rep = Report::new("C08");
	let mut rng = Rng::new(a.shard_seed() ^ 0xC08);
	let g = SlateGen::new(&mut rng);
	let mut st = FieldStats::default();

	if let Some(rp) = &a.replay {
		let v: Value = serde_json::from_str(&std::fs::read_to_string(rp).unwrap()).unwrap();
		if let Ok(v4) = serde_json::from_value::<SlateV4>(v["case"]["slate_v4"].clone()) {
			let s = Slate::from(v4.clone());
			for (name, f) in [("json-slate", via_json_slate as fn(&Slate) -> Dec), ("json-versioned", via_json_versioned), ("v4-binary", via_bin)].iter() {
				rep.eval();
				match catch(|| f(&s)) {
					Ok(Ok(d)) => {
						let df = diff_slate(&s, &d);
						if !df.is_empty() {
							let mut f2 = df.clone();
							f2.sort();
							rep.violation(&format!("C08|{}|{}", name, f2.join("+")), &format!("differs in {:?}", df), v["case"].clone());
						}
					}
					Ok(Err(e)) => rep.violation(&format!("C08|{}|refused", name), &e, v["case"].clone()),
					Err((loc, m)) => rep.violation(&format!("C08|{}|panic@{}", name, loc), &m, v["case"].clone()),
				}
			}
		}
		rep.write(&a.out);
		return;
	}

	let n = if a.thorough() { 60_000 } else { 2_500 };
	for i in 0..n {
		let max_coms = if i % 50 == 0 { 40 } else { 4 };
		roundtrip_slate(&mut rep, &g, &mut rng, &mut st, max_coms);
		if i % 4 == 0 {
			roundtrip_records(&mut rep, &g, &mut rng, &mut st);
		}
	}
	if a.shard % 4 == 0 {
		judge_real_kernels(&mut rep, &g, &mut rng, &a.work);
	}
	if a.shard % 4 == 1 {
		for (name, r, case) in slatepacks_of_heavy_slates(rng.next(), if a.thorough() { 40 } else { 8 }) {
			rep.eval();
			if r == "ok" {
				rep.count("heavy-slate-within-the-weight-limit:slatepack-read-back");
			} else {
				rep.violation(&format!("C08|{}|refused|slate-within-the-maximum-weight", name), &format!("a slate whose transaction is within the maximum weight was written as a slatepack that cannot be read back: {}", r), case);
			}
		}
	}
	for (k, v) in st.set.iter() {
		rep.count_n(&format!("field:{}", k), *v);
	}
	rep.write(&a.out);
}
