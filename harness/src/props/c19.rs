//! C19 Transaction-log queries return exactly what was asked for.
//!
//! Synthetic logs written through the public batch API into a real LMDB wallet; every query goes
//! through `owner::retrieve_txs`; a reference filter written from the field documentation judges
//! the answer (with explicit don't-care sets where the documentation is silent).

use crate::util::*;
use crate::world::*;
use chrono::{DateTime, Duration, TimeZone, Utc};
use grin_core::core::FeeFields;
use grin_keychain::Identifier;
use grin_wallet_libwallet as libwallet;
use grin_wallet_libwallet::api_impl::owner;
use grin_wallet_libwallet::{
	RetrieveTxQueryArgs, RetrieveTxQuerySortField, RetrieveTxQuerySortOrder, TxLogEntry,
	TxLogEntryType,
};
use serde_json::{json, Value};
use uuid::Uuid;

const TYPES: [TxLogEntryType; 6] = [
	TxLogEntryType::ConfirmedCoinbase,
	TxLogEntryType::TxReceived,
	TxLogEntryType::TxSent,
	TxLogEntryType::TxReceivedCancelled,
	TxLogEntryType::TxSentCancelled,
	TxLogEntryType::TxReverted,
];

fn ts(k: i64) -> DateTime<Utc> {
	Utc.timestamp(1_600_000_000, 0) + Duration::seconds(k)
}

#[derive(Clone)]
struct Q {
	args: RetrieveTxQueryArgs,
	mask: u32,
}

fn blank() -> RetrieveTxQueryArgs {
	RetrieveTxQueryArgs {
		min_id: None,
		max_id: None,
		limit: None,
		exclude_cancelled: None,
		include_outstanding_only: None,
		include_confirmed_only: None,
		include_sent_only: None,
		include_received_only: None,
		include_coinbase_only: None,
		include_reverted_only: None,
		min_amount: None,
		max_amount: None,
		min_creation_timestamp: None,
		max_creation_timestamp: None,
		min_confirmed_timestamp: None,
		max_confirmed_timestamp: None,
		sort_field: None,
		sort_order: None,
	}
}

const FIELD_NAMES: [&str; 18] = [
	"min_id",
	"max_id",
	"limit",
	"exclude_cancelled",
	"include_outstanding_only",
	"include_confirmed_only",
	"include_sent_only",
	"include_received_only",
	"include_coinbase_only",
	"include_reverted_only",
	"min_amount",
	"max_amount",
	"min_creation_timestamp",
	"max_creation_timestamp",
	"min_confirmed_timestamp",
	"max_confirmed_timestamp",
	"sort_field",
	"sort_order",
];

struct Pools {
	ids: Vec<u32>,
	amounts: Vec<u64>,
	times: Vec<i64>,
}

/// set field `f` of the query to a value chosen by `pickidx`
fn set_field(q: &mut Q, f: usize, v: u64, pools: &Pools) {
	q.mask |= 1 << f;
	let a = &mut q.args;
	let b = v % 2 == 0; // true more often handled by caller
	match f {
		0 => a.min_id = Some(pools.ids[(v as usize) % pools.ids.len()]),
		1 => a.max_id = Some(pools.ids[(v as usize) % pools.ids.len()]),
		2 => a.limit = Some(([0u32, 1, 2, 3, 5, 8, 1000])[(v as usize) % 7]),
		3 => a.exclude_cancelled = Some(b),
		4 => a.include_outstanding_only = Some(b),
		5 => a.include_confirmed_only = Some(b),
		6 => a.include_sent_only = Some(b),
		7 => a.include_received_only = Some(b),
		8 => a.include_coinbase_only = Some(b),
		9 => a.include_reverted_only = Some(b),
		10 => a.min_amount = Some(pools.amounts[(v as usize) % pools.amounts.len()]),
		11 => a.max_amount = Some(pools.amounts[(v as usize) % pools.amounts.len()]),
		12 => a.min_creation_timestamp = Some(ts(pools.times[(v as usize) % pools.times.len()])),
		13 => a.max_creation_timestamp = Some(ts(pools.times[(v as usize) % pools.times.len()])),
		14 => a.min_confirmed_timestamp = Some(ts(pools.times[(v as usize) % pools.times.len()])),
		15 => a.max_confirmed_timestamp = Some(ts(pools.times[(v as usize) % pools.times.len()])),
		16 => {
			a.sort_field = Some(match v % 6 {
				0 => RetrieveTxQuerySortField::Id,
				1 => RetrieveTxQuerySortField::CreationTimestamp,
				2 => RetrieveTxQuerySortField::ConfirmationTimestamp,
				3 => RetrieveTxQuerySortField::TotalAmount,
				4 => RetrieveTxQuerySortField::AmountCredited,
				_ => RetrieveTxQuerySortField::AmountDebited,
			})
		}
		_ => {
			a.sort_order = Some(if b {
				RetrieveTxQuerySortOrder::Desc
			} else {
				RetrieveTxQuerySortOrder::Asc
			})
		}
	}
}

fn nvals(f: usize, pools: &Pools) -> u64 {
	match f {
		0 | 1 => pools.ids.len() as u64,
		2 => 7,
		3..=9 => 2,
		10 | 11 => pools.amounts.len() as u64,
		12..=15 => pools.times.len() as u64,
		16 => 6,
		_ => 2,
	}
}

#[derive(PartialEq, Clone, Copy, Debug)]
enum M {
	Must,
	May,
	No,
}

fn and(a: M, b: M) -> M {
	match (a, b) {
		(M::No, _) | (_, M::No) => M::No,
		(M::May, _) | (_, M::May) => M::May,
		_ => M::Must,
	}
}

fn is_sent(t: &TxLogEntry) -> bool {
	t.tx_type == TxLogEntryType::TxSent || t.tx_type == TxLogEntryType::TxSentCancelled
}
fn is_cancelled(t: &TxLogEntry) -> bool {
	t.tx_type == TxLogEntryType::TxSentCancelled
		|| t.tx_type == TxLogEntryType::TxReceivedCancelled
}

fn signed_total(t: &TxLogEntry) -> i128 {
	t.amount_credited as i128 - t.amount_debited as i128
}
fn magnitude_total(t: &TxLogEntry) -> i128 {
	if is_sent(t) {
		t.amount_debited as i128 - t.amount_credited as i128
	} else {
		signed_total(t)
	}
}

/// Reference filter written from the RetrieveTxQueryArgs field documentation.
/// Returns the membership of an entry, plus the list of criteria it definitely fails.
fn classify(t: &TxLogEntry, a: &RetrieveTxQueryArgs, reading: u8) -> (M, Vec<&'static str>) {
	let mut m = M::Must;
	let mut fails = vec![];
	let mut crit = |name: &'static str, r: M, m: &mut M| {
		if r == M::No {
			fails.push(name);
		}
		*m = and(*m, r);
	};
	let b = |x: bool| if x { M::Must } else { M::No };
	if let Some(v) = a.min_id {
		crit("min_id", b(t.id >= v), &mut m);
	}
	if let Some(v) = a.max_id {
		crit("max_id", b(t.id <= v), &mut m);
	}
	if a.exclude_cancelled == Some(true) {
		crit("exclude_cancelled", b(!is_cancelled(t)), &mut m);
	}
	if a.include_outstanding_only == Some(true) {
		// documentation: "only consider outstanding transactions". Unconfirmed live entries are
		// outstanding; whether an unconfirmed *cancelled* entry counts is not documented.
		let r = if t.confirmed {
			M::No
		} else if is_cancelled(t) {
			M::May
		} else {
			M::Must
		};
		crit("include_outstanding_only", r, &mut m);
	}
	if a.include_confirmed_only == Some(true) {
		crit("include_confirmed_only", b(t.confirmed), &mut m);
	}
	if a.include_sent_only == Some(true) {
		let r = match t.tx_type {
			TxLogEntryType::TxSent => M::Must,
			TxLogEntryType::TxSentCancelled => M::May,
			_ => M::No,
		};
		crit("include_sent_only", r, &mut m);
	}
	if a.include_received_only == Some(true) {
		let r = match t.tx_type {
			TxLogEntryType::TxReceived => M::Must,
			TxLogEntryType::TxReceivedCancelled | TxLogEntryType::TxReverted => M::May,
			_ => M::No,
		};
		crit("include_received_only", r, &mut m);
	}
	if a.include_coinbase_only == Some(true) {
		crit(
			"include_coinbase_only",
			b(t.tx_type == TxLogEntryType::ConfirmedCoinbase),
			&mut m,
		);
	}
	if a.include_reverted_only == Some(true) {
		crit(
			"include_reverted_only",
			b(t.tx_type == TxLogEntryType::TxReverted),
			&mut m,
		);
	}
	// amount: documented as (credited - debited) [reading 0]; the implementation documents the
	// magnitude for sent entries [reading 1]. The caller requires one reading to explain everything.
	let total = if reading == 0 { signed_total(t) } else { magnitude_total(t) };
	if let Some(v) = a.min_amount {
		crit("min_amount", b(total >= v as i128), &mut m);
	}
	if let Some(v) = a.max_amount {
		crit("max_amount", b(total <= v as i128), &mut m);
	}
	if let Some(v) = a.min_creation_timestamp {
		crit("min_creation_timestamp", b(t.creation_ts >= v), &mut m);
	}
	if let Some(v) = a.max_creation_timestamp {
		crit("max_creation_timestamp", b(t.creation_ts <= v), &mut m);
	}
	if let Some(v) = a.min_confirmed_timestamp {
		let r = match t.confirmation_ts {
			Some(c) => b(c >= v),
			None => M::May,
		};
		crit("min_confirmed_timestamp", r, &mut m);
	}
	if let Some(v) = a.max_confirmed_timestamp {
		let r = match t.confirmation_ts {
			Some(c) => b(c <= v),
			None => M::May,
		};
		crit("max_confirmed_timestamp", r, &mut m);
	}
	(m, fails)
}

fn sort_field_name(a: &RetrieveTxQueryArgs) -> &'static str {
	match a.sort_field {
		None => "Id(default)",
		Some(RetrieveTxQuerySortField::Id) => "Id",
		Some(RetrieveTxQuerySortField::CreationTimestamp) => "CreationTimestamp",
		Some(RetrieveTxQuerySortField::ConfirmationTimestamp) => "ConfirmationTimestamp",
		Some(RetrieveTxQuerySortField::TotalAmount) => "TotalAmount",
		Some(RetrieveTxQuerySortField::AmountCredited) => "AmountCredited",
		Some(RetrieveTxQuerySortField::AmountDebited) => "AmountDebited",
	}
}

/// sort keys under both readings (signed, magnitude); None = no key (unconfirmed under
/// ConfirmationTimestamp: placement is a don't-care)
fn sort_keys(t: &TxLogEntry, a: &RetrieveTxQueryArgs) -> Option<(i128, i128)> {
	let k = |x: i128| Some((x, x));
	match a.sort_field {
		None | Some(RetrieveTxQuerySortField::Id) => k(t.id as i128),
		Some(RetrieveTxQuerySortField::CreationTimestamp) => {
			k(t.creation_ts.timestamp_nanos() as i128)
		}
		Some(RetrieveTxQuerySortField::ConfirmationTimestamp) => {
			t.confirmation_ts.map(|c| (c.timestamp_nanos() as i128, c.timestamp_nanos() as i128))
		}
		Some(RetrieveTxQuerySortField::TotalAmount) => Some((signed_total(t), magnitude_total(t))),
		Some(RetrieveTxQuerySortField::AmountCredited) => k(t.amount_credited as i128),
		Some(RetrieveTxQuerySortField::AmountDebited) => k(t.amount_debited as i128),
	}
}

fn entry_json(t: &TxLogEntry) -> Value {
	json!({"acct": idstr(&t.parent_key_id), "id": t.id, "type": type_str(&t.tx_type), "confirmed": t.confirmed,
		"credited": t.amount_credited.to_string(), "debited": t.amount_debited.to_string(),
		"creation": t.creation_ts.timestamp() - 1_600_000_000,
		"confirmation": t.confirmation_ts.map(|c| c.timestamp() - 1_600_000_000),
		"slate": t.tx_slate_id.map(|u| u.to_string()), "stored_tx": t.stored_tx.is_some()})
}

fn query_json(a: &RetrieveTxQueryArgs) -> Value {
	let mut v = serde_json::to_value(a).unwrap();
	if let Value::Object(ref mut m) = v {
		let keys: Vec<String> = m
			.iter()
			.filter(|(_, v)| v.is_null())
			.map(|(k, _)| k.clone())
			.collect();
		for k in keys {
			m.remove(&k);
		}
	}
	v
}

/// a transaction that can be stored and read back (one plain kernel; nothing in it is ever verified)
fn dummy_tx() -> grin_core::core::Transaction {
	use grin_core::core::{KernelFeatures, Transaction, TxKernel};
	Transaction::empty().with_kernel(TxKernel::with_features(KernelFeatures::Plain { fee: FeeFields::new(0, 1000).unwrap() }))
}

struct Log {
	accounts: Vec<(String, Identifier)>,
	entries: Vec<TxLogEntry>,
}

fn gen_log(rng: &mut Rng, w: &Wallet, n: usize, case_no: u64) -> Result<Log, libwallet::Error> {
	// accounts
	w.set_account("default")?;
	let mut accounts = vec![("default".to_string(), w.active_account()?)];
	let na = 1 + rng.usize(2);
	for i in 0..na {
		let label = format!("acct{}_{}", case_no, i);
		let p = w.create_account(&label)?;
		accounts.push((label, p));
	}
	let amounts = [0u64, 1, 2, 5, 10, 1 << 40, u64::MAX];
	let mut entries = vec![];
	let mut slates: Vec<Uuid> = vec![];
	for _ in 0..n {
		let (_, parent) = rng.pick(&accounts).clone();
		let ty = TYPES[rng.usize(6)].clone();
		let e = with_backend!(w, b, {
			let mut batch = b.batch(w.m())?;
			let id = batch.next_tx_log_id(&parent)?;
			let mut t = TxLogEntry::new(parent.clone(), ty.clone(), id);
			t.creation_ts = ts(rng.below(8) as i64);
			t.confirmed = match ty {
				TxLogEntryType::ConfirmedCoinbase => true,
				TxLogEntryType::TxReceivedCancelled | TxLogEntryType::TxSentCancelled => false,
				TxLogEntryType::TxReverted => false,
				_ => rng.bool(),
			};
			if t.confirmed || (ty == TxLogEntryType::TxReverted && rng.bool()) {
				t.confirmation_ts = Some(ts(rng.below(8) as i64));
			}
			match ty {
				TxLogEntryType::TxSent | TxLogEntryType::TxSentCancelled => {
					t.amount_debited = *rng.pick(&amounts);
					t.amount_credited = if rng.bool() {
						0
					} else {
						*rng.pick(&amounts)
					};
					t.fee = Some(FeeFields::new(0, 1 + rng.below(1000)).unwrap());
					t.num_inputs = 1 + rng.usize(3);
				}
				_ => {
					t.amount_credited = *rng.pick(&amounts);
					t.num_outputs = 1;
				}
			}
			if ty != TxLogEntryType::ConfirmedCoinbase {
				// sometimes reuse a slate id (self-send: Sent + Received under one id)
				let sid = if !slates.is_empty() && rng.chance(1, 5) {
					*rng.pick(&slates)
				} else {
					let u = Uuid::from_slice(&rng.bytes(16)).unwrap();
					slates.push(u);
					u
				};
				t.tx_slate_id = Some(sid);
				// sent entries sometimes have a stored transaction (an empty one, recognisable by its offset)
				if (ty == TxLogEntryType::TxSent || ty == TxLogEntryType::TxSentCancelled) && rng.bool() {
					t.stored_tx = Some(format!("{}.grintx", sid));
				}
			}
			batch.save_tx_log_entry(t.clone(), &parent)?;
			batch.commit()?;
			Ok::<TxLogEntry, libwallet::Error>(t)
		})?;
		if e.stored_tx.is_some() {
			let off = grin_keychain::BlindingFactor::from_slice(&rng.bytes(32));
			let tx = dummy_tx().with_offset(off);
			with_backend!(w, b, { b.store_tx(&e.tx_slate_id.unwrap().to_string(), &tx) })?;
		}
		entries.push(e);
	}
	Ok(Log { accounts, entries })
}

/// criteria that, supplied alone, already omit an entry they should keep (falls back to all
/// supplied criteria when no single one explains the omission)
fn culprits(wal: &Wallet, q: &Q, mine: &[&TxLogEntry]) -> Vec<&'static str> {
	let mut out = vec![];
	let full = serde_json::to_value(&q.args).unwrap();
	for f in 0..16 {
		if q.mask & (1 << f) == 0 || f == 2 {
			continue;
		}
		let mut v = serde_json::to_value(&blank()).unwrap();
		v[FIELD_NAMES[f]] = full[FIELD_NAMES[f]].clone();
		let single: RetrieveTxQueryArgs = match serde_json::from_value(v) {
			Ok(s) => s,
			Err(_) => continue,
		};
		if let Ok((_, res)) = owner::retrieve_txs(wal.inst.clone(), wal.m(), &None, false, None, None, Some(single.clone())) {
			let omitted = mine.iter().any(|e| classify(e, &single, 1).0 == M::Must && !res.iter().any(|r| r.id == e.id && r.parent_key_id == e.parent_key_id));
			if omitted {
				out.push(FIELD_NAMES[f]);
			}
		}
	}
	if out.is_empty() {
		out = (0..16).filter(|f| q.mask & (1 << f) != 0 && *f != 2).map(|f| FIELD_NAMES[f]).collect();
	}
	out
}

fn judge_r(
	reading: u8,
	wal: &Wallet,
	log: &Log,
	acct: &Identifier,
	acct_label: &str,
	q: &Q,
	res: &[TxLogEntry],
	log_json: &dyn Fn() -> Value,
) -> Result<(u8, usize, bool), (String, String, Value)> {
	let a = &q.args;
	let mine: Vec<&TxLogEntry> = log
		.entries
		.iter()
		.filter(|e| e.parent_key_id == *acct)
		.collect();
	let case = |extra: Value| json!({"kind": "query", "active_account": acct_label, "query": query_json(a), "returned": res.iter().map(entry_json).collect::<Vec<_>>(), "log": log_json(), "detail": extra});
	// 1. account
	for r in res {
		if r.parent_key_id != *acct {
			return Err(viol(
				"C19|other-account-entry-returned",
				&format!("query on account {} returned entry id {} of account {}", acct_label, r.id, idstr(&r.parent_key_id)),
				case(json!({"foreign_entry": entry_json(r)})),
			));
		}
	}
	// 2. every returned entry satisfies every criterion
	let mut must = 0usize;
	let mut may = 0usize;
	for e in mine.iter() {
		match classify(e, a, reading).0 {
			M::Must => must += 1,
			M::May => may += 1,
			M::No => {}
		}
	}
	for r in res {
		let (m, fails) = classify(r, a, reading);
		if m == M::No {
			let mut f = fails.clone();
			f.sort();
			return Err(viol(
				&format!("C19|extra|fails={}", f.join("+")),
				&format!("returned entry id {} fails criteria {:?}", r.id, f),
				case(json!({"entry": entry_json(r)})),
			));
		}
	}
	// duplicates
	let mut ids: Vec<u32> = res.iter().map(|r| r.id).collect();
	ids.sort();
	let before = ids.len();
	ids.dedup();
	if ids.len() != before {
		return Err(viol("C19|duplicate-entry", "an entry was returned twice", case(json!({}))));
	}
	// 3. length
	let limit = a.limit.map(|l| l as usize).unwrap_or(usize::MAX);
	let lo = std::cmp::min(limit, must);
	let hi = std::cmp::min(limit, must + may);
	if res.len() < lo || res.len() > hi {
		// find an omitted must entry for the report
		let omitted: Vec<Value> = mine
			.iter()
			.filter(|e| classify(e, a, reading).0 == M::Must && !res.iter().any(|r| r.id == e.id))
			.map(|e| entry_json(e))
			.collect();
		let mut fields: Vec<&str> = culprits(wal, q, &mine);
		fields.sort();
		return Err(viol(
			&format!("C19|missing|criteria={}", fields.join("+")),
			&format!("{} entries returned, expected between {} and {} (limit {:?}); qualifying entries omitted: {}", res.len(), lo, hi, a.limit, omitted.len()),
			case(json!({"omitted_qualifying": omitted})),
		));
	}
	// 4. order: monotone in the requested key/direction (ties free); entries without a key
	//    (unconfirmed under ConfirmationTimestamp) may sit anywhere.
	let desc = matches!(a.sort_order, Some(RetrieveTxQuerySortOrder::Desc));
	let keyed: Vec<(i128, i128)> = res.iter().filter_map(|r| sort_keys(r, a)).collect();
	let mono = |sel: &dyn Fn(&(i128, i128)) -> i128| {
		keyed.windows(2).all(|w| {
			if desc {
				sel(&w[0]) >= sel(&w[1])
			} else {
				sel(&w[0]) <= sel(&w[1])
			}
		})
	};
	let sel_r = |k: &(i128, i128)| if reading == 0 { k.0 } else { k.1 };
	if !mono(&sel_r) {
		return Err(viol(
			&format!("C19|order|field={}|desc={}", sort_field_name(a), desc),
			"result is not monotone in the requested sort key/direction",
			case(json!({})),
		));
	}
	// 5. truncation: no omitted qualifying entry sorts strictly before a returned one
	if res.len() == limit && limit > 0 {
		let worst = |sel: &dyn Fn(&(i128, i128)) -> i128| -> Option<i128> {
			let it = keyed.iter().map(|k| sel(k));
			if desc {
				it.min()
			} else {
				it.max()
			}
		};
		let check = |sel: &dyn Fn(&(i128, i128)) -> i128| -> bool {
			let wv = match worst(sel) {
				Some(w) => w,
				None => return true,
			};
			mine.iter()
				.filter(|e| classify(e, a, reading).0 == M::Must && !res.iter().any(|r| r.id == e.id))
				.filter_map(|e| sort_keys(e, a))
				.all(|k| if desc { sel(&k) <= wv } else { sel(&k) >= wv })
		};
		if !check(&sel_r) {
			return Err(viol(
				&format!("C19|truncation|field={}|desc={}", sort_field_name(a), desc),
				"limit kept an entry that sorts after an omitted qualifying entry",
				case(json!({})),
			));
		}
	}
	let bucket = if res.is_empty() {
		0
	} else if res.len() == mine.len() {
		2
	} else {
		1
	};
	Ok((bucket, may, res.len() == limit))
}

fn viol(sig: &str, what: &str, case: Value) -> (String, String, Value) {
	(sig.to_string(), what.to_string(), case)
}

/// The amount documentation reads "(amount_credited - amount_debited)" while the implementation
/// documents the magnitude for sent entries. Either reading is accepted, but one reading must
/// explain the whole answer (membership for every entry type, min and max bounds, TotalAmount order).
fn judge(
	rep: &mut Report,
	wal: &Wallet,
	log: &Log,
	acct: &Identifier,
	acct_label: &str,
	q: &Q,
	res: &[TxLogEntry],
	log_json: &dyn Fn() -> Value,
) {
	let r = match judge_r(1, wal, log, acct, acct_label, q, res, log_json) {
		Ok(x) => Ok(x),
		Err(e) => match judge_r(0, wal, log, acct, acct_label, q, res, log_json) {
			Ok(x) => {
				rep.count("explained-only-by-signed-amount-reading");
				Ok(x)
			}
			Err(_) => Err(e),
		},
	};
	match r {
		Err((sig, what, case)) => rep.violation(&sig, &what, case),
		Ok((bucket, may, limit_hit)) => {
			if q.mask != 0 {
				rep.distinct(&(q.mask, bucket, limit_hit));
			}
			if bucket == 1 {
				rep.count("result:proper-subset");
			} else if bucket == 0 {
				rep.count("result:empty");
			} else {
				rep.count("result:all");
			}
			if may > 0 {
				rep.count("queries-with-dont-care-entries");
			}
		}
	}
}

pub fn run(a: &Args) {
	let mut rep = Report::new("C19");
	let mut rng = Rng::new(a.shard_seed() ^ 0xC19);
	let dir = a.work.clone();
	let n_logs = if a.thorough() { 40 } else { 12 };
	let q_per_log = if a.thorough() { 12_000 } else { 2_500 };
	let w = World::create(
		&dir,
		&[WalletSpec {
			name: "w0".into(),
			mnemonic_idx: 0,
			masked: false,
			password: "".into(),
		}],
	);
	let wal = &w.wallets[0];

	if let Some(rp) = &a.replay {
		replay(&mut rep, wal, rp);
		rep.write(&a.out);
		return;
	}

	// each "log" is written into fresh accounts of the same wallet (ids restart per account)
	let mut all_entries: Vec<TxLogEntry> = vec![];
	for case_no in 0..n_logs {
		let n = 5 + rng.usize(if case_no == 0 { 8 } else { 56 });
		let log = match gen_log(&mut rng, wal, n, case_no as u64) {
			Ok(l) => l,
			Err(e) => {
				rep.inconclusive(&format!("log generation failed: {:?}", e));
				continue;
			}
		};
		all_entries.extend(log.entries.iter().cloned());
		// the wallet's log holds entries of earlier cases too (other accounts): they must never
		// show up. The reference uses *all* entries ever written.
		let full = Log {
			accounts: log.accounts.clone(),
			entries: all_entries.clone(),
		};
		let mut ids: Vec<u32> = vec![0, 1];
		for e in log.entries.iter() {
			for d in [0i64, -1, 1].iter() {
				let v = e.id as i64 + d;
				if v >= 0 {
					ids.push(v as u32);
				}
			}
		}
		ids.sort();
		ids.dedup();
		let mut amounts: Vec<u64> = vec![0, 1, u64::MAX];
		for e in log.entries.iter() {
			for x in [e.amount_credited, e.amount_debited, e.amount_credited.wrapping_sub(e.amount_debited), e.amount_debited.wrapping_sub(e.amount_credited)].iter() {
				amounts.push(*x);
				amounts.push(x.wrapping_add(1));
				amounts.push(x.wrapping_sub(1));
			}
		}
		amounts.sort();
		amounts.dedup();
		let pools = Pools {
			ids,
			amounts,
			times: (-1..9).collect(),
		};
		let log_entries = full.entries.clone();
		let accounts_j: Vec<String> = log.accounts.iter().map(|x| x.0.clone()).collect();
		let log_json = move || json!({"accounts": accounts_j, "entries": log_entries.iter().map(entry_json).collect::<Vec<_>>()});

		// exhaustive small scope on the first log: every single field value, every pair of fields
		let mut queries: Vec<Q> = vec![];
		if case_no == 0 {
			queries.push(Q { args: blank(), mask: 0 });
			for f in 0..18 {
				for v in 0..nvals(f, &pools) {
					let mut q = Q { args: blank(), mask: 0 };
					set_field(&mut q, f, v, &pools);
					queries.push(q);
				}
			}
			for f in 0..18 {
				for g in (f + 1)..18 {
					for v in 0..std::cmp::min(nvals(f, &pools), 6) {
						for u in 0..std::cmp::min(nvals(g, &pools), 6) {
							let mut q = Q { args: blank(), mask: 0 };
							let vv = if nvals(f, &pools) > 6 { rng.below(nvals(f, &pools)) } else { v };
							let uu = if nvals(g, &pools) > 6 { rng.below(nvals(g, &pools)) } else { u };
							set_field(&mut q, f, vv, &pools);
							set_field(&mut q, g, uu, &pools);
							queries.push(q);
						}
					}
				}
			}
			rep.count_n("small-scope-queries(all single fields, all field pairs)", queries.len() as u64);
		}
		while queries.len() < q_per_log {
			let mut q = Q { args: blank(), mask: 0 };
			let dens = 1 + rng.below(4);
			for f in 0..18 {
				if rng.chance(dens, 18) {
					let mut v = rng.below(nvals(f, &pools));
					if (3..=9).contains(&f) && rng.chance(3, 4) {
						v = 0; // Some(true) most of the time
					}
					set_field(&mut q, f, v, &pools);
				}
			}
			queries.push(q);
		}

		for (qi, q) in queries.iter().enumerate() {
			let (label, acct) = log.accounts[qi % log.accounts.len()].clone();
			if wal.set_account(&label).is_err() {
				rep.inconclusive("set_active_account failed");
				continue;
			}
			rep.eval();
			let r = catch(|| {
				owner::retrieve_txs(
					wal.inst.clone(),
					wal.m(),
					&None,
					false,
					None,
					None,
					Some(q.args.clone()),
				)
			});
			match r {
				Err((loc, msg)) => rep.violation(
					&format!("C19|panic|{}", loc),
					&format!("retrieve_txs panicked at {}: {}", loc, msg),
					json!({"kind":"query","active_account": label, "query": query_json(&q.args), "log": log_json()}),
				),
				Ok(Err(e)) => rep.violation(
					&format!("C19|error|{}", err_kind(&e)),
					&format!("retrieve_txs returned an error: {:?}", e),
					json!({"kind":"query","active_account": label, "query": query_json(&q.args), "log": log_json()}),
				),
				Ok(Ok((_, res))) => {
					if rep.samples.len() < 3 && q.mask.count_ones() >= 3 && !res.is_empty() {
						rep.sample(json!({"active_account": label, "query": query_json(&q.args), "returned_ids": res.iter().map(|r| r.id).collect::<Vec<_>>(), "log_size": full.entries.len()}));
					}
					judge(&mut rep, wal, &full, &acct, &label, q, &res, &log_json);
				}
			}
		}

		// look-ups by id and by slate id
		for (label, acct) in log.accounts.iter() {
			let _ = wal.set_account(label);
			let mut probes: Vec<(Option<u32>, Option<Uuid>)> = vec![];
			for e in full.entries.iter() {
				probes.push((Some(e.id), None));
				if let Some(s) = e.tx_slate_id {
					probes.push((None, Some(s)));
				}
			}
			probes.push((Some(99999), None));
			probes.push((None, Some(Uuid::from_slice(&rng.bytes(16)).unwrap())));
			for (id, sid) in probes {
				rep.eval();
				rep.count("lookups");
				// the stored transaction addressed by log id is that of the active account's entry with this id
				if let Some(i) = id {
					let mine = full.entries.iter().find(|e| e.parent_key_id == *acct && e.id == i);
					let got = wal.get_stored_tx(Some(i), None);
					let got_id = got.as_ref().ok().and_then(|o| o.as_ref().map(|s| s.id));
					// (the stored transaction is kept per slate id: it exists if any entry with that slate id has one)
					let want_id = mine.and_then(|e| e.tx_slate_id).filter(|sid| full.entries.iter().any(|x| x.tx_slate_id == Some(*sid) && x.stored_tx.is_some()));
					let other = full.entries.iter().any(|e| e.parent_key_id != *acct && e.id == i && e.stored_tx.is_some() && e.tx_slate_id != mine.and_then(|m| m.tx_slate_id));
					if got_id != want_id {
						rep.violation(
							"C19|stored-tx-lookup-by-id",
							&format!("get_stored_tx(log id {}) with account {} active returned the stored transaction of slate {:?}; the active account's entry with that id has {:?}", i, label, got_id, want_id),
							json!({"kind":"stored-tx-lookup","active_account": label, "id": i, "log": log_json()}),
						);
					} else if want_id.is_some() {
						rep.count(if other { "stored-tx-lookups:id-shared-with-another-accounts-stored-tx" } else { "stored-tx-lookups" });
					}
				}
				let r = owner::retrieve_txs(wal.inst.clone(), wal.m(), &None, false, id, sid, None);
				let res = match r {
					Ok(r) => r.1,
					Err(e) => {
						rep.violation(
							&format!("C19|lookup-error|{}", err_kind(&e)),
							&format!("{:?}", e),
							json!({"kind":"lookup","id":id,"slate":sid.map(|s| s.to_string())}),
						);
						continue;
					}
				};
				let mut want: Vec<u32> = full
					.entries
					.iter()
					.filter(|e| e.parent_key_id == *acct)
					.filter(|e| id.map(|i| e.id == i).unwrap_or(true))
					.filter(|e| sid.map(|s| e.tx_slate_id == Some(s)).unwrap_or(true))
					.map(|e| e.id)
					.collect();
				want.sort();
				let mut got: Vec<u32> = res.iter().map(|e| e.id).collect();
				got.sort();
				let foreign = res.iter().any(|e| e.parent_key_id != *acct);
				if want != got || foreign {
					rep.violation(
						if id.is_some() { "C19|lookup-by-id" } else { "C19|lookup-by-slate-id" },
						&format!("look-up returned ids {:?}, expected {:?} (foreign account entry: {})", got, want, foreign),
						json!({"kind":"lookup","active_account": label, "id":id,"slate":sid.map(|s| s.to_string()), "log": log_json()}),
					);
				} else if !want.is_empty() {
					rep.distinct(&("lookup", id.is_some(), want.len()));
				}
			}
		}
	}
	rep.write(&a.out);
}

fn replay(rep: &mut Report, wal: &Wallet, path: &str) {
	// rebuild the literal log and query of the replay file
	let rp: Value = serde_json::from_str(&std::fs::read_to_string(path).unwrap()).unwrap();
	let case = &rp["case"];
	let logj = &case["log"];
	let mut accounts: Vec<(String, Identifier)> = vec![];
	let mut acct_by_path: std::collections::BTreeMap<String, (String, Identifier)> = Default::default();
	for (i, e) in logj["entries"].as_array().unwrap().iter().enumerate() {
		let p = e["acct"].as_str().unwrap().to_string();
		if !acct_by_path.contains_key(&p) {
			let label = if acct_by_path.is_empty() { "default".to_string() } else { format!("r{}", i) };
			let id = if label == "default" { wal.active_account().unwrap() } else { wal.create_account(&label).unwrap() };
			acct_by_path.insert(p.clone(), (label.clone(), id.clone()));
			accounts.push((label, id));
		}
	}
	let mut entries = vec![];
	for e in logj["entries"].as_array().unwrap() {
		let (_, parent) = acct_by_path[e["acct"].as_str().unwrap()].clone();
		let ty = TYPES.iter().find(|t| type_str(t) == e["type"].as_str().unwrap()).unwrap().clone();
		let mut t = TxLogEntry::new(parent.clone(), ty, e["id"].as_u64().unwrap() as u32);
		t.confirmed = e["confirmed"].as_bool().unwrap();
		t.amount_credited = e["credited"].as_str().unwrap().parse().unwrap();
		t.amount_debited = e["debited"].as_str().unwrap().parse().unwrap();
		t.creation_ts = ts(e["creation"].as_i64().unwrap());
		t.confirmation_ts = e["confirmation"].as_i64().map(ts);
		t.tx_slate_id = e["slate"].as_str().map(|s| Uuid::parse_str(s).unwrap());
		if e["stored_tx"].as_bool().unwrap_or(false) {
			if let Some(sid) = t.tx_slate_id {
				t.stored_tx = Some(format!("{}.grintx", sid));
				let tx = dummy_tx();
				let _ = (|| -> Result<(), libwallet::Error> { with_backend!(wal, b, { b.store_tx(&sid.to_string(), &tx) }) })();
			}
		}
		let _ = (|| -> Result<(), libwallet::Error> {
			with_backend!(wal, b, {
				let mut batch = b.batch(wal.m())?;
				batch.save_tx_log_entry(t.clone(), &parent)?;
				batch.commit()?;
				Ok(())
			})
		})();
		entries.push(t);
	}
	let log = Log { accounts: accounts.clone(), entries };
	let active_path = case["returned"].as_array().and_then(|r| r.get(0)).and_then(|e| e["acct"].as_str()).map(|s| s.to_string());
	let _ = active_path;
	if case["kind"] == "stored-tx-lookup" {
		let i = case["id"].as_u64().unwrap_or(0) as u32;
		for (label, acct) in accounts.iter() {
			let _ = wal.set_account(label);
			rep.eval();
			let mine = log.entries.iter().find(|e| e.parent_key_id == *acct && e.id == i);
			let got = wal.get_stored_tx(Some(i), None);
			if std::env::var("GWV_DEBUG").is_ok() {
				eprintln!("replay stored-tx lookup: account {} -> {:?}", label, got.as_ref().map(|o| o.as_ref().map(|s| s.id)));
			}
			let got_id = got.ok().and_then(|o| o.map(|s| s.id));
			let want_id = mine.and_then(|e| e.tx_slate_id).filter(|sid| log.entries.iter().any(|x| x.tx_slate_id == Some(*sid) && x.stored_tx.is_some()));
			if got_id != want_id {
				rep.violation("C19|stored-tx-lookup-by-id", &format!("get_stored_tx(log id {}) with account {} active returned the stored transaction of slate {:?}; the active account's entry with that id has {:?}", i, label, got_id, want_id), case.clone());
			}
		}
	}
	if case["kind"] == "query" {
		let args: RetrieveTxQueryArgs = serde_json::from_value(case["query"].clone()).unwrap();
		// the active account of the original run is identified by label position: try all
		for (label, acct) in accounts.iter() {
			let _ = wal.set_account(label);
			let res = owner::retrieve_txs(wal.inst.clone(), wal.m(), &None, false, None, None, Some(args.clone())).unwrap().1;
			rep.eval();
			let mut mask = 0u32;
			let v = serde_json::to_value(&args).unwrap();
			for (i, f) in FIELD_NAMES.iter().enumerate() {
				if !v[f].is_null() {
					mask |= 1 << i;
				}
			}
			let lj = logj.clone();
			judge(rep, wal, &log, acct, label, &Q { args: args.clone(), mask }, &res, &move || lj.clone());
		}
	}
}
